#!/bin/sh
# Build the harness (offline) against /repo's working tree: the checked build used by most
# checks and the ASan build used by C02's quick tier. Other variants (valgrind/rel, Miri, TSan)
# are built on demand by the thorough tier.
set -e
cd "$(dirname "$0")/harness"
export CARGO_NET_OFFLINE=true
RUSTFLAGS="--cfg jxl_oxide_verif" cargo build --offline --profile chk -p vcheck
RUSTFLAGS="-Zsanitizer=address -Cforce-frame-pointers=yes --cfg jxl_oxide_verif" \
  cargo +nightly build --offline --release -p vcheck --target x86_64-unknown-linux-gnu --target-dir target-asan
