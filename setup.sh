#!/bin/sh
# Build the harness (offline) against /repo's working tree.
set -e
cd "$(dirname "$0")/harness"
export CARGO_NET_OFFLINE=true
RUSTFLAGS="--cfg jxl_oxide_verif" cargo build --offline --profile chk -p vcheck
