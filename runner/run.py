#!/usr/bin/env python3
"""Runner: builds the harness against /repo's working tree, shards worker processes over the
cores, supervises them (crash attribution, restart), merges their summaries, applies
known_findings.json, writes evidence/<id>.json and prints VIOLATION / KNOWN-FINDING lines.

Usage: run.py <Cxx> --tier quick|thorough [--seed N] [--replay PATH]
"""
import json
import os
import signal
import subprocess
import sys
import time
from pathlib import Path

VERIF = Path(__file__).resolve().parent.parent
HARNESS = VERIF / "harness"
sys.path.insert(0, str(VERIF / "runner"))
from props import PROPS  # noqa: E402

NCPU = os.cpu_count() or 4


def log(*a):
    print(*a, file=sys.stderr, flush=True)


def cargo_env(variant):
    env = dict(os.environ)
    env["CARGO_NET_OFFLINE"] = "true"
    flags = "--cfg jxl_oxide_verif"
    env["RUSTFLAGS"] = flags
    env.pop("CARGO_TARGET_DIR", None)
    return env


def build(variant):
    """Build vcheck for a variant; returns path of the binary."""
    t0 = time.time()
    if variant == "chk":
        cmd = ["cargo", "build", "--offline", "--profile", "chk", "-p", "vcheck"]
        out = HARNESS / "target" / "chk" / "vcheck"
    elif variant == "rel":
        cmd = ["cargo", "build", "--offline", "--release", "-p", "vcheck"]
        out = HARNESS / "target" / "release" / "vcheck"
    else:
        raise SystemExit(f"unknown variant {variant}")
    r = subprocess.run(cmd, cwd=HARNESS, env=cargo_env(variant), stdout=subprocess.PIPE, stderr=subprocess.STDOUT, text=True)
    if r.returncode != 0:
        log(r.stdout[-6000:])
        log(f"BUILD-FAILED variant={variant}")
        sys.exit(2)
    log(f"[build] {variant} ok in {time.time()-t0:.1f}s")
    return out


def load_known():
    p = VERIF / "known_findings.json"
    if not p.exists():
        return []
    return json.loads(p.read_text()).get("findings", [])


def run_workers(pid, cfg, tier, seed, binary, logdir):
    """Run sharded workers; returns (summaries, crashes)."""
    tcfg = cfg[tier]
    cases = tcfg["cases"]
    nshard = min(tcfg.get("shards", NCPU), NCPU, max(1, cases))
    budget = tcfg.get("time_budget", 3600)
    extra = []
    for k, v in tcfg.get("extra", {}).items():
        extra += [f"--{k}", str(v)]
    procs = {}
    summaries = []
    crashes = []

    def spawn(shard, start):
        lp = logdir / f"shard{shard}.{start}.json"
        pp = logdir / f"shard{shard}.progress"
        cmd = [str(binary), cfg["worker"], "--seed", str(seed), "--tier", tier, "--shard", f"{shard}/{nshard}",
               "--cases", str(cases), "--start", str(start), "--log", str(lp), "--progress", str(pp),
               "--time-budget", str(budget), "--replay-dir", str(VERIF / "replay" / pid)] + extra
        errp = open(logdir / f"shard{shard}.{start}.stderr", "w")
        p = subprocess.Popen(cmd, cwd=VERIF, stdout=subprocess.DEVNULL, stderr=errp)
        procs[p.pid] = (p, shard, start, lp, pp, time.time())

    for s in range(nshard):
        spawn(s, 0)
    hard_deadline = time.time() + budget * 3 + 600
    watchdog_fired = False
    while procs:
        time.sleep(0.05)
        for k in list(procs):
            p, shard, start, lp, pp, t0 = procs[k]
            rc = p.poll()
            if rc is None:
                if time.time() > hard_deadline:
                    p.kill()
                    watchdog_fired = True
                continue
            del procs[k]
            if rc in (0, 1, 2) and lp.exists():
                try:
                    summaries.append(json.loads(lp.read_text()))
                except Exception as e:  # truncated
                    crashes.append({"shard": shard, "case": None, "rc": rc, "why": f"bad summary: {e}"})
                continue
            # died: attribute to the case in the progress file
            try:
                case = int(pp.read_text().split()[0])
            except Exception:
                case = None
            inp = Path(str(pp) + ".input")
            crashes.append({"shard": shard, "case": case, "rc": rc,
                            "input_hex": inp.read_bytes().hex() if inp.exists() and inp.stat().st_size < (1 << 20) else None,
                            "stderr": (logdir / f"shard{shard}.{start}.stderr").read_text()[-2000:]})
            if case is not None and len(crashes) < 50:
                # partial summary of the dead worker is lost; restart after the crashing case
                nxt = case + 1
                # next index belonging to this shard
                while nxt % nshard != shard:
                    nxt += 1
                if nxt < cases:
                    spawn(shard, nxt)
    return summaries, crashes, watchdog_fired, nshard


def main():
    if len(sys.argv) < 2:
        raise SystemExit(__doc__)
    pid = sys.argv[1].upper()
    tier = os.environ.get("VERIF_TIER", "quick")
    seed = int(os.environ.get("VERIF_SEED", "1"))
    replay = None
    i = 2
    while i < len(sys.argv):
        if sys.argv[i] == "--tier":
            tier = sys.argv[i + 1]
        elif sys.argv[i] == "--seed":
            seed = int(sys.argv[i + 1])
        elif sys.argv[i] == "--replay":
            replay = sys.argv[i + 1]
        i += 2
    cfg = PROPS[pid]
    t0 = time.time()

    if replay:
        r = json.loads(Path(replay).read_text())
        binary = build(r.get("variant", cfg.get("variant", "chk")))
        cmd = [str(binary), cfg["worker"], "--seed", str(r["seed"]), "--tier", r["tier"], "--case", str(r["case"])]
        for k, v in cfg[r["tier"]].get("extra", {}).items():
            cmd += [f"--{k}", str(v)]
        p = subprocess.run(cmd, cwd=VERIF)
        sys.exit(p.returncode)

    logdir = VERIF / "logs" / pid / tier
    if logdir.exists():
        for f in logdir.iterdir():
            f.unlink()
    logdir.mkdir(parents=True, exist_ok=True)
    (VERIF / "replay" / pid).mkdir(parents=True, exist_ok=True)
    (VERIF / "evidence").mkdir(exist_ok=True)

    variant = cfg.get("variant", "chk")
    binary = build(variant)
    summaries, crashes, watchdog, nshard = run_workers(pid, cfg, tier, seed, binary, logdir)

    # ---- merge
    evaluations = sum(s["evaluations"] for s in summaries)
    sigs = set()
    for s in summaries:
        sigs.update(s["sigs"])
    sig_names = []
    for s in summaries:
        for n in s["sig_names"]:
            if n not in sig_names and len(sig_names) < 40:
                sig_names.append(n)
    samples = []
    for s in summaries:
        for x in s["samples"]:
            if len(samples) < 8:
                samples.append(x)
    obs = {}
    for s in summaries:
        for k, v in s["obs"].items():
            obs[k] = obs.get(k, 0) + v
    obs_sets = {}
    for s in summaries:
        for k, v in s.get("obs_sets", {}).items():
            obs_sets.setdefault(k, set()).update(v)
    inconclusive = {}
    for s in summaries:
        for k, v in s["inconclusive"].items():
            inconclusive[k] = inconclusive.get(k, 0) + v
    harness_errors = [e for s in summaries for e in s["harness_errors"]]
    violations = [dict(v, variant=variant) for s in summaries for v in s["violations"]]
    for c in crashes:
        if c.get("case") is None:
            harness_errors.append(f"worker died without progress info rc={c['rc']} {c.get('why','')}")
            continue
        rc = c["rc"]
        if rc < 0:
            kind = f"signal-{signal.Signals(-rc).name}"
        else:
            kind = f"exit-{rc}"
        violations.append({"case": c["case"], "sig": f"process-died:{kind}", "detail": "worker process died in this case: " + (c.get("stderr") or "")[-600:],
                           "input_hex": c.get("input_hex"), "variant": variant})

    known = [k for k in load_known() if k["property"] == pid and k.get("status") == "known"]
    known_sigs = {k["signature"]: k for k in known}
    new_violations = []
    known_hits = {}
    for v in violations:
        if v["sig"] in known_sigs:
            known_hits.setdefault(v["sig"], []).append(v)
        else:
            new_violations.append(v)

    # replay files
    replay_paths = []
    for v in new_violations[:50]:
        rp = VERIF / "replay" / pid / f"{tier}-seed{seed}-case{v['case']}.json"
        rp.write_text(json.dumps({"property": pid, "seed": seed, "tier": tier, "case": v["case"], "sig": v["sig"],
                                  "detail": v["detail"], "input_hex": v.get("input_hex"), "variant": v.get("variant", variant),
                                  "cmd": f"./check {pid} --replay {rp}"}, indent=1))
        replay_paths.append((v, rp))

    floor = cfg[tier].get("floor", 1)
    wall = time.time() - t0
    evidence = {
        "property_id": pid,
        "tier": tier,
        "seed": seed,
        "level": cfg["level"],
        "coverage": {
            "evaluations": evaluations,
            "distinct_nontrivial": len(sigs),
            "rule": cfg["rule"],
            "samples": samples if samples else [{"note": "no samples recorded"}],
            "signature_examples": sig_names,
            "observed": obs,
            "observed_sets": {k: sorted(v)[:200] for k, v in obs_sets.items()},
            "observed_set_sizes": {k: len(v) for k, v in obs_sets.items()},
            "inconclusive": inconclusive,
            "shards": nshard,
            "build_variant": variant,
            "worker_crashes": len(crashes),
            "known_findings_hit": {k: len(v) for k, v in known_hits.items()},
            "exhaustive": False,
        },
        "assumptions": cfg.get("assumptions", []),
        "wall_s": round(wall, 2),
        "violations": len(new_violations),
    }
    (VERIF / "evidence" / f"{pid}.json").write_text(json.dumps(evidence, indent=1))

    for sig, vs in known_hits.items():
        print(f"KNOWN-FINDING: property={pid} {known_sigs[sig]['what']} (signature {sig}, {len(vs)} hits)")
    if harness_errors:
        for e in harness_errors[:20]:
            print(f"HARNESS-ERROR property={pid} {e}")
        print(f"INCONCLUSIVE property={pid} harness errors: {len(harness_errors)}")
        sys.exit(2)
    if new_violations:
        seen = set()
        for v, rp in replay_paths:
            if v["sig"] in seen:
                continue
            seen.add(v["sig"])
            print(f"VIOLATION property={pid} replay={rp} sig={v['sig']} :: {v['detail'][:300]}")
        sys.exit(1)
    if watchdog:
        print(f"INCONCLUSIVE property={pid} wall-clock watchdog fired")
        sys.exit(2)
    if evaluations < floor or len(sigs) < 2:
        print(f"INCONCLUSIVE property={pid} too little observed: evaluations={evaluations} (floor {floor}) distinct={len(sigs)}")
        sys.exit(2)
    print(f"OK property={pid} tier={tier} seed={seed} evaluations={evaluations} distinct_nontrivial={len(sigs)} wall={wall:.1f}s observed={json.dumps(obs)}")
    sys.exit(0)


if __name__ == "__main__":
    main()
