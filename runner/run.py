#!/usr/bin/env python3
"""Runner: builds the harness against /repo's working tree, shards worker processes over the
cores, supervises them (crash attribution, hang re-check, restart), merges their summaries,
applies known_findings.json, writes evidence/<id>.json and prints VIOLATION / KNOWN-FINDING lines.

A check consists of one or more *stages* (worker subcommand x build variant). Variants:
  chk   stable, release + overflow-checks + debug-assertions          (behavioural oracles, C01)
  rel   stable, plain release
  asan  nightly -Zsanitizer=address, release                          (C02)
  tsan  nightly -Zsanitizer=thread -Zbuild-std                        (C02/C07/C20 race detection)
  vg    valgrind memcheck on the rel build                            (C02, uninitialised reads)
  miri  cargo +nightly miri run (optionally with target features)     (C02, tiny cases)

Usage: run.py <Cxx> --tier quick|thorough [--seed N] [--replay PATH]
"""
import json
import os
import re
import signal
import subprocess
import sys
import time
from pathlib import Path

VERIF = Path(__file__).resolve().parent.parent
HARNESS = VERIF / "harness"
sys.path.insert(0, str(VERIF / "runner"))
from props import PROPS  # noqa: E402

NCPU = os.cpu_count() or 4
CFG = "--cfg jxl_oxide_verif"
TARGET = "x86_64-unknown-linux-gnu"


def log(*a):
    print(*a, file=sys.stderr, flush=True)


def base_env():
    env = dict(os.environ)
    env["CARGO_NET_OFFLINE"] = "true"
    env.pop("CARGO_TARGET_DIR", None)
    env.pop("RUSTFLAGS", None)
    return env


def build(variant):
    """Build vcheck for a variant; returns (argv prefix to run the worker, run env)."""
    t0 = time.time()
    env = base_env()
    runenv = base_env()
    if variant == "chk":
        env["RUSTFLAGS"] = CFG
        cmd = ["cargo", "build", "--offline", "--profile", "chk", "-p", "vcheck"]
        prefix = [str(HARNESS / "target" / "chk" / "vcheck")]
    elif variant in ("rel", "vg"):
        env["RUSTFLAGS"] = CFG
        cmd = ["cargo", "build", "--offline", "--release", "-p", "vcheck"]
        prefix = [str(HARNESS / "target" / "release" / "vcheck")]
        if variant == "vg":
            prefix = ["valgrind", "--error-exitcode=97", "--quiet", "--track-origins=no", "--num-callers=24"] + prefix
    elif variant == "asan":
        env["RUSTFLAGS"] = f"-Zsanitizer=address -Cforce-frame-pointers=yes {CFG}"
        cmd = ["cargo", "+nightly", "build", "--offline", "--release", "-p", "vcheck", "--target", TARGET, "--target-dir", str(HARNESS / "target-asan")]
        prefix = [str(HARNESS / "target-asan" / TARGET / "release" / "vcheck")]
        runenv["ASAN_OPTIONS"] = "halt_on_error=1:abort_on_error=1:detect_leaks=0:symbolize=1:allocator_may_return_null=1:max_allocation_size_mb=4096"
        sym = "/usr/bin/llvm-symbolizer-14"
        if os.path.exists(sym):
            runenv["ASAN_SYMBOLIZER_PATH"] = sym
    elif variant == "tsan":
        env["RUSTFLAGS"] = f"-Zsanitizer=thread {CFG}"
        cmd = ["cargo", "+nightly", "build", "--offline", "--release", "-p", "vcheck", "-Zbuild-std", "--target", TARGET, "--target-dir", str(HARNESS / "target-tsan")]
        prefix = [str(HARNESS / "target-tsan" / TARGET / "release" / "vcheck")]
        runenv["TSAN_OPTIONS"] = "halt_on_error=1:exitcode=66:second_deadlock_stack=1"
    elif variant.startswith("miri"):
        # miri, miri+avx2, miri+sse4.1
        feat = variant.split("+", 1)[1] if "+" in variant else ""
        flags = CFG + (f" -Ctarget-feature=+{feat}" if feat else "")
        runenv["RUSTFLAGS"] = flags
        runenv["MIRIFLAGS"] = "-Zmiri-disable-isolation -Zmiri-ignore-leaks -Zmiri-tree-borrows"
        tdir = str(HARNESS / ("target-miri" + ("-" + feat.replace(".", "") if feat else "")))
        cmd = None
        prefix = ["cargo", "+nightly", "miri", "run", "--offline", "-q", "-p", "vcheck", "--target-dir", tdir, "--"]
    else:
        raise SystemExit(f"unknown variant {variant}")
    if cmd:
        r = subprocess.run(cmd, cwd=HARNESS, env=env, stdout=subprocess.PIPE, stderr=subprocess.STDOUT, text=True)
        if r.returncode != 0:
            log(r.stdout[-6000:])
            log(f"BUILD-FAILED variant={variant}")
            return None, None
    log(f"[build] {variant} ok in {time.time()-t0:.1f}s")
    return prefix, runenv


def load_known():
    p = VERIF / "known_findings.json"
    if not p.exists():
        return []
    return json.loads(p.read_text()).get("findings", [])


REPO_FRAME = re.compile(r"(?:/repo/)?(crates/[A-Za-z0-9_\-/.]+\.rs):(\d+)")


def sanitizer_sig(stderr, variant, rc):
    kind = "died"
    m = re.search(r"ERROR: (AddressSanitizer|ThreadSanitizer|LeakSanitizer|MemorySanitizer): ([a-zA-Z\-_ ]+)", stderr)
    if m:
        kind = m.group(1).replace("Sanitizer", "san").lower() + ":" + m.group(2).strip().replace(" ", "-")
    elif "WARNING: ThreadSanitizer: data race" in stderr:
        kind = "tsan:data-race"
    elif "Undefined Behavior" in stderr or "error: Undefined" in stderr:
        kind = "miri:undefined-behavior"
    elif variant == "vg" and ("Invalid read" in stderr or "Invalid write" in stderr or "uninitialised" in stderr):
        kind = "memcheck:" + ("uninit" if "uninitialised" in stderr else "invalid-access")
    elif rc is not None and rc < 0:
        kind = f"signal-{signal.Signals(-rc).name}"
    elif rc is not None:
        kind = f"exit-{rc}"
    f = REPO_FRAME.search(stderr)
    where = f"{f.group(1)}:{f.group(2)}" if f else "?"
    return f"{kind}@{where}"


def run_stage(pid, stage, tier, seed, logdir):
    """Run one stage's sharded workers; returns dict(summaries, crashes, watchdog, nshard, hangs)."""
    variant = stage.get("variant", "chk")
    prefix, runenv = build(variant)
    if prefix is None:
        return {"build_failed": variant}
    tcfg = stage[tier]
    cases = tcfg["cases"]
    nshard = min(tcfg.get("shards", NCPU), NCPU, max(1, cases))
    budget = tcfg.get("time_budget", 3600)
    hang_budget = tcfg.get("hang_budget", 90)
    extra = []
    for k, v in tcfg.get("extra", {}).items():
        extra += [f"--{k}", str(v)]
    worker = stage["worker"]
    tag = f"{worker}.{variant.replace('+', '_')}"
    procs = {}
    summaries, crashes, slow = [], [], []

    def spawn(shard, start):
        lp = logdir / f"{tag}.shard{shard}.{start}.json"
        pp = logdir / f"{tag}.shard{shard}.progress"
        cmd = prefix + [worker, "--seed", str(seed), "--tier", tier, "--shard", f"{shard}/{nshard}",
                        "--cases", str(cases), "--start", str(start), "--log", str(lp), "--progress", str(pp),
                        "--time-budget", str(budget), "--hang-budget", str(hang_budget)] + extra
        ep = logdir / f"{tag}.shard{shard}.{start}.stderr"
        p = subprocess.Popen(cmd, cwd=HARNESS, env=runenv, stdout=subprocess.DEVNULL, stderr=open(ep, "w"))
        procs[p.pid] = (p, shard, start, lp, pp, ep)

    for s in range(nshard):
        spawn(s, 0)
    t_start = time.time()
    hard_deadline = time.time() + budget * 3 + 900
    watchdog_fired = False
    while procs:
        time.sleep(0.05)
        for k in list(procs):
            p, shard, start, lp, pp, ep = procs[k]
            rc = p.poll()
            if rc is None:
                if time.time() > hard_deadline:
                    p.kill()
                    watchdog_fired = True
                continue
            del procs[k]
            if rc in (0, 1, 2) and lp.exists():
                try:
                    summaries.append(json.loads(lp.read_text()))
                    continue
                except Exception as e:  # truncated
                    crashes.append({"shard": shard, "case": None, "rc": rc, "why": f"bad summary: {e}", "stderr": ""})
                    continue
            try:
                case = int(pp.read_text().split()[0])
            except Exception:
                case = None
            stderr = ep.read_text(errors="replace")[-20000:] if ep.exists() else ""
            inp = Path(str(pp) + ".input")
            rec = {"shard": shard, "case": case, "rc": rc, "stderr": stderr, "variant": variant, "worker": worker,
                   "input_hex": inp.read_bytes().hex() if inp.exists() and inp.stat().st_size < (1 << 20) else None}
            if rc == 3 and case is None and variant.startswith("miri"):
                # watchdog fired before the interpreter got through the first case of this process
                slow.append({"case": None, "seconds": None, "unconfirmed": True, "skipped": "miri too slow"})
                continue
            if rc == 3 and case is not None and variant.startswith("miri"):
                # the interpreter is ~10^4 times slower: a case over budget is skipped (hangs are C01's
                # business, decided on native builds), the shard goes on with its next case
                slow.append({"case": case, "seconds": None, "unconfirmed": True, "skipped": "miri too slow"})
                nxt = case + 1
                while nxt % nshard != shard:
                    nxt += 1
                if nxt < cases and time.time() - t_start < budget:
                    spawn(shard, nxt)
                continue
            if rc == 3 and case is not None and any(c.get("hang") for c in crashes):
                # one hang of this stage is already confirmed (that decides the verdict): do not spend
                # 10x budgets on every further slow case, and stop feeding this shard
                slow.append({"case": case, "seconds": None, "unconfirmed": True})
                continue
            if rc == 3 and case is not None:
                # per-case watchdog: re-run alone with a 10x budget before calling it a hang
                cmd = prefix + [worker, "--seed", str(seed), "--tier", tier, "--case", str(case), "--hang-budget", str(hang_budget * 10)] + extra
                t1 = time.time()
                try:
                    r2 = subprocess.run(cmd, cwd=HARNESS, env=runenv, stdout=subprocess.DEVNULL, stderr=subprocess.PIPE, timeout=hang_budget * 12)
                    rc2 = r2.returncode
                except subprocess.TimeoutExpired:
                    rc2 = 3
                if rc2 == 3:
                    rec["hang"] = True
                    crashes.append(rec)
                else:
                    slow.append({"case": case, "seconds": round(time.time() - t1, 1)})
            else:
                crashes.append(rec)
            if case is not None and len(crashes) < 60:
                nxt = case + 1
                while nxt % nshard != shard:
                    nxt += 1
                if nxt < cases:
                    spawn(shard, nxt)
    return {"summaries": summaries, "crashes": crashes, "watchdog": watchdog_fired, "nshard": nshard, "slow": slow, "variant": variant, "worker": worker}


def stages_of(cfg):
    if "stages" in cfg:
        return cfg["stages"]
    return [{"worker": cfg["worker"], "variant": cfg.get("variant", "chk"), "quick": cfg["quick"], "thorough": cfg["thorough"]}]


def main():
    if len(sys.argv) < 2:
        raise SystemExit(__doc__)
    pid = sys.argv[1].upper()
    tier = os.environ.get("VERIF_TIER", "quick")
    seed = int(os.environ.get("VERIF_SEED", "1"))
    replay = None
    i = 2
    while i < len(sys.argv):
        if sys.argv[i] == "--tier":
            tier = sys.argv[i + 1]
        elif sys.argv[i] == "--seed":
            seed = int(sys.argv[i + 1])
        elif sys.argv[i] == "--replay":
            replay = sys.argv[i + 1]
        i += 2
    cfg = PROPS[pid]
    t0 = time.time()

    if replay:
        r = json.loads(Path(replay).read_text())
        prefix, runenv = build(r.get("variant", "chk"))
        if prefix is None:
            sys.exit(2)
        st = [s for s in stages_of(cfg) if s["worker"] == r.get("worker", stages_of(cfg)[0]["worker"])][0]
        cmd = prefix + [r.get("worker", st["worker"]), "--seed", str(r["seed"]), "--tier", r["tier"], "--case", str(r["case"])]
        for k, v in st[r["tier"]].get("extra", {}).items():
            cmd += [f"--{k}", str(v)]
        p = subprocess.run(cmd, cwd=HARNESS, env=runenv)
        sys.exit(p.returncode)

    # VERIF_OUT redirects logs, replays and evidence (used when evaluating seeded changes, so that the
    # committed evidence of the unchanged tree is not overwritten)
    OUT = Path(os.environ.get("VERIF_OUT", str(VERIF)))
    logdir = OUT / "logs" / pid / tier
    if logdir.exists():
        for f in logdir.iterdir():
            f.unlink()
    logdir.mkdir(parents=True, exist_ok=True)
    (OUT / "replay" / pid).mkdir(parents=True, exist_ok=True)
    (OUT / "evidence").mkdir(parents=True, exist_ok=True)

    results = []
    only = os.environ.get("VERIF_STAGES")  # debugging aid: run only stages whose variant contains this text
    for stage in stages_of(cfg):
        if tier not in stage:
            continue
        if only and only not in stage.get("variant", "chk"):
            continue
        results.append(run_stage(pid, stage, tier, seed, logdir))

    # ---- merge
    harness_errors = []
    summaries = []
    violations = []
    stage_info = []
    watchdog = False
    for r in results:
        if "build_failed" in r:
            harness_errors.append(f"build failed for variant {r['build_failed']}")
            continue
        watchdog = watchdog or r["watchdog"]
        ev = sum(s["evaluations"] for s in r["summaries"])
        stage_info.append({"worker": r["worker"], "variant": r["variant"], "evaluations": ev, "shards": r["nshard"],
                           "worker_deaths": len(r["crashes"]), "slow_cases_rechecked": r["slow"][:20]})
        for s in r["summaries"]:
            s["_variant"] = r["variant"]
            s["_worker"] = r["worker"]
            summaries.append(s)
            for v in s["violations"]:
                violations.append(dict(v, variant=r["variant"], worker=r["worker"]))
            harness_errors += s["harness_errors"]
        for c in r["crashes"]:
            if c.get("case") is None:
                harness_errors.append(f"worker died without progress info rc={c['rc']} {c.get('why','')} {c.get('stderr','')[-300:]}")
                continue
            if c.get("hang"):
                sig = "hang"
                detail = f"case did not finish within 10x the per-case budget when re-run alone (worker {c['worker']}, variant {c['variant']})"
            else:
                sig = sanitizer_sig(c.get("stderr", ""), c["variant"], c["rc"])
                tail = c.get("stderr", "")
                # keep the informative part of a sanitizer report
                m = re.search(r"(==\d+==ERROR.*|WARNING: ThreadSanitizer.*|error: Undefined Behavior.*)", tail, re.S)
                detail = "worker process died in this case: " + (m.group(1)[:1500] if m else tail[-800:])
            violations.append({"case": c["case"], "sig": sig, "detail": detail, "input_hex": c.get("input_hex"), "variant": c["variant"], "worker": c["worker"]})

    evaluations = sum(s["evaluations"] for s in summaries)
    sigs = set()
    for s in summaries:
        sigs.update((s["_worker"], x) for x in s["sigs"])
    sig_names, samples = [], []
    for s in summaries:
        for n in s["sig_names"]:
            if n not in sig_names and len(sig_names) < 40:
                sig_names.append(n)
        for x in s["samples"]:
            if len(samples) < 8:
                samples.append(x)
    obs, obs_sets, inconclusive = {}, {}, {}
    for s in summaries:
        for k, v in s["obs"].items():
            obs[k] = obs.get(k, 0) + v
        for k, v in s.get("obs_sets", {}).items():
            obs_sets.setdefault(k, set()).update(v)
        for k, v in s["inconclusive"].items():
            inconclusive[k] = inconclusive.get(k, 0) + v

    known = [k for k in load_known() if k["property"] == pid and k.get("status") == "known"]
    known_sigs = {k["signature"]: k for k in known}
    new_violations, known_hits = [], {}
    for v in violations:
        if v["sig"] in known_sigs:
            known_hits.setdefault(v["sig"], []).append(v)
        else:
            new_violations.append(v)

    replay_paths = []
    for v in new_violations[:50]:
        rp = OUT / "replay" / pid / f"{tier}-seed{seed}-{v.get('worker','w')}-{v.get('variant','chk').replace('+','_')}-case{v['case']}.json"
        rp.write_text(json.dumps({"property": pid, "seed": seed, "tier": tier, "case": v["case"], "sig": v["sig"], "worker": v.get("worker"),
                                  "detail": v["detail"], "input_hex": v.get("input_hex"), "variant": v.get("variant", "chk"),
                                  "cmd": f"./check {pid} --replay {rp}"}, indent=1))
        replay_paths.append((v, rp))

    floor = sum(st[tier].get("floor", 1) for st in stages_of(cfg) if tier in st)
    wall = time.time() - t0
    evidence = {
        "property_id": pid,
        "tier": tier,
        "seed": seed,
        "level": cfg["level"],
        "coverage": {
            "evaluations": evaluations,
            "distinct_nontrivial": len(sigs),
            "rule": cfg["rule"],
            "samples": samples if samples else [{"note": "no samples recorded"}],
            "signature_examples": sig_names,
            "observed": obs,
            "observed_sets": {k: sorted(v)[:200] for k, v in obs_sets.items()},
            "observed_set_sizes": {k: len(v) for k, v in obs_sets.items()},
            "inconclusive": inconclusive,
            "stages": stage_info,
            "known_findings_hit": {k: len(v) for k, v in known_hits.items()},
            "exhaustive": False,
        },
        "assumptions": cfg.get("assumptions", []),
        "wall_s": round(wall, 2),
        "violations": len(new_violations),
    }
    (OUT / "evidence" / f"{pid}.json").write_text(json.dumps(evidence, indent=1))

    for sig, vs in known_hits.items():
        print(f"KNOWN-FINDING: property={pid} {known_sigs[sig]['what']} (signature {sig}, {len(vs)} hits)")
    if harness_errors:
        for e in harness_errors[:20]:
            print(f"HARNESS-ERROR property={pid} {e}")
        print(f"INCONCLUSIVE property={pid} harness errors: {len(harness_errors)}")
        sys.exit(2)
    if new_violations:
        seen = set()
        for v, rp in replay_paths:
            if v["sig"] in seen:
                continue
            seen.add(v["sig"])
            print(f"VIOLATION property={pid} replay={rp} sig={v['sig']} :: {v['detail'][:300]}")
        sys.exit(1)
    if watchdog:
        print(f"INCONCLUSIVE property={pid} wall-clock watchdog fired")
        sys.exit(2)
    if evaluations < floor or len(sigs) < 2:
        print(f"INCONCLUSIVE property={pid} too little observed: evaluations={evaluations} (floor {floor}) distinct={len(sigs)}")
        sys.exit(2)
    print(f"OK property={pid} tier={tier} seed={seed} evaluations={evaluations} distinct_nontrivial={len(sigs)} wall={wall:.1f}s stages={json.dumps(stage_info)} observed={json.dumps(obs)[:1500]}")
    sys.exit(0)


if __name__ == "__main__":
    main()
