#!/usr/bin/env python3
"""Validate MANIFEST.json and evidence files against the schemas (run with python3-vt)."""
import json, sys, glob
import jsonschema
ok = True
m = json.load(open('/verif/MANIFEST.json'))
try:
    jsonschema.validate(m, json.load(open('/root/.vp/MANIFEST.schema.json')))
    print("MANIFEST ok:", len(m['checks']), "checks,", len(m.get('not_applicable', [])), "not_applicable")
except Exception as e:
    ok = False; print("MANIFEST INVALID", e)
props = [json.loads(l)['id'] for l in open('/verif/properties.jsonl')]
claimed = {c['property_id'] for c in m['checks']}
na = {c['property_id'] for c in m.get('not_applicable', [])}
for p in props:
    if (p in claimed) == (p in na):
        ok = False; print("property", p, "must be exactly one of claimed / not_applicable")
es = json.load(open('/root/.vp/EVIDENCE.schema.json'))
for f in sorted(glob.glob('/verif/evidence/*.json')):
    try:
        jsonschema.validate(json.load(open(f)), es); print("evidence ok:", f)
    except Exception as e:
        ok = False; print("evidence INVALID", f, str(e)[:300])
sys.exit(0 if ok else 1)
