"""Per-property configuration of the runner."""

PROPS = {
    "C04": {
        "worker": "c04",
        "variant": "chk",
        "level": "exploration",
        "rule": ("case = random entropy code (prefix/ANS, every histogram header form, clustering simple/coded/MTF, "
                 "hybrid-uint configs, optional LZ77 with distance multiplier, RLE view) + value sequence, or a Lehmer-coded "
                 "permutation; written by jxlgen's encoder, decoded by jxl_coding. signature = (coder, log alphabet, set of "
                 "header forms, cluster-count class + map coding, uint-config classes, lz77 class, copies/lits/rle, final-state "
                 "ok/corrupted); non-trivial iff >= 8 values (permutations: size >= 3)"),
        "assumptions": [
            "jxlgen's entropy encoder is the reference: written from the format definition, shares no code with the decoder",
            "sequence lengths <= 50k symbols, alphabets <= 2^15 (prefix) / 256 (ANS), <= 300 contexts",
        ],
        "level_text": ("exploration: hundreds of thousands of independently encoded streams per run are decoded by the real "
                       "entropy decoder and compared symbol-for-symbol and bit-for-bit; the space (all codes x all sequences) is "
                       "infinite so a sampled, signature-stratified exploration is the strongest this family offers"),
        "level_note": "trusted: jxlgen entropy encoder (validated against the pinned decoder over millions of streams), the worker's comparison code",
        "technique": "runtime differential monitor: reference encoder -> real decoder, exact value/bit-count/final-state oracle",
        "quick": {"cases": 400000, "floor": 100000, "time_budget": 300},
        "thorough": {"cases": 20000000, "floor": 3000000, "time_budget": 3000},
    },
}

PROPS["C14"] = {
    "worker": "c14",
    "variant": "chk",
    "level": "exploration",
    "rule": ("case = random valid ImageHeader (every conditional field; U32/U64 selectors randomised incl. non-minimal forms; F16 over "
             "finite patterns) + FrameHeader (all frame types/encodings/flags/passes/crops/blend infos/filters) + TOC (1..20000 "
             "entries, optional Lehmer-coded permutation, all four size forms), written by jxlgen, parsed by ImageHeader::parse and "
             "Frame::parse; every public field, derived value and the bit position after each bundle is compared. signature = "
             "(8 image-header branch bits, 8 frame-header branch bits, TOC size class, permuted); every case non-trivial. "
             "observed ibNN_v / fbNN_v count how often each of 34+34 branch conditions was seen false/true"),
    "assumptions": [
        "jxlgen header writer follows the format's field tables; independent of the decoder's bundle macros",
        "extra-channel blending `source` presence is only generated where the two possible readings of the condition agree (DESIGN.md section 6)",
        "TOC entries <= 20000; ICC stream not placed between image header and frame here (C18 covers ICC)",
    ],
    "level_text": ("exploration: hundreds of thousands of random valid header bundles per run, each field and the exact bit count "
                   "compared; the header space is a product of ~70 conditionals and wide integer ranges, so sampling stratified by "
                   "branch bits is what a runtime monitor can do"),
    "level_note": "trusted: jxlgen header writer + comparison code in vcheck/src/c14.rs",
    "technique": "runtime differential monitor: independent header writer -> real parser, field-by-field and bit-position oracle",
    "quick": {"cases": 300000, "floor": 100000, "time_budget": 300},
    "thorough": {"cases": 12000000, "floor": 2000000, "time_budget": 3000},
}

PROPS["C03"] = {
    "worker": "c03",
    "variant": "chk",
    "level": "exploration",
    "rule": ("case = single-frame lossless Modular image written by jxlgen in generative mode (tokens chosen so decoded pixels "
             "approximate a target; the model's decoded pixels are the truth): sizes 1x1 .. multi-group (group_size_shift 0..3, "
             "1..11 passes), grey/RGB + 0..4 extra channels with own depth and dim_shift, depth 1..31 and float, random global "
             "transforms (all 42 RCT types, palettes incl. delta / implicit entries and palettes of meta channels, default and "
             "explicit squeeze), per-group local trees and local transforms, 12 tree styles (single leaf Zero/Gradient/any, "
             "property-9 gradient table, single-property tables, fused decisions, WP properties, previous-channel properties, "
             "multipliers/offsets), random WP parameters, prefix/ANS with LZ77, permuted TOC. Decoded (a) at frame level with "
             "jxl-frame/jxl-modular public API for i32 and (if declared sufficient) i16 samples - every channel at native "
             "resolution, exact; (b) through JxlImage::render_frame with pool none/rayon and narrow/forced-wide buffers for "
             "channels that are not subsampled. signature = (size class, channel count, depth class, transform classes, global "
             "tree style, local trees y/n, passes, narrow flag); non-trivial iff >= 16 samples and some residual non-zero"),
    "assumptions": [
        "jxlgen modular model (properties, predictors, WP, inverse RCT/palette/squeeze) is written from the format definition",
        "images declaring modular_16bit_buffers keep every value of every stage within +-(2^12-1) (the domain C12 names); "
        "wider-but-still-16-bit values make the decoder's narrow squeeze kernel wrap (noted in DESIGN.md, not judged)",
        "implicit palette entries only for palettes of <= 3 channels (format text and libjxl differ for c >= 3)",
        "samples > 24 bits and float samples are generated without transforms (no headroom for RCT/squeeze arithmetic)",
        "image sides <= 300 px in quick, <= 1100 px in thorough",
    ],
    "level_text": ("exploration: tens of thousands (quick) to millions (thorough) of independently encoded images, every sample "
                   "of every channel compared exactly with the encoder-side truth on two decode paths and both buffer widths"),
    "level_note": "trusted: jxlgen (entropy encoder, header writer, Modular model+encoder), comparison code in vcheck/src/c03.rs",
    "technique": "runtime differential monitor: independent Modular encoder/model -> real decoder, exact per-sample oracle",
    "quick": {"cases": 30000, "floor": 8000, "time_budget": 300},
    "thorough": {"cases": 2500000, "floor": 300000, "time_budget": 3000},
}

ALL = ["C%02d" % i for i in range(1, 21)]
HOOK_COMMITS = []
NOT_APPLICABLE = {p: "check not built yet in this session (work in progress; see DESIGN.md section 9 for order)" for p in ALL if p not in PROPS}
