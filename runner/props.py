"""Per-property configuration of the runner."""

PROPS = {
    "C04": {
        "worker": "c04",
        "variant": "chk",
        "level": "exploration",
        "rule": ("case = random entropy code (prefix/ANS, every histogram header form, clustering simple/coded/MTF, "
                 "hybrid-uint configs, optional LZ77 with distance multiplier, RLE view) + value sequence, or a Lehmer-coded "
                 "permutation; written by jxlgen's encoder, decoded by jxl_coding. signature = (coder, log alphabet, set of "
                 "header forms, cluster-count class + map coding, uint-config classes, lz77 class, copies/lits/rle, final-state "
                 "ok/corrupted); non-trivial iff >= 8 values (permutations: size >= 3)"),
        "assumptions": [
            "jxlgen's entropy encoder is the reference: written from the format definition, shares no code with the decoder",
            "sequence lengths <= 50k symbols, alphabets <= 2^15 (prefix) / 256 (ANS), <= 300 contexts",
        ],
        "level_text": ("exploration: hundreds of thousands of independently encoded streams per run are decoded by the real "
                       "entropy decoder and compared symbol-for-symbol and bit-for-bit; the space (all codes x all sequences) is "
                       "infinite so a sampled, signature-stratified exploration is the strongest this family offers"),
        "level_note": "trusted: jxlgen entropy encoder (validated against the pinned decoder over millions of streams), the worker's comparison code",
        "technique": "runtime differential monitor: reference encoder -> real decoder, exact value/bit-count/final-state oracle",
        "quick": {"cases": 1000000, "floor": 25000, "time_budget": 300},
        "thorough": {"cases": 20000000, "floor": 500000, "time_budget": 900},
    },
}

PROPS["C14"] = {
    "worker": "c14",
    "variant": "chk",
    "level": "exploration",
    "rule": ("case = random valid ImageHeader (every conditional field; U32/U64 selectors randomised incl. non-minimal forms; F16 over "
             "finite patterns) + FrameHeader (all frame types/encodings/flags/passes/crops/blend infos/filters) + TOC (1..20000 "
             "entries, optional Lehmer-coded permutation, all four size forms), written by jxlgen, parsed by ImageHeader::parse and "
             "Frame::parse; every public field, derived value and the bit position after each bundle is compared. signature = "
             "(8 image-header branch bits, 8 frame-header branch bits, TOC size class, permuted); every case non-trivial. "
             "observed ibNN_v / fbNN_v count how often each of 34+34 branch conditions was seen false/true"),
    "assumptions": [
        "jxlgen header writer follows the format's field tables; independent of the decoder's bundle macros",
        "extra-channel blending `source` presence is only generated where the two possible readings of the condition agree (DESIGN.md section 6)",
        "TOC entries <= 20000; ICC stream not placed between image header and frame here (C18 covers ICC)",
    ],
    "level_text": ("exploration: hundreds of thousands of random valid header bundles per run, each field and the exact bit count "
                   "compared; the header space is a product of ~70 conditionals and wide integer ranges, so sampling stratified by "
                   "branch bits is what a runtime monitor can do"),
    "level_note": "trusted: jxlgen header writer + comparison code in vcheck/src/c14.rs",
    "technique": "runtime differential monitor: independent header writer -> real parser, field-by-field and bit-position oracle",
    "quick": {"cases": 1000000, "floor": 25000, "time_budget": 300},
    "thorough": {"cases": 12000000, "floor": 300000, "time_budget": 900},
}

PROPS["C03"] = {
    "worker": "c03",
    "variant": "chk",
    "level": "exploration",
    "rule": ("case = single-frame lossless Modular image written by jxlgen in generative mode (tokens chosen so decoded pixels "
             "approximate a target; the model's decoded pixels are the truth): sizes 1x1 .. multi-group (group_size_shift 0..3, "
             "1..11 passes), grey/RGB + 0..4 extra channels with own depth and dim_shift, depth 1..31 and float, random global "
             "transforms (all 42 RCT types, palettes incl. delta / implicit entries and palettes of meta channels, default and "
             "explicit squeeze), per-group local trees and local transforms, 12 tree styles (single leaf Zero/Gradient/any, "
             "property-9 gradient table, single-property tables, fused decisions, WP properties, previous-channel properties, "
             "multipliers/offsets), random WP parameters, prefix/ANS with LZ77, permuted TOC. Decoded (a) at frame level with "
             "jxl-frame/jxl-modular public API for i32 and (if declared sufficient) i16 samples - every channel at native "
             "resolution, exact; (b) through JxlImage::render_frame with pool none/rayon and narrow/forced-wide buffers for "
             "channels that are not subsampled. signature = (size class, channel count, depth class, transform classes, global "
             "tree style, local trees y/n, passes, narrow flag); non-trivial iff >= 16 samples and some residual non-zero"),
    "assumptions": [
        "jxlgen modular model (properties, predictors, WP, inverse RCT/palette/squeeze) is written from the format definition",
        "images declaring modular_16bit_buffers keep every value of every stage within +-(2^12-1) (the domain C12 names); "
        "wider-but-still-16-bit values make the decoder's narrow squeeze kernel wrap (noted in DESIGN.md, not judged)",
        "implicit palette entries only for palettes of <= 3 channels (format text and libjxl differ for c >= 3)",
        "samples > 24 bits and float samples are generated without transforms (no headroom for RCT/squeeze arithmetic)",
        "image sides <= 300 px in quick, <= 1100 px in thorough",
    ],
    "level_text": ("exploration: tens of thousands (quick) to millions (thorough) of independently encoded images, every sample "
                   "of every channel compared exactly with the encoder-side truth on two decode paths and both buffer widths"),
    "level_note": "trusted: jxlgen (entropy encoder, header writer, Modular model+encoder), comparison code in vcheck/src/c03.rs",
    "technique": "runtime differential monitor: independent Modular encoder/model -> real decoder, exact per-sample oracle",
    "quick": {"cases": 30000, "floor": 750, "time_budget": 300},
    "thorough": {"cases": 2500000, "floor": 30000, "time_budget": 900},
}

PROPS["C09"] = {
    "worker": "c09", "variant": "chk", "level": "exploration",
    "rule": ("case -> stream (generated single-frame Modular image: tiny..multi-group, multi-pass, permuted TOC, extra channels, orientation; "
             "1/6 generated multi-frame stream: layers/animation, reference-only and skip-progressive frames, crops, blend modes; rarely the real "
             "4-frame cmyk_layers.jxl re-wrapped) in a random layout (bare, jxlc, jxlp in 1..12 parts incl. empty parts, aux boxes before/between/"
             "after, brob, 64-bit and to-EOF box sizes). Reference = whole file in one feed_bytes + try_init + finalize. 11 chunking classes "
             "(1byte, rand16, rand4096, marks = every writer-recorded boundary +-1, marks1b, late, lazyinit, halves, window, creep = unconsumed "
             "bytes re-offered with one more byte, JxlImage::read); quick runs 5 per case, thorough all. Compared field by field with the "
             "reference: image header, dimensions, pixel format, ICC, frame/keyframe counts, frame_offset(0..=n), every frame header, done flag, "
             "Exif/xml, JPEG status, per keyframe name/duration/orientation and every plane as raw bits. Decoder-independent truth: "
             "frame_offset(i) and TOC offsets/sizes equal what the writer recorded, counts match, is_loading_done. Also violations: any "
             "feed/init/finalize error, consumed > offered, leftover bytes of a complete file, panics. signature = layout class | structure class "
             "| chunk subset; non-trivial iff at least one frame was rendered"),
    "assumptions": [
        "no generated preview frames, generated ICC, VarDCT or LF frames in this workload (ICC + multi-section multi-frame only through cmyk_layers.jxl)",
        "junk jbrd boxes excluded: jpeg_reconstruction_status compared only among Unavailable/Invalid/NeedMoreData (real jbrd streams are in C17's partial-arrival mode)",
        "single thread (JxlThreadPool::none()); thread variation is C07/C20",
        "offers inside the 376 KB ICC of the real file are thinned to <= 40 (each try_init re-decodes the ICC from byte 0: quadratic time, a resource observation)",
    ],
    "level_text": ("exploration: tens of thousands of streams x 5-11 chunkings per run, millions of feed calls incl. hundreds of thousands of "
                   "partial consumptions, every sample compared bit-exactly; 9 injected feed/offset bugs all detected during construction"),
    "level_note": "trusted: jxlgen writers and their recorded boundaries, snapshot/diff code in feedutil.rs",
    "technique": "runtime differential monitor over recorded API histories: chunked feed schedules vs one-shot decode, plus writer-recorded offsets as ground truth",
    "quick": {"cases": 24000, "floor": 600, "time_budget": 300},
    "thorough": {"cases": 220000, "floor": 5500, "time_budget": 900},
}

PROPS["C11"] = {
    "worker": "c11", "variant": "chk", "level": "exploration",
    "rule": ("case -> stream as in C09; cut positions = every byte 0..=n for streams <= 1536 B (quick) / 4096 B (thorough), else writer-recorded "
             "boundaries +-2 plus 80/200 random positions (capped at 16 MB / n). (a) fresh decoder per cut: feed prefix (one call or random "
             "chunks), try_init, prefix oracles, render_loading_frame (1/6 twice), feed the rest, finalize, full snapshot diff against the "
             "uninterrupted decode; (b) 3/6 long-lived decoders per stream with up to 40 ordered stops and loading renders, then completed and "
             "diffed. Prefix oracles from the writer: is_loading_done iff every codestream byte is inside the prefix; num_loaded_frames/"
             "keyframes = frames wholly inside the prefix; reported frame_offset(i) = final value; image_header = final. render_loading_frame: "
             "Ok must have the complete render's width/height/channel count; Err must be need-more-data class (IncompleteFrame by downcast or "
             "io::ErrorKind::UnexpectedEof found by walking source()). signature = stream class + region->outcome map; non-trivial iff a "
             "loading render was attempted"),
    "assumptions": [
        "content of an Ok loading render is not judged (no oracle for partial images): only its shape, and that the final decode is unaffected",
        "same workload limits as C09 (no generated VarDCT/preview/LF frames); single thread",
    ],
    "level_text": ("exploration: hundreds of thousands of cut points per quick run (every byte of short streams), each with a fresh decoder, plus "
                   "thousands of long-lived decoders; final output bit-exact against the uninterrupted decode"),
    "level_note": "trusted: jxlgen writers and their recorded boundaries, snapshot/diff code in feedutil.rs",
    "technique": "runtime monitor over truncation histories: prefix-state oracles from writer-recorded boundaries + differential check of the completed decode",
    "quick": {"cases": 3000, "floor": 75, "time_budget": 300},
    "thorough": {"cases": 26000, "floor": 650, "time_budget": 900},
}

PROPS["C10"] = {
    "worker": "c10", "variant": "chk", "level": "exploration",
    "rule": ("case = container file from jxlgen's writer: well-formed random layout (jxlc or 1..12 jxlp incl. empty parts, aux boxes "
             "Exif/xml/jumb/jxll/jxli/jhgm/jbrd/unknown interleaved anywhere, brob with stored Brotli, 32-bit/64-bit/to-EOF sizes, payloads "
             "0..70k, rarely >1 MiB), or one of 14 ill-formed kinds, or a mutated/truncated file, or (10%) a file around a codestream that "
             "really initialises, decoded through JxlImage (feed API and read()); each file fed whole + 4 (thorough 6) chunkings out of 8 "
             "strategies. signature = (class/ill kind/mutation set + reference verdict, codestream form+part-count bucket+empty parts, "
             "size-form sets, aux/brob count buckets and position, last-box kind); non-trivial iff container with >= 3 boxes (ill-formed: always)"),
    "assumptions": [
        "jxlgen::container (writer, layout truth, whole-file reference reader, stored-Brotli writer) is written from the box syntax of 18181-2 / RFC 7932 and shares no code with the decoder; the two models are cross-checked on every generated file",
        "a parser that is never told about EOF need not emit AuxBoxEnd of a sized box ending exactly at EOF nor NoMoreAuxBox of an empty to-EOF codestream box",
        "missing ftyp / boxes before ftyp are tolerated (not in C10's reject list); wrong signature => kind Invalid",
        "jxl-oxide level: only first Exif / first xml are observable through the public API; jbrd content is C17's business",
    ],
    "level_text": ("exploration: millions of generated container files, each parsed under several chunkings; the event stream, consumed-byte "
                   "count and aux box contents are compared exactly with an independent reference reader"),
    "level_note": "trusted: jxlgen::container writer + reference reader (cross-checked against each other per file), comparison code in c10.rs",
    "technique": "runtime differential monitor: independent container writer + reference reader vs ContainerParser event stream under many chunkings, and vs JxlImage aux box API",
    "quick": {"cases": 2000000, "floor": 50000, "time_budget": 300},
    "thorough": {"cases": 100000000, "floor": 2500000, "time_budget": 900},
}

PROPS["C16"] = {
    "worker": "c16", "variant": "chk", "level": "exploration",
    "rule": ("case idx -> type = idx % 27; per 8 cases of a type: 5 impulses (16 special positions, then a full-period scattered walk over "
             "all W*H positions; random amplitude 2^-8..2^16), 1 dense block (gaussian, frequency-decaying, log-uniform mixed), 1 structured "
             "block (zero, DC-only, sparse, one row/column, low-pass corner, all-equal, 1e12-scale), 1 transform_varblocks case (random "
             "varblock tiling, LF insertion, 3 channels, chroma shifts) or a forward LF dct_2d case. Buffers sit at aligned or +4/+8/+12 byte "
             "addresses with strides that are / are not multiples of 4. Each block runs through generic transform, x86_64 runtime-dispatched "
             "transform and x86_64 SSE2 transform via hook H3. Oracle: jxlgen::dctref (definitions in f64): |out-ref| <= K*2^-24*max(||C||_2, "
             "||ref||_inf), K = 8M + 256*max(0, log2 M - 5), M = max(W,H); generic vs x86 within the same bound; sentinel padding outside the "
             "block untouched. signature = (type, input class incl. impulse frequency quadrant, alignment x stride class, expected x86 path); "
             "non-trivial unless all-zero"),
    "assumptions": [
        "AFV basis table transcribed as data from the pinned decoder source (no format text in the sandbox); checked orthonormal to 1.5e-14 at start-up",
        "coefficient grid is the natural layout the block transform receives; the transposed storage is applied by the coefficient reader, outside this property",
        "for n >= 64 the tolerance includes 256 eps per level for the decoder's f32-cos 1/(2cos) tables (precision weakness noted in DESIGN.md)",
        "CPU here has sse4.1/avx2/fma: SSE4.1 dispatch and forced SSE2 variant run; aarch64/wasm not run; inputs finite and denormal-free",
    ],
    "level_text": ("exploration: every impulse position of every type (<=64x64 in quick, all 256x256 positions in thorough) plus hundreds of "
                   "thousands of dense/structured blocks and varblock tilings, on every x86 path and alignment class"),
    "level_note": "trusted: jxlgen::dctref (O(N^2)/separable f64 evaluation), comparison code in c16.rs, hook H3 wrappers (pass-through)",
    "technique": "runtime differential monitor: f64 definition model vs real generic/SSE code through hook H3",
    "quick": {"cases": 300000, "floor": 7500, "time_budget": 300},
    "thorough": {"cases": 8000000, "floor": 200000, "time_budget": 900},
}

PROPS["C17"] = {
    "worker": "c17", "variant": "chk", "level": "exploration",
    "rule": ("case -> mode (55% valid, 25% partial arrival, 20% hostile jbrd). valid: jxlgen::jpeg writes a random baseline/extended/"
             "progressive JPEG (1..4 components, sampling 1x1..4x4 mixes, random scan scripts incl. partial component scans, successive "
             "approximation, restart intervals, 8/16-bit quant tables, multiple DHT/DQT layouts, APPn/COM/ICC/Exif/XMP, padding-bit patterns, "
             "tail data, inter-marker bytes, extra zero runs, reset points, EOB runs); jxlgen::vardct transcodes it to a VarDCT frame + jbrd box "
             "(stored-Brotli), ICC in the codestream, Exif/xml boxes, random container layout; oracle: reconstruct_jpeg output == original bytes, "
             "render_frame Ok. partial arrival: build_uninit/feed_bytes/try_init with random chunking; status sampled after every chunk: never "
             "Unavailable/Invalid for a prefix of a valid file, Available only when jbrd + needed Exif/XMP boxes are complete, reconstruct at an "
             "Available moment = clean error or the original; files without jbrd: Unavailable after finalize, reconstruct is Err. hostile: valid "
             "jbrd syntax with hostile values (28 kinds) -> error or garbage, never a panic. signature = (mode, components, sampling, SOF type, "
             "scan script shape, restart use, table mode, metadata kinds, padding, tail, extras); non-trivial iff a JPEG was transcoded"),
    "assumptions": [
        "jxlgen::jpeg writer follows ITU T.81; while it was built its output was cross-checked against the libjpeg-turbo 62 coefficient reader installed in the image (development-time only, not part of the check)",
        "jbrd field layout and VarDCT JPEG-transcode subset written from the format definition as recalled; three conventions (scan geometry of partial interleaved scans, padding-bit order, quant_idx meaning) differ from the decoder and are listed as known findings with the reason for judging the decoder wrong",
        "Brotli only as stored (uncompressed) meta-blocks; JPEGs <= 600 px; no arithmetic-coded or lossless JPEG (not representable in jbrd)",
    ],
    "level_text": ("exploration: tens of thousands of independently written JPEGs per quick run reconstructed byte-exactly, partial arrival "
                   "status sampled at every chunk boundary, 28 hostile jbrd kinds"),
    "level_note": "trusted: jxlgen::jpeg / jbrd / vardct / container writers, byte comparison in c17.rs",
    "technique": "runtime round-trip monitor: independent JPEG writer + jbrd/VarDCT transcoder vs real reconstruct_jpeg (byte-exact), status-trace monitor under partial feeding",
    "quick": {"cases": 24000, "floor": 600, "time_budget": 300},
    "thorough": {"cases": 400000, "floor": 10000, "time_budget": 900},
}

PROPS["C18"] = {
    "worker": "c18", "variant": "chk", "level": "exploration",
    "rule": ("case = ICC profile (8 real profiles of the repo, mutated real, colour_encoding_to_icc output, structured random header+0..60 "
             "tags with shared/overlapping offsets, malformed tag tables, byte strings of lengths 0,1,..,127,128,129,131,132.. up to 310 KiB) "
             "encoded by jxlgen::icc with random command segmentation (every command, width, order, stride, shuffles, tag shortcuts) and a random "
             "41-context entropy code (prefix/ANS, LZ77, clustering); decoded by read_icc+decode_icc and 1/5 through a codestream via "
             "JxlImage::original_icc() incl. prefix feeding; or an inconsistent encoding (15 kinds + symbol>=256 + bad ANS final state) that must "
             "be Err. signature = (valid/hostile kind, profile family, tag-list class, set of main command kinds, predicted-run widths, entropy "
             "class); non-trivial iff profile non-empty"),
    "assumptions": [
        "jxlgen::icc written from the format definition; interleaving of width-4 runs with length 1 or 2 mod 4 follows the format text (libjxl's loop order may differ there: counted, not judged)",
        "tag commands only for entries with tagstart+tagsize<=size and num_tags<=(size-128)/12 in the judged share (the decoder enforces these extra limits; counted separately)",
        "enc_size <= output_size+65536 (reader plausibility rule), profiles <= 310 KiB",
    ],
    "level_text": ("exploration: about a million independently encoded ICC streams per quick run, byte-exact output and exact bit count; "
                   "every inconsistent kind must be rejected"),
    "level_note": "trusted: jxlgen::icc encoder (inverse of each command, validated against the pinned decoder), jxlgen entropy encoder",
    "technique": "runtime differential monitor: reference ICC encoder -> real decoder, exact byte/bit oracle; inconsistent encodings must be Err",
    "quick": {"cases": 800000, "floor": 20000, "time_budget": 300},
    "thorough": {"cases": 25000000, "floor": 625000, "time_budget": 900},
}

_C19_EXTRA = {"allow": "all", "report-known": "1"}
PROPS["C19"] = {
    "worker": "c19", "variant": "chk", "level": "exploration",
    "rule": ("case = one of (a) enum colour encoding (RGB/Grey x {D65,E,DCI,custom: eq-named/near/typical/wide/extreme} x {sRGB,2100,P3,custom} "
             "x {709,lin,sRGB,PQ,DCI,HLG,Gamma over the 24-bit field} x 4 intents), optionally via the codestream field coding, "
             "colour_encoding_to_icc -> with_icc compared per the property (xy tol = max(1e-4, 3 x s15Fixed16 bound)); "
             "(b) ColorTransform tf<->Linear on sorted ramps, rows 1..67(+..700), each step vs the f64 definition, finite, monotone, round trip "
             "in linear light; (c) identity transform (enum / own-profile / ICC-only) is_noop + bit-identical. signature = (sub-check, colour "
             "space, wp kind, primaries kind, tf kind, intent | dir, ramp, length class, intensity class | form); non-trivial unless tf=Linear in (b)"),
    "assumptions": [
        "f64 reference colorimetry and transfer-function definitions in c19.rs are written from the standards, not from jxl-color",
        "(b) tolerances are ~3x the measured accuracy of the decoder's fast approximations; decode direction only isolated for intensity_target <= 255",
        "gamma field values 0 and > 10^7 are not valid encodings (the reference decoder rejects such headers): excluded from judgement",
        "encodings whose numbers leave s15Fixed16 or whose xy tolerance would exceed 5e-3 are inconclusive",
        "six known defect classes are reported under signatures dev:<class> and listed in known_findings.json",
    ],
    "level_text": ("exploration: tens of millions of encodings / transfer-function ramps per quick run against an independent f64 model"),
    "level_note": "trusted: f64 model and comparison code in c19.rs",
    "technique": "runtime monitor: real synthesiser/parser/transforms vs independent f64 model and definitions",
    "quick": {"cases": 30000000, "floor": 750000, "time_budget": 300, "extra": _C19_EXTRA},
    "thorough": {"cases": 900000000, "floor": 22500000, "time_budget": 900, "extra": _C19_EXTRA},
}

PROPS["C12"] = {
    "worker": "c12", "variant": "chk", "level": "exploration",
    "rule": ("case = lossless Modular image that truthfully declares modular_16bit_buffers (depth <= 12; the generator simulates every "
             "stage in i64 and rejects images with any value outside +-(2^12-1)), written by jxlgen; 1/3 of the cases sweep (w, h) over "
             "1..70, 120..136, 250..262 with forced horizontal / vertical / default squeeze (+RCT) so every head/body/tail branch of the "
             "narrow SIMD kernels and the 16-row/column banding is taken; the rest are random images (all transforms, palettes, local "
             "trees, extra channels). Rendered with default (i16, AVX2/SSE4.1 kernels) and force_wide_buffers (i32, scalar) under pool "
             "none / rayon; every plane must be value-identical and equal the encoder truth. signature = (sweep kind, transform classes, "
             "w mod 16 class, h mod 16 class, pool); observed set wh_mod16_cells lists the (w mod 16, h mod 16) cells covered"),
    "assumptions": [
        "'truthfully declares' = every value of every transform stage within +-(2^12-1), i.e. what <=12-bit samples can produce; "
        "streams with larger (but still 16-bit) intermediate values make the narrow squeeze tendency wrap (4a-3c-b in i16) and are outside the property's stated domain",
        "this CPU selects the AVX2 kernels; the SSE4.1 kernels are only reached under Miri (+sse4.1) in C02's thorough tier",
        "VarDCT frames with Modular extra channels are not generated yet",
    ],
    "level_text": ("exploration: thousands (quick) to hundreds of thousands (thorough) of truthfully-narrow images, narrow vs wide render "
                   "compared value for value, plus comparison with the independent encoder truth"),
    "level_note": "trusted: jxlgen Modular encoder/model (range tracking), comparison code in c12.rs",
    "technique": "runtime differential monitor: same stream through narrow(SIMD) and wide(scalar) decode paths + reference truth",
    "quick": {"cases": 20000, "floor": 500, "time_budget": 240},
    "thorough": {"cases": 400000, "floor": 10000, "time_budget": 900},
}

PROPS["C05"] = {
    "worker": "c05", "variant": "chk", "level": "exploration",
    "rule": ("case = multi-frame lossless Modular stream (non-XYB, enum sRGB/grey so no colour transform interferes) with 1..8 frames of "
             "types Regular / ReferenceOnly / SkipProgressive, durations 0 and >0 (with and without animation header), save_as_reference "
             "0..3, per-channel source 0..3 (incl. never-written slots), crops inside / partly outside / wholly outside / larger than the "
             "canvas with signed offsets, per-channel blend info (Replace, Add, Mul, Blend, MulAdd; clamp; alpha channel choice among several; "
             "premultiplied or straight alpha), 5..16-bit samples incl. values outside [0,1]; keyframes requested in random order with "
             "repeats, pool none / rayon. Oracle: reference compositor in f64 over the encoder's per-frame samples; every sample of every "
             "channel of every keyframe within 1e-5*max(1,|x|) plus a propagated f32 error bound for ill-conditioned straight-alpha "
             "divisions; repeated renders bit-identical. 1/5 of the cases are patch images: a ReferenceOnly frame of its own size + a full "
             "frame with a random patch dictionary (1..4 source rectangles, 1..5 targets each, delta-coded positions, overlapping targets, "
             "per colour / per extra channel patch modes none, replace, add, multiply with and without clamp), expected = the frame's samples "
             "with every target applied in dictionary order in f64, tolerance = propagated f32 rounding bound (sums of out-of-range samples "
             "cancel). signature = (frame-type sequence, blend-mode multiset, crop classes, alpha config) or (patches, colour kind, extra "
             "channels, reference size class, patch mode set); non-trivial iff >= 2 frames and some non-Replace mode or crop / a patch sample applied"),
    "assumptions": [
        "extra-channel `source` presence is only generated where both readings of the condition agree (DESIGN.md section 6)",
        "ReferenceOnly frames are canvas-sized when used as blend sources (a smaller reference as background is invalid)",
        "patch modes with alpha weighting (blend/mul-add above/below) are not generated: the coding of their alpha channel index cannot be settled offline; patch targets lie inside the frame; full renders only (patches under region requests belong to C06, where a known finding covers them)",
        "canvases <= 64 px (quick) / 300 px multi-group (thorough); patch images <= 160 px",
        "samples whose model error bound is unbounded (alpha mix within 1e-6 of 0) are skipped and counted",
    ],
    "level_text": "exploration: thousands of random frame sequences per run compared sample by sample with an independent compositor",
    "level_note": "trusted: jxlgen::anim compositor + Modular encoder, patch model in c05p.rs (self-test: C05P_SELFTEST=1 inverts the clamp rule in the model and must produce violations), comparison code in c05.rs",
    "technique": "runtime differential monitor: independent f64 compositor vs real renderer on generated multi-frame streams",
    "quick": {"cases": 100000, "floor": 2500, "time_budget": 240},
    "thorough": {"cases": 600000, "floor": 15000, "time_budget": 900},
}

PROPS["C08"] = {
    "worker": "c08", "variant": "chk", "level": "fault_enumeration",
    "rule": ("case = small image (2/3 multi-frame with ReferenceOnly frames, reference slots, crops and all blend modes; 1/3 single-frame "
             "Modular). A clean decode+render counts the tracked allocation points N (hook H1). For every k in 0..N (all points when "
             "N <= 60 in quick / 400 in thorough, else that many stratified points): fresh image, the k-th and every later tracked "
             "allocation fails; script A renders every keyframe, script B makes 1..3 more calls under the fault (render again, other "
             "keyframe, set_image_region full/partial, render_loading_frame), then the fault is lifted and script C renders every keyframe "
             "twice (optionally after re-requesting the full region). Each scenario runs in its own thread; hook H2's protocol monitor gives "
             "a logical wedge verdict (a frame left in state Rendering by a call that returned; a caller waiting on it) - no wall clock. "
             "Oracle: every call returns; no panic; every Ok render of the full region is bit-identical to the never-failed render; nothing "
             "outstanding in the tracker after drop. signature = (image class, allocation-count class); evaluations = images, observed "
             "fault_points_run / scenarios = fault points actually executed"),
    "assumptions": [
        "faults are injected at tracked allocations only (AllocTracker::alloc); untracked Vec allocations cannot be failed without aborting",
        "pool none (callers are the only threads); concurrent callers are C20's business",
        "corrupt-group and missing-reference faults are not injected yet",
        "a generous 60 s wall-clock watchdog per scenario yields 'inconclusive', never a violation",
    ],
    "level_text": ("fault enumeration: every tracked allocation point of each explored image's decode+render is failed once (exhaustively "
                   "for images with <= 60/400 points), with follow-up call sequences and recovery; wedges are decided logically from hook events"),
    "level_note": "trusted: hooks H1/H2 (add-only, pass-through), monitor.rs orphan logic, generators",
    "technique": "fault injection at every tracked allocation + protocol-event monitor (logical wedge detection) + quiescent-point state invariant (hook H5) + differential re-render",
    "quick": {"cases": 5000, "floor": 125, "time_budget": 240},
    "thorough": {"cases": 30000, "floor": 750, "time_budget": 900},
}

PROPS["C13"] = {
    "worker": "c13", "variant": "chk", "level": "exploration",
    "rule": ("case = one AllocTracker with a limit from {0, 1, tiny, small, medium, 128 MiB, ample} shared by a chain of 1..4 (5%: 20..120) "
             "successive images (valid single-/multi-frame Modular streams, 1/4 byte-mutated), each driven by a random script (read, render "
             "keyframes, image_all_channels, set_image_region, render_loading_frame) under pool none or rayon(3), limit expanded/shrunk "
             "between images; every object dropped. Monitor (hook H1): shadow outstanding bytes <= shadow total limit after every "
             "successful alloc; at quiescence outstanding == 0, real budget == total limit, and the public shrink_limit(total) succeeds. "
             "Exhaustion must surface as Err (a panic/abort is attributed by the supervisor); without a pool, a render that returns Ok "
             "although an allocation was refused during the call (H1 refusal counter) must equal the decode without a limit (falling back "
             "is legitimate, dropping content is not). 1/25 cases: 2..8 threads hammer one tracker (limits 1..100000 B, requests below, at "
             "and above the limit, random holds and drops) - shadow accounting must never exceed the limit and the budget must be whole "
             "after the drops. 1/16 cases: single-fault enumeration on a multi-group image - exactly the k-th tracked allocation of "
             "read+render is refused (hook fail_only), for every k (stride above 300 points): Err, or Ok with the samples of the unlimited "
             "decode; nothing outstanding afterwards. signature = (limit class, image kinds, outcome set, pool, chain length class) / "
             "(tracker-stress, threads, limit) / (single-fault, group class, log2 allocation count); non-trivial iff >= 1 tracked allocation "
             "was attempted"),
    "assumptions": [
        "only tracked allocations are accounted; hostile streams here are byte mutations of valid ones (value-level hostility is C01's corpus)",
        "JPEG reconstruction scripts are not part of the chains yet",
    ],
    "level_text": "exploration: thousands of (image chain, limit, script) triples per run with an online accounting monitor",
    "level_note": "trusted: hook H1 shadow counters (updated in the same call as the budget), c13.rs",
    "technique": "online invariant monitor on hooked allocator state (shadow accounting, refusal counter) + quiescence checks through the public API + concurrent tracker stress + single-allocation fault enumeration with differential output check",
    "quick": {"cases": 20000, "floor": 500, "time_budget": 240},
    "thorough": {"cases": 300000, "floor": 7500, "time_budget": 900},
}

PROPS["C20"] = {
    "worker": "c20", "variant": "chk", "level": "exploration",
    "rule": ("case = small multi-frame image with reference chains (blend over slots, ReferenceOnly frames, crops) x 2..3 caller threads each "
             "running a script of 1..3 render_frame(k) calls on one shared JxlImage (same keyframe or keyframes sharing references), pool none, "
             "1/3 with an injected allocation failure (hook H1). The REAL code runs under a baton scheduler built on hook H2: every lock "
             "acquisition of a render handle is a scheduling point (try_lock probe decides whether it would block), condvar waits park the "
             "thread, notify_all wakes it; 12 (quick) / 40 (thorough) schedules per case from a seeded uniform random walk or a PCT-style "
             "priority schedule with 3 change points. Deadlock = unfinished callers and nothing runnable (logical verdict with trace). "
             "Oracle: every caller returns; never two overlapping render executions of one frame; every Ok result bit-identical to the "
             "single-caller render; errors only when a fault was injected. signature = (frame-type sequence, thread count, fault, keyframes); "
             "non-trivial iff some context switch happened while a frame was in state Rendering; observed distinct_schedules / "
             "distinct_protocol_states are measured per run"),
    "assumptions": [
        "schedule exploration is random / PCT, not exhaustive DFS; pool none (callers are the only threads) - rayon-pool callers are covered by C07's stress and TSan runs",
        "scheduling points are the render-handle lock acquisitions and condvar operations exposed by hook H2; other mutexes (colour transform cache, DCT tables) are held only briefly without scheduling points inside",
        "a 30 s no-progress watchdog yields 'inconclusive'",
    ],
    "level_text": ("exploration of interleavings of the real code under a deterministic baton scheduler: thousands of distinct schedules per "
                   "quick run with logical deadlock detection, overlap detection and differential result check"),
    "level_note": "trusted: hook H2 event placement (add-only), the scheduler in c20.rs",
    "technique": "controlled-schedule concurrency testing of the real code (hook-driven baton scheduler, random + PCT strategies) with online protocol monitors",
    "quick": {"cases": 500, "floor": 20, "time_budget": 240},
    "thorough": {"cases": 20000, "floor": 500, "time_budget": 900},
}

PROPS["C15"] = {
    "worker": "c15", "variant": "chk", "level": "exploration",
    "rule": ("case = single-frame lossless Modular image with known samples (imggen or the C15 builder: grey/RGB/ICC-declared CMYK, extra "
             "channels Alpha/Black/Spot/Depth/Mask/Cfa/Thermal/(Non)Optional with own depth, depth 1..31/f16/f24/f32, optional frame crop) "
             "x orientation 1..8 x region (default/full/interior/pixel/strip/edge/overhang/outside, 1-3 regions per decoder instance) x pool x "
             "wide buffers x spot rendering on/off; compares width/height/pixel_format, image_all_channels, every image_planar[c], "
             "stream/stream_no_alpha <f32|u16|u8> and chunked write_to_buffer against the truth moved by an EXIF-table orientation map. "
             "signature = (layout, depth class, orientation, region class, partial stream type, spot on/off); non-trivial iff >=4 in-image "
             "pixels requested and the image is not constant"),
    "assumptions": [
        "region pixels outside the image read 0 in every output; when the frame has samples beyond the canvas they are only checked for agreement between buffers",
        "exact f32 equality for integer samples with d<=24,|v|<=2^24, else 2.5e-7 relative; integer streams accept either neighbour within 0.01 (u16) / 1e-3 (u8) of the rounding boundary",
        "custom floats < 32 bit: IEEE reading incl. zero/subnormals; all-ones exponent and out-of-range patterns unjudged",
        "single keyframe; extra channels at full resolution; image sides <=260 quick / <=600 thorough",
    ],
    "level_text": "exploration: tens of thousands of (image, orientation, region, output type) combinations per run, per-sample oracle against an independent model",
    "level_note": "trusted: jxlgen encoder + EXIF-derived orientation model in c15.rs",
    "technique": "runtime differential monitor: independent encoder + EXIF-derived orientation model -> real decoder outputs, per-sample oracle",
    "quick": {"cases": 40000, "floor": 1000, "time_budget": 240},
    "thorough": {"cases": 700000, "floor": 17500, "time_budget": 900},
}

PROPS["C06"] = {
    "worker": "c06", "variant": "chk", "level": "exploration",
    "rule": ("case = one generated image (single-frame Modular with upsampling 2/4/8, ec dim_shift/ec_upsampling, Gabor, EPF 1-3, noise, "
             "YCbCr 444/420/422/440, patches from a reference frame, palette/squeeze [full decode] or plain multi-group [group-filtered decode], "
             "multi-pass, 8 orientations, narrow/wide buffers; or 2-3 frame image with cropped/negative-offset frames blended "
             "Replace/Add/Mul/Blend/MulAdd, optional upsampling/filter/animation; or cmyk_layers.jxl) x 4 (thorough 6) sequences of 1..6 "
             "set_image_region calls on one object; every render after a request is compared with that rectangle of a fresh object's full "
             "render for every keyframe and channel (integer planes exact, float planes |diff| <= 1e-6), the last request's output must be "
             "bit-identical to a fresh object given only that request; render errors/panics are violations. signature = (feature class, "
             "orientation class, last rectangle kind|origin alignment to group/8px/upsampling grid|edge, sequence length class); "
             "non-trivial iff >= 16 samples and some non-zero residual"),
    "assumptions": [
        "streams come from jxlgen plus c06.rs's frame assembly, patch dictionary and plain multi-group writer, all written from the format definition; the oracle compares the decoder with itself, so no pixel model is trusted",
        "patch targets lie inside the colour-resolution frame; alpha patch modes only with a single extra channel (where the coding of alpha_channel is undisputed)",
        "chroma-subsampled Modular frames only with even colour sample sizes",
        "image sides <= 520 px quick, <= 1100 px thorough; VarDCT frames only as JPEG transcodes from jxlgen::vardct (8x8 blocks, chroma subsampling, chroma-from-luma, optional valid embedded ICC; 1 in 10 generated images); VarDCT with larger transforms / EPF sigma maps / splines / LF frames are not generated (no pixel-domain VarDCT writer); the one real file is Modular",
        "rectangles lie inside the image and are non-empty (the property's domain)",
    ],
    "level_text": "exploration: thousands (quick) to tens of thousands (thorough) of images x 4-6 request sequences, ~5e8 samples per 1000 cases compared; 11 of 13 injected padding/region bugs detected during construction (2 equivalent mutants)",
    "level_note": "trusted: comparison code in vcheck/src/c06.rs (crop indexing, orientation mapping verified against encoder truth by c06::selftest)",
    "technique": "runtime metamorphic monitor: region render vs crop of full render on a fresh object, plus history independence (bit-exact)",
    "quick": {"cases": 6000, "floor": 150, "time_budget": 300},
    "thorough": {"cases": 45000, "floor": 1200, "time_budget": 900},
}

PROPS["C07"] = {
    "worker": "c07", "variant": "chk", "level": "exploration",
    "rule": ("case = workload (multi-group lossless Modular image; feature frame from the C06 generator: restoration filters, upsampling, "
             "noise, patches, YCbCr, blended multi-frame; VarDCT frame = transcoded random JPEG, single- and multi-group; multi-frame image "
             "with reference chains incl. multi-group canvases; or the real 4-layer fixture cmyk_layers.jxl; Modular/anim ones 1/6 "
             "bit-flipped) rendered under: no pool (baseline), repeated render on the same "
             "object, rayon pools of 1..16 threads, seeded job-order permutations of every for_each_* (hook H4; legal alternative schedules, "
             "also without threads), and 2..6 OS threads calling render_frame concurrently on one shared image with a rayon pool. Oracle: all "
             "outputs of one keyframe bit-identical (f32::to_bits) and success/failure class identical across every configuration. "
             "signature = (workload class, valid/mutated, keyframes, ok count); observed set 'configs' lists the configurations compared"),
    "assumptions": [
        "VarDCT only as JPEG transcodes (8x8 blocks); race detection by TSan/Miri is part of C02's sanitizer runs",
        "error text may differ between configurations (shared error slot keeps the last writer); only the Ok/Err class is compared",
        "a spurious IncompleteFrame under concurrent callers is the C20 known finding and is reported under its signature",
    ],
    "level_text": "exploration: each workload under 10..20 thread / schedule configurations, bit-exact differential oracle",
    "level_note": "trusted: hook H4 permutation (add-only), comparison code in c07.rs",
    "technique": "runtime differential monitor across thread-pool sizes, permuted job orders and concurrent callers; bit-exact comparison",
    "quick": {"cases": 960, "floor": 20, "time_budget": 240},
    "thorough": {"cases": 20000, "floor": 500, "time_budget": 900},
}

PROPS["C01"] = {
    "worker": "c01", "variant": "chk", "level": "exploration",
    "rule": ("case = hostile input x random call script. Inputs: byte-mutated valid streams (Modular single-frame, multi-frame, "
             "container-wrapped; bit flips, byte sets, truncation, insertion, deletion, splicing), the repository's 60 fuzz regressions and "
             "the real fixture (raw and mutated), valid-syntax image/frame headers with arbitrary huge values + junk sections, valid-syntax "
             "Modular streams with adversarial values (31-bit depths, full-i32 sample ranges, palettes with 0 colours / deltas / implicit "
             "entries, stacked squeezes, extreme tree multipliers/offsets/split values, lying 16-bit flag), Modular streams with unvalidated "
             "transform lists (num_c 8192, begin_c huge, rct_type > 41 ...) and trees followed by junk, ill-formed containers. Script: "
             "whole-buffer read or build_uninit/feed_bytes/try_init with 1 / <=64 / <=4096-byte chunks re-offering unconsumed bytes, then "
             "3..14 random calls among render_frame (+ image_all_channels / image_planar / stream u8 / stream_no_alpha u16 / chunked f32), "
             "render_loading_frame, set_image_region (valid and wild), request_color_encoding, request_icc (valid/mutated/random), "
             "rendered_icc/cicp/pixel_format/hdr_type/original_icc, frame/frame_header/frame_offset/frame_by_keyframe, aux boxes, "
             "jpeg_reconstruction_status + reconstruct_jpeg, spot colour toggle, feed_bytes(empty), finalize; allocation limit 128 MiB, "
             "images larger than 4096 px are parsed and queried but not rendered. chk build: arithmetic overflow and debug assertions "
             "panic. Oracle: every call returns; a panic located in the decoder, a process death or a confirmed hang (per-case watchdog, "
             "re-run alone with a 10x budget) is a violation keyed by (kind, file:line). signature = (input class, outcome, first error "
             "class); non-trivial iff the image initialised and has >= 1 frame"),
    "assumptions": [
        "generated VarDCT / jbrd streams are not yet part of the hostile corpus (only via the fuzz regressions and the fixture)",
        "panics inside std/dependencies raised on behalf of decoder code are attributed to the decoder",
        "hang = case exceeding 90 s and again 900 s when re-run alone; anything in between is recorded as slow",
    ],
    "level_text": ("exploration: tens of thousands of (hostile input, API script) pairs per quick run in a checked build; inputs concentrate "
                   "on valid-syntax hostile values and on the API surface upstream fuzzing never drives"),
    "level_note": "trusted: worker panic attribution (location under /repo), supervisor crash attribution by progress file",
    "technique": "runtime monitoring under hostile workloads: panic/abort/hang monitors on a checked build (overflow + debug assertions)",
    "quick": {"cases": 150000, "floor": 3750, "time_budget": 240},
    "thorough": {"cases": 3000000, "floor": 60000, "time_budget": 900},
}

_C02_RULE = ("stages: (1) ASan build (nightly -Zsanitizer=address, release, wrapping arithmetic): the C01 hostile workload with a share of "
             "valid streams through read/feed/render/region/output scripts; the C12 shape sweep (widths and heights 1..70, 120..136, 250..262 "
             "around SIMD lane and group boundaries, forced squeeze/RCT, narrow and wide buffers, pool none/rayon) and the C03 valid corpus "
             "(all transforms, multi-group); thorough adds (2) valgrind memcheck on the plain release build for uninitialised reads in the "
             "MaybeUninit squeeze scratch / SIMD tails, (3) Miri on tiny images with default target features (scalar paths) and with "
             "+sse4.1 / +avx2 (both SIMD kernel families incl. the one this CPU never selects; aliasing of the raw-pointer subgrids), and "
             "(4) a ThreadSanitizer build (-Zbuild-std) over the C07 thread-configuration workload. Oracle: any sanitizer / Miri / memcheck "
             "report or process death = violation keyed by (report kind, first in-repo frame). Panics are C01's business and only counted. "
             "signature = per stage worker's own signature")
PROPS["C02"] = {
    "level": "exploration",
    "rule": _C02_RULE,
    "assumptions": [
        "ASan misses intra-object and far out-of-bounds accesses; Miri covers those only on its tiny cases; uninitialised reads are only seen by memcheck/Miri (thorough tier)",
        "kernel families: this CPU selects AVX2/SSE4.1 natively; Miri selects them from static target features",
        "generated VarDCT streams are not yet part of the corpus (EPF/Gabor/DCT kernels are reached only through the real fixture and the fuzz regressions)",
    ],
    "level_text": ("exploration under memory-error detectors: the hostile and valid-shape workloads of C01/C12/C03 are replayed under ASan "
                   "(quick) plus memcheck, Miri (three target-feature sets) and TSan (thorough)"),
    "level_note": "trusted: the sanitizers; supervisor attribution of reports to cases via progress files",
    "technique": "compiler sanitizers (ASan, TSan), valgrind memcheck and Miri over generated hostile + boundary-shape workloads",
    "stages": [
        {"worker": "c02", "variant": "asan", "quick": {"cases": 12000, "floor": 300, "time_budget": 200, "extra": {"ignore-panics": 1}},
         "thorough": {"cases": 600000, "floor": 10000, "time_budget": 600, "extra": {"ignore-panics": 1}}},
        {"worker": "c12", "variant": "asan", "quick": {"cases": 1500, "floor": 40, "time_budget": 120, "extra": {"ignore-panics": 1}},
         "thorough": {"cases": 40000, "floor": 1000, "time_budget": 400, "extra": {"ignore-panics": 1}}},
        {"worker": "c03", "variant": "asan", "quick": {"cases": 3000, "floor": 80, "time_budget": 120, "extra": {"ignore-panics": 1, "preview-mode": 1}},
         "thorough": {"cases": 80000, "floor": 2000, "time_budget": 400, "extra": {"ignore-panics": 1, "preview-mode": 1}}},
        {"worker": "c12", "variant": "vg", "thorough": {"cases": 1200, "floor": 30, "time_budget": 400, "shards": 16, "hang_budget": 900, "extra": {"ignore-panics": 1}}},
        {"worker": "c03", "variant": "miri", "thorough": {"cases": 160, "floor": 4, "time_budget": 300, "shards": 16, "hang_budget": 400, "extra": {"ignore-panics": 1, "tiny": 1, "preview-mode": 1}}},
        {"worker": "c12", "variant": "miri+sse4.1", "thorough": {"cases": 96, "floor": 2, "time_budget": 300, "shards": 16, "hang_budget": 400, "extra": {"ignore-panics": 1, "tiny": 1}}},
        {"worker": "c12", "variant": "miri+avx2", "thorough": {"cases": 96, "floor": 2, "time_budget": 300, "shards": 16, "hang_budget": 400, "extra": {"ignore-panics": 1, "tiny": 1}}},
        {"worker": "c07", "variant": "tsan", "thorough": {"cases": 600, "floor": 10, "time_budget": 400, "hang_budget": 600, "extra": {"ignore-panics": 1}}},
    ],
}

ALL = ["C%02d" % i for i in range(1, 21)]
HOOK_COMMITS = ["27cc801", "8f68576", "99816ae", "c29f982", "73931bd", "f99bad3", "4e99f73"]
NOT_APPLICABLE = {p: "check not built yet in this session (work in progress; see DESIGN.md section 9 for order)" for p in ALL if p not in PROPS}
