"""Per-property configuration of the runner."""

PROPS = {
    "C04": {
        "worker": "c04",
        "variant": "chk",
        "level": "exploration",
        "rule": ("case = random entropy code (prefix/ANS, every histogram header form, clustering simple/coded/MTF, "
                 "hybrid-uint configs, optional LZ77 with distance multiplier, RLE view) + value sequence, or a Lehmer-coded "
                 "permutation; written by jxlgen's encoder, decoded by jxl_coding. signature = (coder, log alphabet, set of "
                 "header forms, cluster-count class + map coding, uint-config classes, lz77 class, copies/lits/rle, final-state "
                 "ok/corrupted); non-trivial iff >= 8 values (permutations: size >= 3)"),
        "assumptions": [
            "jxlgen's entropy encoder is the reference: written from the format definition, shares no code with the decoder",
            "sequence lengths <= 50k symbols, alphabets <= 2^15 (prefix) / 256 (ANS), <= 300 contexts",
        ],
        "level_text": ("exploration: hundreds of thousands of independently encoded streams per run are decoded by the real "
                       "entropy decoder and compared symbol-for-symbol and bit-for-bit; the space (all codes x all sequences) is "
                       "infinite so a sampled, signature-stratified exploration is the strongest this family offers"),
        "level_note": "trusted: jxlgen entropy encoder (validated against the pinned decoder over millions of streams), the worker's comparison code",
        "technique": "runtime differential monitor: reference encoder -> real decoder, exact value/bit-count/final-state oracle",
        "quick": {"cases": 400000, "floor": 100000, "time_budget": 300},
        "thorough": {"cases": 20000000, "floor": 3000000, "time_budget": 3000},
    },
}

ALL = ["C%02d" % i for i in range(1, 21)]
HOOK_COMMITS = []
NOT_APPLICABLE = {p: "check not built yet in this session (work in progress; see DESIGN.md section 9 for order)" for p in ALL if p not in PROPS}
