#!/bin/sh
# Repository's own test suite with the verification guard OFF (no RUSTFLAGS cfg).
cd /repo && env -u RUSTFLAGS CARGO_NET_OFFLINE=true cargo test --workspace --no-fail-fast --offline
