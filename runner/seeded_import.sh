#!/bin/sh
# import seeded changes produced by sub-agents under /tmp/seed-out/<id>/{a,b} into /verif/seeded
for id in "$@"; do for v in a b; do
  src=/tmp/seed-out/$id/$v; [ -f $src/patch.diff ] || continue
  mkdir -p /verif/seeded/$id/$v; cp $src/patch.diff /verif/seeded/$id/$v/; [ -f $src/meta.json ] && cp $src/meta.json /verif/seeded/$id/$v/
  [ -d $src/demo ] && rsync -a --max-size=600k --exclude target $src/demo /verif/seeded/$id/$v/
done; done
