#!/usr/bin/env python3
"""Generate MANIFEST.json from runner/props.py (single source of truth)."""
import json, sys
from pathlib import Path
sys.path.insert(0, str(Path(__file__).parent))
from props import PROPS, NOT_APPLICABLE, HOOK_COMMITS
checks = []
for pid in sorted(PROPS):
    c = PROPS[pid]
    checks.append({
        "property_id": pid,
        "quick_cmd": f"./check {pid} --tier quick",
        "thorough_cmd": f"./check {pid} --tier thorough",
        "evidence_file": f"/verif/evidence/{pid}.json",
        "replay_cmd_template": f"./check {pid} --replay {{path}}",
        "engine": "vcheck",
        "level_claimed": {"category": c["level"], "text": c["level_text"], "design_ref": c.get("design_ref", f"DESIGN.md section 7, {pid}")},
        "level_note": c["level_note"],
        "technique": c["technique"],
    })
m = {
    "version": 1,
    "setup_cmd": "./setup.sh",
    "hooks": {
        "guard": "--cfg jxl_oxide_verif",
        "enable": "RUSTFLAGS='--cfg jxl_oxide_verif' (set by runner/run.py for every harness build; the harness path-depends on /repo/crates/*)",
        "baseline_off_cmd": "./runner/baseline_off.sh",
        "source_commits": HOOK_COMMITS,
        "add_only": True,
    },
    "engines": [
        {"name": "vcheck", "path": "/verif/harness/vcheck", "serves_properties": sorted(PROPS),
         "kind_free_text": "runtime monitors: one worker subcommand per property runs the real decoder crates on generated workloads and checks an oracle; sharded and supervised by runner/run.py"},
        {"name": "jxlgen", "path": "/verif/harness/jxlgen", "serves_properties": sorted(PROPS),
         "kind_free_text": "independent JPEG XL writer (bit writer, entropy encoder, headers, Modular/VarDCT/container/ICC/JPEG writers) + reference models; produces valid and hostile workloads with known truth"},
    ],
    "checks": checks,
    "not_applicable": [{"property_id": k, "reason": v} for k, v in sorted(NOT_APPLICABLE.items())],
    "notes": "All verdicts are 'held on the executions listed in evidence'. See DESIGN.md.",
}
Path(__file__).resolve().parent.parent.joinpath("MANIFEST.json").write_text(json.dumps(m, indent=1) + "\n")
print("wrote MANIFEST.json with", len(checks), "checks")
