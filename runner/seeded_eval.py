#!/usr/bin/env python3
"""Evaluate seeded breaking changes: for each /verif/seeded/<id>/<variant>/patch.diff apply it to /repo, run the
registered quick check(s) for that property (plus any listed under "also" on the command line), record the result in
result.json next to the patch, and restore /repo. Nothing is committed in /repo; evidence of the unchanged tree is not
touched (VERIF_OUT points to a scratch directory).

usage: seeded_eval.py [--tier quick] [--only C03/a] [--also C01,C02] [--props C03,C04]
"""
import json, os, subprocess, sys, time, shutil
from pathlib import Path

VERIF = Path("/verif")
REPO = Path("/repo")


def sh(cmd, **kw):
    return subprocess.run(cmd, shell=True, text=True, capture_output=True, **kw)


def main():
    tier = "quick"
    only = None
    also = []
    props = None
    a = sys.argv[1:]
    i = 0
    while i < len(a):
        if a[i] == "--tier":
            tier = a[i + 1]
        elif a[i] == "--only":
            only = a[i + 1]
        elif a[i] == "--also":
            also = a[i + 1].split(",")
        elif a[i] == "--props":
            props = a[i + 1].split(",")
        i += 2
    if sh("git -C /repo status --porcelain --untracked-files=no").stdout.strip():
        raise SystemExit("/repo has uncommitted changes; refusing")
    out = Path("/tmp/seeded-eval-out")
    for pdir in sorted((VERIF / "seeded").iterdir()):
        if not pdir.is_dir() or (props and pdir.name not in props):
            continue
        for vdir in sorted(pdir.iterdir()):
            patch = vdir / "patch.diff"
            if not patch.exists():
                continue
            tag = f"{pdir.name}/{vdir.name}"
            if only and tag != only:
                continue
            meta = json.loads((vdir / "meta.json").read_text()) if (vdir / "meta.json").exists() else {}
            chk = sh(f"git -C /repo apply --check {patch}")
            if chk.returncode != 0:
                print(f"{tag}: patch does not apply: {chk.stderr.strip()[:200]}")
                (vdir / "result.json").write_text(json.dumps({"applies": False, "error": chk.stderr.strip()[:500]}, indent=1))
                continue
            sh(f"git -C /repo apply {patch}")
            res = {"applies": True, "tier": tier, "checks": {}}
            try:
                targets = [pdir.name] + [x for x in meta.get("also_checks", []) + also if x != pdir.name]
                for pid in targets:
                    if out.exists():
                        shutil.rmtree(out)
                    t0 = time.time()
                    env = dict(os.environ, VERIF_OUT=str(out))
                    p = subprocess.run([str(VERIF / "check"), pid, "--tier", tier], text=True, capture_output=True, env=env, cwd=VERIF)
                    lines = [l for l in p.stdout.splitlines() if l.startswith(("VIOLATION", "OK", "INCONCLUSIVE", "HARNESS-ERROR"))]
                    res["checks"][pid] = {"exit": p.returncode, "wall_s": round(time.time() - t0, 1), "lines": [l[:400] for l in lines[:8]]}
                    print(f"{tag}: check {pid} exit={p.returncode} ({time.time()-t0:.0f}s) {lines[0][:200] if lines else p.stderr[-200:]}")
            finally:
                sh("git -C /repo checkout -- .")
                if out.exists():
                    shutil.rmtree(out)
            res["detected_by"] = [k for k, v in res["checks"].items() if v["exit"] == 1]
            (vdir / "result.json").write_text(json.dumps(res, indent=1))


if __name__ == "__main__":
    main()
