//! C20: concurrent renders of shared frames run once at a time, agree, and never deadlock.
//!
//! The real code runs under a baton scheduler built on hook H2: caller threads are serialised,
//! every lock acquisition of a render handle is a scheduling point, condition-variable waits
//! park the thread, notifications wake it. A deadlock is a *logical* verdict: unfinished callers
//! and nothing runnable. Schedules are chosen by a seeded strategy (uniform random walk or a
//! priority-based one with few change points, PCT style).

use crate::common::*;
use jxl_grid::AllocTracker;
use jxl_oxide::{JxlImage, JxlThreadPool};
use jxl_render::verif::{set_hook, Event};
use std::collections::HashMap;
use std::sync::{Arc, Condvar, Mutex};
use std::thread::ThreadId;

#[derive(Clone, Copy, Debug, PartialEq, Eq)]
enum TState {
    /// not started / running with the baton / ready to run
    Runnable,
    Running,
    /// saw a locked mutex at its last probe
    LockBlocked(usize),
    /// inside condvar.wait on a frame
    Waiting(usize),
    /// notified, has not yet come back from the OS wait
    Woken(usize),
    Finished,
}

struct Sched {
    threads: Vec<(ThreadId, TState)>,
    current: Option<usize>,
    rng: jxlgen::rng::Rng,
    /// PCT: priority per thread, change points (step numbers) left
    prio: Vec<u32>,
    change_points: Vec<u64>,
    strategy: u32,
    steps: u64,
    choices: Vec<u8>,
    context_switches: u64,
    switches_inside_rendering: u64,
    deadlock: Option<String>,
    /// per frame: render executions open (thread index), overlap detection
    open: HashMap<usize, Vec<usize>>,
    overlap: Option<String>,
    render_counts: HashMap<usize, u32>,
    rendering_frames: u32,
    trace: Vec<String>,
    states_seen: std::collections::HashSet<u64>,
    frame_state: HashMap<usize, &'static str>,
    last_event: std::time::Instant,
}

struct Shared {
    m: Mutex<Sched>,
    cv: Condvar,
}

impl Sched {
    fn idx(&self, tid: ThreadId) -> Option<usize> {
        self.threads.iter().position(|(t, _)| *t == tid)
    }

    fn note(&mut self, s: String) {
        if self.trace.len() < 600 {
            self.trace.push(s);
        }
    }

    fn abstract_state(&self) -> u64 {
        let mut s = String::new();
        let mut fs: Vec<_> = self.frame_state.iter().collect();
        fs.sort();
        for (f, t) in fs {
            s.push_str(&format!("{f}:{t};"));
        }
        for (_, st) in &self.threads {
            s.push_str(&format!("{st:?},"));
        }
        fnv(&s)
    }

    /// choose the next thread to run; None if nothing can run right now
    fn choose(&mut self) -> Option<usize> {
        let cands: Vec<usize> = self
            .threads
            .iter()
            .enumerate()
            .filter(|(_, (_, st))| matches!(st, TState::Runnable | TState::LockBlocked(_)))
            .map(|(i, _)| i)
            .collect();
        if cands.is_empty() {
            return None;
        }
        self.steps += 1;
        let pick = if self.strategy == 0 {
            cands[self.rng.below(cands.len() as u64) as usize]
        } else {
            // PCT: highest priority runs; at change points the running thread's priority drops
            if self.change_points.first().map_or(false, |&c| c <= self.steps) {
                self.change_points.remove(0);
                if let Some(c) = self.current {
                    self.prio[c] = 0;
                }
            }
            *cands.iter().max_by_key(|&&i| self.prio[i]).unwrap()
        };
        self.choices.push(pick as u8);
        Some(pick)
    }

    fn unfinished(&self) -> usize {
        self.threads.iter().filter(|(_, s)| *s != TState::Finished).count()
    }

    fn pending_wake(&self) -> bool {
        self.threads.iter().any(|(_, s)| matches!(s, TState::Woken(_)))
    }
}

impl Shared {
    /// Give up the baton (the caller has already set its own state) and, unless `park` is
    /// false, wait until chosen again.
    fn reschedule(&self, me: usize, wait_for_turn: bool) {
        let mut s = self.m.lock().unwrap();
        let prev = s.current;
        s.current = None;
        // determinism: let notified threads arrive (they become Runnable at CondWaitExit) before
        // choosing, so the candidate set does not depend on OS wake-up latency
        let t0 = std::time::Instant::now();
        while s.pending_wake() && s.deadlock.is_none() && t0.elapsed().as_millis() < 200 {
            let (g, _) = self.cv.wait_timeout(s, std::time::Duration::from_micros(200)).unwrap();
            s = g;
        }
        loop {
            if s.deadlock.is_some() {
                // let everybody run free so threads that can finish do finish
                self.cv.notify_all();
                return;
            }
            match s.choose() {
                Some(n) => {
                    if prev != Some(n) {
                        s.context_switches += 1;
                        if s.rendering_frames > 0 {
                            s.switches_inside_rendering += 1;
                        }
                    }
                    s.threads[n].1 = TState::Running;
                    s.current = Some(n);
                    let h = s.abstract_state();
                    s.states_seen.insert(h);
                    self.cv.notify_all();
                    break;
                }
                None => {
                    if s.pending_wake() {
                        // a notified thread is on its way back from the OS wait
                        let (g, _) = self.cv.wait_timeout(s, std::time::Duration::from_millis(2)).unwrap();
                        s = g;
                        if s.current.is_some() {
                            break;
                        }
                        continue;
                    }
                    if s.unfinished() > 0 {
                        let desc: Vec<String> = s.threads.iter().enumerate().map(|(i, (_, st))| format!("T{i}:{st:?}")).collect();
                        s.deadlock = Some(format!("no runnable caller: {}", desc.join(" ")));
                        self.cv.notify_all();
                    }
                    return;
                }
            }
        }
        if !wait_for_turn {
            return;
        }
        while s.current != Some(me) && s.deadlock.is_none() {
            s = self.cv.wait(s).unwrap();
        }
    }

    fn on_event(&self, e: &Event) {
        let tid = std::thread::current().id();
        let me = {
            let mut s = self.m.lock().unwrap();
            s.last_event = std::time::Instant::now();
            match s.idx(tid) {
                Some(i) => i,
                None => return, // not a registered caller
            }
        };
        match e {
            Event::BeforeLock { frame, site, probe } => {
                self.m.lock().unwrap().note(format!("T{me} lock f{frame} {site}"));
                loop {
                    {
                        let mut s = self.m.lock().unwrap();
                        if s.deadlock.is_some() {
                            return;
                        }
                        s.threads[me].1 = TState::Runnable;
                    }
                    self.reschedule(me, true);
                    if self.m.lock().unwrap().deadlock.is_some() {
                        return;
                    }
                    if probe() {
                        return;
                    }
                    let mut s = self.m.lock().unwrap();
                    s.threads[me].1 = TState::LockBlocked(*frame);
                    // somebody else must run and release it; we re-probe when chosen again
                    drop(s);
                    self.reschedule_blocked(me);
                    if self.m.lock().unwrap().deadlock.is_some() {
                        return;
                    }
                    if probe() {
                        let mut s = self.m.lock().unwrap();
                        s.threads[me].1 = TState::Running;
                        return;
                    }
                }
            }
            Event::CondWaitEnter { frame } => {
                {
                    let mut s = self.m.lock().unwrap();
                    s.note(format!("T{me} wait-enter f{frame}"));
                    s.threads[me].1 = TState::Waiting(*frame);
                }
                // must not block here: we still hold the handle's mutex until the real wait
                self.reschedule(me, false);
            }
            Event::CondWaitExit { frame } => {
                {
                    let mut s = self.m.lock().unwrap();
                    s.note(format!("T{me} wait-exit f{frame}"));
                    s.threads[me].1 = TState::Runnable;
                    if s.deadlock.is_some() {
                        return;
                    }
                    // whoever is rescheduling waits for us to become Runnable
                    self.cv.notify_all();
                    while s.current != Some(me) && s.deadlock.is_none() {
                        s = self.cv.wait(s).unwrap();
                    }
                }
            }
            Event::NotifyAll { frame } => {
                let mut s = self.m.lock().unwrap();
                s.note(format!("T{me} notify f{frame}"));
                for t in s.threads.iter_mut() {
                    if t.1 == TState::Waiting(*frame) {
                        t.1 = TState::Woken(*frame);
                    }
                }
            }
            Event::StateStore { frame, tag } => {
                let mut s = self.m.lock().unwrap();
                s.note(format!("T{me} state f{frame} {tag}"));
                let was = s.frame_state.insert(*frame, tag);
                // a composite execution has no RenderEnd event of its own: it ends when its thread
                // stores the result (Blended / ErrTaken) through done_render
                if *tag != "Rendering" {
                    if let Some(v) = s.open.get_mut(frame) {
                        if let Some(p) = v.iter().rposition(|&t| t == me) {
                            v.remove(p);
                        }
                    }
                }
                if *tag == "Rendering" && was != Some("Rendering") {
                    s.rendering_frames += 1;
                } else if *tag != "Rendering" && was == Some("Rendering") {
                    s.rendering_frames = s.rendering_frames.saturating_sub(1);
                }
            }
            Event::RenderBegin { frame, kind } => {
                let mut s = self.m.lock().unwrap();
                s.note(format!("T{me} begin f{frame} {kind}"));
                *s.render_counts.entry(*frame).or_insert(0) += 1;
                let v = s.open.entry(*frame).or_default();
                v.push(me);
                if v.len() > 1 && s.overlap.is_none() {
                    s.overlap = Some(format!("frame {frame}: render executions of threads {:?} overlap", s.open[frame]));
                }
            }
            Event::RenderEnd { frame, kind, ok } => {
                let mut s = self.m.lock().unwrap();
                s.note(format!("T{me} end f{frame} {kind} ok={ok}"));
                if let Some(v) = s.open.get_mut(frame) {
                    if let Some(p) = v.iter().rposition(|&t| t == me) {
                        v.remove(p);
                    }
                }
            }
        }
    }

    /// Like reschedule(me, true) for a thread that is LockBlocked: it stays in that state.
    fn reschedule_blocked(&self, me: usize) {
        self.reschedule(me, true);
    }

    fn api_return(&self, me: usize) {
        // renders this thread left open (early error returns) are over
        let mut s = self.m.lock().unwrap();
        for v in s.open.values_mut() {
            v.retain(|&t| t != me);
        }
    }

    fn finish(&self, me: usize) {
        {
            let mut s = self.m.lock().unwrap();
            s.threads[me].1 = TState::Finished;
            for v in s.open.values_mut() {
                v.retain(|&t| t != me);
            }
        }
        self.reschedule(me, false);
    }
}

fn planes_bits(image: &JxlImage, k: usize) -> Result<Vec<Vec<u32>>, String> {
    let r = image.render_frame(k).map_err(|e| format!("{e}"))?;
    Ok(r.image_planar().iter().map(|fb| fb.buf().iter().map(|v| v.to_bits()).collect()).collect())
}

pub fn run(args: &Args) -> i32 {
    let thorough = args.thorough();
    run_cases(args, 0xC20, |case| {
        // A stall (no protocol event for 30 s while every caller is parked by the baton) is a wall-clock
        // observation and by itself inconclusive. The case is deterministic, so it is run again from
        // the same seed: stalling a second time in the same schedule with the same thread states is a
        // reproduced lost wake-up / wedge and is reported.
        let rng0 = case.rng.clone();
        if let Some(d1) = body(case, rng0.clone(), thorough) {
            match body(case, rng0, thorough) {
                Some(d2) if d2 == d1 => case.violation("stall-reproduced", format!("callers stop making progress at the same point in two runs of the same schedule: {d1}")),
                Some(_) => case.inconclusive("scheduler stalled twice at different points"),
                None => case.inconclusive("scheduler stalled once (wall-clock watchdog), not reproduced"),
            }
        }
    })
}

/// One deterministic execution of a case; `Some(description)` when a schedule stalled.
fn body(case: &mut Case, mut rng0: jxlgen::rng::Rng, thorough: bool) -> Option<String> {
    {
        let mut rng = rng0.fork();
        // scenario image: multi-frame with reference chains
        let opts = jxlgen::anim::AnimOpts { max_frames: 5, max_dim: 20, max_extra: 2, ..Default::default() };
        let mut got = None;
        for _ in 0..30 {
            if let Some(a) = jxlgen::anim::gen_animation(&mut rng, &opts) {
                if a.frames.len() >= 2 {
                    got = Some(a);
                    break;
                }
            }
        }
        let Some(anim) = got else {
            case.inconclusive("generator gave up");
            return None;
        };
        case.set_input(&anim.bytes);
        // reference (single caller)
        let ref_img = match JxlImage::builder().pool(JxlThreadPool::none()).read(std::io::Cursor::new(&anim.bytes[..])) {
            Ok(i) => i,
            Err(e) => {
                case.violation("open-err", format!("{e}"));
                return None;
            }
        };
        let nk = ref_img.num_loaded_keyframes();
        let mut reference = Vec::new();
        for k in 0..nk {
            match planes_bits(&ref_img, k) {
                Ok(b) => reference.push(b),
                Err(e) => {
                    case.violation("reference-render-err", format!("{e}"));
                    return None;
                }
            }
        }
        drop(ref_img);
        let n_threads = if rng.chance(1, 3) { 3 } else { 2 };
        let with_fault = rng.chance(1, 3);
        let schedules = if thorough { 40 } else { 12 };
        let mut distinct = std::collections::HashSet::new();
        let mut states = std::collections::HashSet::new();
        let mut nontrivial = false;
        for sched_i in 0..schedules {
            // fresh image per schedule (render state is consumed)
            let tracker = AllocTracker::with_limit(1 << 40);
            let image = match JxlImage::builder().pool(JxlThreadPool::none()).alloc_tracker(tracker.clone()).read(std::io::Cursor::new(&anim.bytes[..])) {
                Ok(i) => i,
                Err(e) => {
                    case.violation("open-err", format!("{e}"));
                    return None;
                }
            };
            if with_fault {
                let n0 = tracker.verif_alloc_count();
                tracker.verif_set_fail_from(n0 + rng.urange(0, 60));
            }
            // scripts: each caller renders 1..3 keyframes (same or different)
            let same = rng.bool();
            let k0 = rng.below(nk as u64) as usize;
            let scripts: Vec<Vec<usize>> = (0..n_threads)
                .map(|_| (0..rng.urange(1, 3)).map(|_| if same { k0 } else { rng.below(nk as u64) as usize }).collect())
                .collect();
            let strategy = rng.below(2) as u32;
            let shared = Arc::new(Shared {
                m: Mutex::new(Sched {
                    threads: Vec::new(),
                    current: None,
                    rng: rng.fork(),
                    prio: (0..n_threads).map(|_| 1 + rng.below(1000) as u32).collect(),
                    change_points: {
                        let mut v: Vec<u64> = (0..3).map(|_| rng.below(60)).collect();
                        v.sort();
                        v
                    },
                    strategy,
                    steps: 0,
                    choices: Vec::new(),
                    context_switches: 0,
                    switches_inside_rendering: 0,
                    deadlock: None,
                    open: HashMap::new(),
                    overlap: None,
                    render_counts: HashMap::new(),
                    rendering_frames: 0,
                    trace: Vec::new(),
                    states_seen: Default::default(),
                    frame_state: HashMap::new(),
                    last_event: std::time::Instant::now(),
                }),
                cv: Condvar::new(),
            });
            let results: Arc<Mutex<Vec<(usize, usize, Result<Vec<Vec<u32>>, String>)>>> = Arc::new(Mutex::new(Vec::new()));
            let image = Arc::new(image);
            let sh2 = shared.clone();
            set_hook(Some(Arc::new(move |e: &Event| sh2.on_event(e))));
            // register threads before they start: spawn, let each register, then start the baton
            let start = Arc::new((Mutex::new(0usize), Condvar::new()));
            let mut handles = Vec::new();
            for (ti, script) in scripts.iter().cloned().enumerate() {
                let (sh, img, res, st) = (shared.clone(), image.clone(), results.clone(), start.clone());
                handles.push(std::thread::spawn(move || {
                    {
                        let mut s = sh.m.lock().unwrap();
                        // registration order defines thread indices; wait for our slot
                        while s.threads.len() != ti {
                            drop(s);
                            std::thread::yield_now();
                            s = sh.m.lock().unwrap();
                        }
                        s.threads.push((std::thread::current().id(), TState::Runnable));
                    }
                    {
                        let (m, cv) = &*st;
                        let mut g = m.lock().unwrap();
                        *g += 1;
                        cv.notify_all();
                    }
                    // wait for the baton
                    {
                        let mut s = sh.m.lock().unwrap();
                        while s.current != Some(ti) && s.deadlock.is_none() {
                            s = sh.cv.wait(s).unwrap();
                        }
                    }
                    for &k in &script {
                        let r = std::panic::catch_unwind(std::panic::AssertUnwindSafe(|| planes_bits(&img, k)));
                        sh.api_return(ti);
                        let r = match r {
                            Ok(r) => r,
                            Err(_) => {
                                let p = take_panic().unwrap_or(("?".into(), "?".into()));
                                Err(format!("PANIC at {}: {}", p.0, p.1))
                            }
                        };
                        res.lock().unwrap().push((ti, k, r));
                    }
                    sh.finish(ti);
                }));
            }
            {
                let (m, cv) = &*start;
                let mut g = m.lock().unwrap();
                while *g < n_threads {
                    g = cv.wait(g).unwrap();
                }
            }
            // hand out the baton
            {
                let mut s = shared.m.lock().unwrap();
                if let Some(n) = s.choose() {
                    s.threads[n].1 = TState::Running;
                    s.current = Some(n);
                }
                shared.cv.notify_all();
            }
            // controller: wait for completion, deadlock verdict or stall (inconclusive)
            let outcome = loop {
                {
                    let s = shared.m.lock().unwrap();
                    if s.deadlock.is_some() {
                        break "deadlock";
                    }
                    if s.unfinished() == 0 {
                        break "done";
                    }
                    if s.last_event.elapsed().as_secs_f64() > 30.0 {
                        break "stall";
                    }
                }
                std::thread::sleep(std::time::Duration::from_micros(100));
            };
            let (choices, switches, inside, overlap, dl, trace, st_seen, counts) = {
                let s = shared.m.lock().unwrap();
                (s.choices.clone(), s.context_switches, s.switches_inside_rendering, s.overlap.clone(), s.deadlock.clone(), s.trace.clone(), s.states_seen.clone(), s.render_counts.clone())
            };
            if outcome == "done" {
                for h in handles {
                    let _ = h.join();
                }
            }
            set_hook(None);
            distinct.insert(fnv(&format!("{:?}{:?}", scripts, choices)));
            states.extend(st_seen);
            if inside > 0 {
                nontrivial = true;
            }
            case.obs("schedules", 1);
            case.obs("context_switches", switches);
            case.obs("switches_inside_rendering_window", inside);
            case.obs("render_executions", counts.values().map(|&v| v as u64).sum());
            let tail = |t: &Vec<String>| t[t.len().saturating_sub(60)..].to_vec();
            match outcome {
                "deadlock" => {
                    case.violation(
                        "deadlock",
                        format!("{}; scripts {:?} fault={with_fault} schedule #{sched_i} strategy {strategy}; trace tail {:?} [{}]", dl.unwrap_or_default(), scripts, tail(&trace), anim.desc),
                    );
                    return None;
                }
                "stall" => {
                    let st: Vec<String> = shared.m.lock().unwrap().threads.iter().enumerate().map(|(i, (_, st))| format!("T{i}:{st:?}")).collect();
                    return Some(format!("schedule #{sched_i} strategy {strategy} scripts {:?} fault={with_fault}: {} [{}]", scripts, st.join(" "), anim.desc));
                }
                _ => {}
            }
            if let Some(o) = overlap {
                case.violation("overlapping-renders", format!("{o}; scripts {:?}; trace tail {:?} [{}]", scripts, tail(&trace), anim.desc));
                return None;
            }
            // (A frame may legitimately be rendered again after a dependent frame consumed and
            // reset it; the property only forbids overlapping executions, checked above.)
            if let Some(m) = counts.values().max() {
                case.obs_set("max_executions_per_frame", m.to_string());
            }
            // (see c07.rs: FailedReference next to an IncompleteFrame of the same schedule is the secondary
            // symptom of the known reset race)
            let primary_seen = !with_fault && results.lock().unwrap().iter().any(|(_, _, r)| matches!(r, Err(e) if e.contains("frame data is incomplete")));
            for (ti, k, r) in results.lock().unwrap().iter() {
                match r {
                    Ok(b) => {
                        if *b != reference[*k] {
                            case.violation("result-differs", format!("caller {ti} keyframe {k}: picture differs from the single-caller render; scripts {:?} fault={with_fault}; trace tail {:?} [{}]", scripts, tail(&trace), anim.desc));
                            return None;
                        }
                        case.obs("ok_results", 1);
                    }
                    Err(e) if e.starts_with("PANIC") => {
                        case.violation("panic", format!("caller {ti} keyframe {k}: {e} [{}]", anim.desc));
                        return None;
                    }
                    Err(e) => {
                        if !with_fault {
                            let sig = if e.contains("frame data is incomplete") || (primary_seen && e.contains("reference frame failed to render")) { "spurious-error:IncompleteFrame" } else { "unexpected-error" };
                            case.violation(sig, format!("caller {ti} keyframe {k}: {e} without any injected fault; scripts {:?}; trace tail {:?} [{}]", scripts, tail(&trace), anim.desc));
                            return None;
                        }
                        case.obs("err_results_under_fault", 1);
                    }
                }
            }
        }
        case.obs("distinct_schedules", distinct.len() as u64);
        case.obs("distinct_protocol_states", states.len() as u64);
        let types: String = anim.frames.iter().map(|f| match f.fh.frame_type { jxlgen::headers::FrameType::Regular => 'R', jxlgen::headers::FrameType::ReferenceOnly => 'F', jxlgen::headers::FrameType::SkipProgressive => 'S', _ => 'L' }).collect();
        case.sig(format!("{types}|t{n_threads}|fault{}|k{}", with_fault as u8, nk.min(3)), nontrivial);
        case.sample(format!("{{\"anim\":{},\"threads\":{n_threads},\"fault\":{with_fault},\"schedules\":{schedules},\"distinct_schedules\":{},\"protocol_states\":{}}}", json_str(&anim.desc), distinct.len(), states.len()));
        None
    }
}
