//! C01 / C02 workload: hostile inputs driven through random scripts over the public decoding API.
//!
//! C01 oracle: every call returns Ok or Err - no panic (the worker's panic capture attributes
//! panics inside /repo), no abort (supervisor), no hang (watchdog in run.py + per-case budget).
//! C02 uses the same workload under sanitizers (the sanitizer is the oracle).

use crate::common::*;
use jxl_grid::AllocTracker;
use jxl_oxide::{CropInfo, InitializeResult, JxlImage, JxlThreadPool};
use jxlgen::rng::Rng;

thread_local! {
    static REGRESSIONS: Vec<Vec<u8>> = {
        let mut v = Vec::new();
        if let Ok(rd) = std::fs::read_dir("/repo/crates/jxl-oxide-tests/tests/fuzz_findings") {
            let mut names: Vec<_> = rd.filter_map(|e| e.ok()).map(|e| e.path()).filter(|p| p.extension().map_or(false, |x| x == "fuzz")).collect();
            names.sort();
            for p in names {
                if let Ok(b) = std::fs::read(&p) {
                    v.push(b);
                }
            }
        }
        if let Ok(b) = std::fs::read("/repo/crates/jxl-oxide-tests/tests/cms/cmyk_layers.jxl") {
            v.push(b);
        }
        v
    };
}

pub fn gen_input(rng: &mut Rng, valid_share: bool) -> (Vec<u8>, String) {
    let k = rng.below(100);
    let small_valid = |rng: &mut Rng| -> Option<(Vec<u8>, &'static str)> {
        match rng.below(6) {
            4 => jxlgen::vardct::random_vardct_jpeg_image(rng, 96).map(|(b, _)| (b, "vardct-jbrd")),
            5 => jxlgen::hostile::preview_carrier_modular(rng).map(|b| (b, "preview")),
            0 | 1 => {
                let opts = jxlgen::imggen::ImgOpts { size_class: *rng.pick(&[0u32, 1, 1, 2]), max_dim: 200, ..Default::default() };
                jxlgen::imggen::gen_modular_image(rng, &opts).map(|i| (i.bytes, "modular"))
            }
            2 => {
                let opts = jxlgen::anim::AnimOpts { max_frames: 5, max_dim: 32, ..Default::default() };
                jxlgen::anim::gen_animation(rng, &opts).map(|a| (a.bytes, "anim"))
            }
            _ => {
                let opts = jxlgen::imggen::ImgOpts { size_class: 1, max_dim: 64, ..Default::default() };
                let i = jxlgen::imggen::gen_modular_image(rng, &opts)?;
                let (f, _) = jxlgen::container::wrap_codestream(&i.bytes, rng, &Default::default());
                Some((f, "container"))
            }
        }
    };
    if valid_share && k < 15 {
        if let Some((b, c)) = small_valid(rng) {
            return (b, format!("valid-{c}"));
        }
    }
    if k < 40 {
        // mutated valid stream
        if let Some((mut b, c)) = small_valid(rng) {
            let other = small_valid(rng).map(|x| x.0);
            let mut ops = Vec::new();
            for _ in 0..rng.urange(1, 3) {
                ops.push(jxlgen::hostile::mutate_bytes(rng, &mut b, other.as_deref()));
            }
            return (b, format!("mut-{c}-{}", ops[0]));
        }
    }
    if k < 55 {
        let n = REGRESSIONS.with(|r| r.len());
        if n > 0 {
            let mut b = REGRESSIONS.with(|r| r[rng.below(n as u64) as usize].clone());
            if b.len() > 200_000 {
                // the big fixture: mostly keep as is (slow), sometimes truncate
                if rng.bool() {
                    b.truncate(rng.urange(100, 20_000));
                }
            }
            let mut c = "regression".to_string();
            if rng.chance(2, 3) {
                c = format!("regression-{}", jxlgen::hostile::mutate_bytes(rng, &mut b, None));
            }
            return (b, c);
        }
    }
    if k < 62 {
        // arbitrary profile bytes (structured, broken tag tables, every short length, truncated real
        // profiles) carried by a well-formed ICC stream in an otherwise valid image
        let bad = rng.chance(1, 3);
        let (profile, pclass) = crate::c18::gen_profile(rng, false, bad);
        if profile.len() <= 70_000 {
            if let Some(b) = jxlgen::hostile::icc_carrier_modular(rng, &profile) {
                let fam = pclass.split(':').next().unwrap_or("").to_string();
                return (b, format!("icc-carrier-{fam}"));
            }
        }
    }
    if k < 70 {
        return (jxlgen::hostile::header_hostile(rng), "header-hostile".into());
    }
    if k < 85 {
        for _ in 0..10 {
            if let Some((b, d)) = jxlgen::hostile::value_hostile_modular(rng) {
                let kind = d.split(' ').nth(1).unwrap_or("").to_string();
                return (b, format!("value-hostile-{kind}"));
            }
        }
    }
    if k < 95 {
        return (jxlgen::hostile::modular_header_hostile(rng), "modular-header-hostile".into());
    }
    // container-level hostility around a valid or junk codestream
    let cs = small_valid(rng).map(|x| x.0).unwrap_or_else(|| vec![0xff, 0x0a, 0, 0]);
    let kinds = jxlgen::container::ALL_ILL;
    let ill = kinds[rng.below(kinds.len() as u64) as usize];
    let l = jxlgen::container::ill_formed_layout(ill, &cs, rng, &Default::default());
    (jxlgen::container::write_container(&l), "container-ill".into())
}

/// Outcome classes observed for the signature.
#[derive(Default)]
pub struct ScriptObs {
    /// panics caught around individual calls (location, message); the script continues
    pub panics: Vec<(String, String)>,
    pub initialized: bool,
    pub frames: usize,
    pub calls: u32,
    pub ok: u32,
    pub err: u32,
    pub first_err: Option<String>,
    pub rendered_ok: u32,
}

fn err_class(e: &str) -> String {
    // first few words, digits stripped
    e.chars().filter(|c| !c.is_ascii_digit()).collect::<String>().split_whitespace().take(4).collect::<Vec<_>>().join("_")
}

pub fn run_script(rng: &mut Rng, bytes: &[u8], pool: JxlThreadPool) -> ScriptObs {
    let mut o = ScriptObs::default();
    let tracker = AllocTracker::with_limit(128 << 20);
    let mut note = |o: &mut ScriptObs, ok: bool, e: Option<String>| {
        o.calls += 1;
        if ok {
            o.ok += 1;
        } else {
            o.err += 1;
            if o.first_err.is_none() {
                o.first_err = e.map(|s| err_class(&s));
            }
        }
    };
    // ---- open: whole-buffer read or chunked feed
    let mut image: JxlImage = if rng.bool() {
        match JxlImage::builder().pool(pool.clone()).alloc_tracker(tracker.clone()).read(std::io::Cursor::new(bytes)) {
            Ok(i) => {
                note(&mut o, true, None);
                i
            }
            Err(e) => {
                note(&mut o, false, Some(e.to_string()));
                return o;
            }
        }
    } else {
        let mut uninit = JxlImage::builder().pool(pool.clone()).alloc_tracker(tracker.clone()).build_uninit();
        let mut pos = 0usize;
        let mut pending: Vec<u8> = Vec::new();
        let chunk_style = rng.below(3);
        let mut image = None;
        loop {
            let n = match chunk_style {
                0 => 1,
                1 => rng.urange(1, 64),
                _ => rng.urange(1, 4096),
            }
            .max(bytes.len() / 48) // every try_init re-decodes the ICC from byte 0: keep big inputs at <= 48 attempts
            .min(bytes.len() - pos);
            pending.extend_from_slice(&bytes[pos..pos + n]);
            pos += n;
            match uninit.feed_bytes(&pending) {
                Ok(c) => {
                    pending.drain(..c.min(pending.len()));
                }
                Err(e) => {
                    note(&mut o, false, Some(e.to_string()));
                    return o;
                }
            }
            match uninit.try_init() {
                Ok(InitializeResult::NeedMoreData(u)) => uninit = u,
                Ok(InitializeResult::Initialized(i)) => {
                    image = Some(i);
                    break;
                }
                Err(e) => {
                    note(&mut o, false, Some(e.to_string()));
                    return o;
                }
            }
            if pos >= bytes.len() {
                break;
            }
        }
        let Some(mut image) = image else {
            note(&mut o, true, None);
            return o;
        };
        note(&mut o, true, None);
        // feed the rest, with queries and loading-frame renders in between
        while pos < bytes.len() {
            let n = rng.urange(1, 4096).min(bytes.len() - pos);
            pending.extend_from_slice(&bytes[pos..pos + n]);
            pos += n;
            match image.feed_bytes(&pending) {
                Ok(c) => {
                    pending.drain(..c.min(pending.len()));
                }
                Err(e) => {
                    note(&mut o, false, Some(e.to_string()));
                    break;
                }
            }
            if rng.chance(1, 6) {
                let small = image.image_header().size.width.max(image.image_header().size.height) <= 4096;
                if small {
                    let r = image.render_loading_frame();
                    note(&mut o, r.is_ok(), r.err().map(|e| e.to_string()));
                }
            }
        }
        let r = image.finalize();
        note(&mut o, r.is_ok(), r.err().map(|e| e.to_string()));
        image
    };
    o.initialized = true;
    o.frames = image.num_loaded_frames();
    let hdr_max = image.image_header().size.width.max(image.image_header().size.height);
    let can_render = hdr_max <= 4096;
    // ---- random calls
    let ncalls = rng.urange(3, 14);
    for _ in 0..ncalls {
        match rng.below(16) {
            0 | 1 | 2 | 3 => {
                if can_render && image.num_loaded_keyframes() > 0 {
                    let k = rng.below(image.num_loaded_keyframes() as u64) as usize;
                    match image.render_frame(k) {
                        Ok(r) => {
                            note(&mut o, true, None);
                            o.rendered_ok += 1;
                            match rng.below(6) {
                                0 => {
                                    let _ = r.image_all_channels();
                                }
                                1 => {
                                    let _ = r.image_planar();
                                }
                                2 => {
                                    let mut s = r.stream();
                                    let n = (s.width() as usize * s.height() as usize * s.channels() as usize).min(1 << 22);
                                    let mut buf = vec![0u8; n];
                                    let _ = s.write_to_buffer(&mut buf);
                                }
                                3 => {
                                    let mut s = r.stream_no_alpha();
                                    let n = (s.width() as usize * s.height() as usize * s.channels() as usize).min(1 << 22);
                                    let mut buf = vec![0u16; n];
                                    let _ = s.write_to_buffer(&mut buf);
                                }
                                4 => {
                                    let mut s = r.stream();
                                    let mut buf = vec![0f32; rng.urange(0, 1000)];
                                    while s.write_to_buffer(&mut buf) > 0 && !buf.is_empty() {}
                                }
                                _ => {
                                    let _ = (r.name().len(), r.duration(), r.orientation(), r.keyframe_index(), r.color_channels().len(), r.extra_channels().0.len());
                                }
                            }
                        }
                        Err(e) => note(&mut o, false, Some(e.to_string())),
                    }
                }
            }
            4 => {
                if can_render {
                    let r = image.render_loading_frame();
                    note(&mut o, r.is_ok(), r.err().map(|e| e.to_string()));
                }
            }
            5 => {
                let (w, h) = (image.width(), image.height());
                // rectangles inside the image only (C06's domain; requests outside the image are not among
                // the calls C01 lists)
                let region = if rng.below(3) == 0 || w == 0 || h == 0 {
                    CropInfo { left: 0, top: 0, width: w, height: h }
                } else {
                    let l = rng.below(w as u64) as u32;
                    let t = rng.below(h as u64) as u32;
                    CropInfo { left: l, top: t, width: rng.u32range(1, w - l), height: rng.u32range(1, h - t) }
                };
                // only small regions may be rendered afterwards
                if (region.width as u64) * (region.height as u64) <= 4096 * 4096 && region.left < (1 << 30) && region.top < (1 << 30) {
                    if std::env::var("C01_TRACE").is_ok() {
                        eprintln!("set_image_region {region:?} on {w}x{h}");
                    }
                    image.set_image_region(region);
                    note(&mut o, true, None);
                }
            }
            6 => {
                use jxl_oxide::color::{EnumColourEncoding, RenderingIntent};
                let ri = *rng.pick(&[RenderingIntent::Perceptual, RenderingIntent::Relative, RenderingIntent::Saturation, RenderingIntent::Absolute]);
                let enc = match rng.below(9) {
                    0 => EnumColourEncoding::srgb(ri),
                    1 => EnumColourEncoding::srgb_linear(ri),
                    2 => EnumColourEncoding::gray_srgb(ri),
                    3 => EnumColourEncoding::display_p3(ri),
                    4 => EnumColourEncoding::bt2100_pq(ri),
                    5 => EnumColourEncoding::bt2100_hlg(ri),
                    6 => EnumColourEncoding::srgb_gamma22(ri),
                    7 => EnumColourEncoding::dci_p3(ri),
                    _ => EnumColourEncoding::bt709(ri),
                };
                image.request_color_encoding(enc);
                note(&mut o, true, None);
            }
            7 => {
                let ricc = match guarded(|| image.rendered_icc()) {
                    Ok(v) => v,
                    Err(p) => {
                        o.panics.push(p);
                        Vec::new()
                    }
                };
                let icc: Vec<u8> = match rng.below(4) {
                    0 => ricc,
                    1 => {
                        let mut v = ricc;
                        jxlgen::hostile::mutate_bytes(rng, &mut v, None);
                        v
                    }
                    2 => (0..rng.urange(0, 300)).map(|_| rng.next_u32() as u8).collect(),
                    _ => {
                        let bad = rng.chance(1, 3);
                        crate::c18::gen_profile(rng, false, bad).0
                    }
                };
                let r = image.request_icc(&icc);
                note(&mut o, r.is_ok(), r.err().map(|e| e.to_string()));
            }
            8 => {
                if let Err(p) = guarded(|| image.rendered_icc()) {
                    o.panics.push(p);
                }
                let _ = image.rendered_cicp();
                let _ = image.pixel_format();
                let _ = image.hdr_type();
                let _ = image.original_icc().map(|x| x.len());
                note(&mut o, true, None);
            }
            9 => {
                let _ = (image.width(), image.height(), image.num_loaded_frames(), image.num_loaded_keyframes(), image.is_loading_done());
                let i = rng.below(4) as usize;
                let _ = image.frame(i).map(|f| (f.header().width, f.toc().total_byte_size()));
                let _ = image.frame_header(i).map(|h| h.is_keyframe());
                let _ = image.frame_offset(i);
                let _ = image.frame_by_keyframe(i).map(|f| f.header().duration);
                let _ = format!("{:?}", image.image_header().metadata.colour_encoding);
                note(&mut o, true, None);
            }
            10 => {
                let r = image.aux_boxes().first_exif();
                let ok = r.is_ok();
                if let Ok(d) = r {
                    let _ = d.map(|x| (x.tiff_header_offset(), x.payload().len()));
                }
                let _ = image.aux_boxes().first_xml().map(|x| x.len());
                note(&mut o, ok, None);
            }
            11 | 12 => {
                let st = image.jpeg_reconstruction_status();
                let _ = format!("{st:?}");
                let mut out = Vec::new();
                let r = image.reconstruct_jpeg(&mut out);
                note(&mut o, r.is_ok(), r.err().map(|e| e.to_string()));
            }
            13 => {
                image.set_render_spot_color(rng.bool());
                let _ = image.render_spot_color();
                note(&mut o, true, None);
            }
            14 => {
                let _ = image.current_image_region();
                let r = image.feed_bytes(&[]);
                note(&mut o, r.is_ok(), r.err().map(|e| e.to_string()));
            }
            _ => {
                let r = image.finalize();
                note(&mut o, r.is_ok(), r.err().map(|e| e.to_string()));
            }
        }
    }
    drop(image);
    o
}

pub fn run(args: &Args) -> i32 {
    let sanitizer_mode = args.prop == "c02";
    run_cases(args, if sanitizer_mode { 0xC02 } else { 0xC01 }, |case| {
        let mut rng = case.rng.fork();
        let (bytes, class) = gen_input(&mut rng, sanitizer_mode);
        case.set_input(&bytes);
        let pool = if rng.chance(1, 5) { JxlThreadPool::rayon(Some(2)) } else { JxlThreadPool::none() };
        let t0 = std::time::Instant::now();
        let o = run_script(&mut rng, &bytes, pool);
        let dt = t0.elapsed().as_secs_f64();
        for (loc, msg) in &o.panics {
            if sanitizer_mode {
                case.obs("decoder_panics_not_judged_here", 1);
                continue;
            }
            case.violation(format!("panic@{}", loc.trim_start_matches("/repo/")), format!("panic at {loc}: {msg} (input class {class})"));
        }
        if dt > 10.0 {
            case.obs("slow_cases_over_10s", 1);
        }
        case.obs("api_calls", o.calls as u64);
        case.obs("api_ok", o.ok as u64);
        case.obs("api_err", o.err as u64);
        case.obs("renders_ok", o.rendered_ok as u64);
        if o.initialized {
            case.obs("initialized", 1);
        }
        let outcome = if !o.initialized { "no-init" } else if o.rendered_ok > 0 { "rendered" } else { "init-only" };
        case.sig(format!("{class}|{outcome}|{}", o.first_err.clone().unwrap_or_else(|| "no-error".into())), o.initialized && o.frames > 0);
        case.sample(format!("{{\"class\":{},\"bytes\":{},\"initialized\":{},\"frames\":{},\"calls\":{},\"ok\":{},\"err\":{},\"first_error\":{}}}", json_str(&class), bytes.len(), o.initialized, o.frames, o.calls, o.ok, o.err, json_str(&o.first_err.unwrap_or_default())));
    })
}
