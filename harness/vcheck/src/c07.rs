//! C07: output does not depend on threads, scheduling or repetition.

use crate::common::*;
use jxl_oxide::{JxlImage, JxlThreadPool};
use std::collections::HashMap;
use std::sync::{Arc, Mutex};

thread_local! {
    static POOLS: std::cell::RefCell<HashMap<usize, JxlThreadPool>> = std::cell::RefCell::new(HashMap::new());
}

fn pool_of(n: usize) -> JxlThreadPool {
    if n == 0 {
        return JxlThreadPool::none();
    }
    POOLS.with(|p| p.borrow_mut().entry(n).or_insert_with(|| JxlThreadPool::rayon(Some(n))).clone())
}

type Planes = Vec<Vec<u32>>;

fn render_all(image: &JxlImage) -> Vec<Result<Planes, String>> {
    (0..image.num_loaded_keyframes())
        .map(|k| match image.render_frame(k) {
            Ok(r) => Ok(r.image_planar().iter().map(|fb| fb.buf().iter().map(|v| v.to_bits()).collect()).collect()),
            Err(e) => Err(format!("{e}")),
        })
        .collect()
}

fn open(bytes: &[u8], pool: JxlThreadPool) -> Result<JxlImage, String> {
    JxlImage::builder().pool(pool).read(std::io::Cursor::new(bytes)).map_err(|e| format!("{e}"))
}

fn class(r: &Result<Planes, String>) -> &'static str {
    if r.is_ok() {
        "ok"
    } else {
        "err"
    }
}

fn same(a: &[Result<Planes, String>], b: &[Result<Planes, String>]) -> Result<(), String> {
    if a.len() != b.len() {
        return Err(format!("{} vs {} keyframes", a.len(), b.len()));
    }
    for (k, (x, y)) in a.iter().zip(b).enumerate() {
        match (x, y) {
            (Ok(p), Ok(q)) => {
                if p != q {
                    let c = p.iter().zip(q).position(|(u, v)| u != v).unwrap_or(0);
                    let i = p[c].iter().zip(&q[c]).position(|(u, v)| u != v).unwrap_or(0);
                    return Err(format!("keyframe {k} channel {c} sample {i}: {:#x} vs {:#x}", p[c].get(i).copied().unwrap_or(0), q[c].get(i).copied().unwrap_or(0)));
                }
            }
            (Err(_), Err(_)) => {}
            _ => return Err(format!("keyframe {k}: success/failure differs ({} vs {})", class(x), class(y))),
        }
    }
    Ok(())
}

pub fn run(args: &Args) -> i32 {
    let thorough = args.thorough();
    run_cases(args, 0xC07, |case| {
        let mut rng = case.rng.fork();
        // workload
        let kind = rng.below(30);
        let (mut bytes, desc, wclass) = if kind < 12 {
            let opts = jxlgen::imggen::ImgOpts { size_class: *rng.pick(&[2u32, 3, 3, 1]), max_dim: if thorough { 700 } else { 400 }, group_size_shift: Some(0), ..Default::default() };
            let mut g = None;
            for _ in 0..20 {
                if let Some(i) = jxlgen::imggen::gen_modular_image(&mut rng, &opts) {
                    g = Some(i);
                    break;
                }
            }
            let Some(i) = g else {
                case.inconclusive("generator gave up");
                return;
            };
            let multi = i.fh.num_groups() > 1;
            (i.bytes.clone(), format!("{} | {}", i.desc, i.enc_desc), if multi { "modular-multigroup" } else { "modular-1group" })
        } else if kind < 22 {
            // feature frames (restoration filters, upsampling, noise, patches, YCbCr; multi-frame with
            // filters) from the region checker's generator: full renders only
            let mut g = None;
            for _ in 0..20 {
                let r = if rng.chance(1, 4) { crate::c06::gen_multi(&mut rng, 400, &Default::default()) } else { crate::c06::gen_single(&mut rng, if thorough { 700 } else { 520 }, &Default::default()) };
                if let Some(i) = r {
                    g = Some(i);
                    break;
                }
            }
            let Some(i) = g else {
                case.inconclusive("generator gave up");
                return;
            };
            let noise = i.feat.contains("noise");
            (i.bytes.clone(), i.desc.clone(), if noise { "features-noise" } else { "features" })
        } else if kind < 25 {
            // VarDCT frame (transcoded random JPEG, multi-group when large enough)
            let Some((b, spec)) = crate::c17::valid_vardct_image(&mut rng, if thorough { 900 } else { 600 }) else {
                case.inconclusive("generator gave up");
                return;
            };
            let multi = spec.width > 256 || spec.height > 256;
            (b, format!("VarDCT JPEG transcode {}x{} [{}]", spec.width, spec.height, spec.class), if multi { "vardct-multigroup" } else { "vardct-1group" })
        } else if kind < 29 {
            let opts = jxlgen::anim::AnimOpts { max_frames: 6, max_dim: if rng.chance(1, 3) { 300 } else { 48 }, multi_group: true, ..Default::default() };
            let mut g = None;
            for _ in 0..20 {
                if let Some(a) = jxlgen::anim::gen_animation(&mut rng, &opts) {
                    g = Some(a);
                    break;
                }
            }
            let Some(a) = g else {
                case.inconclusive("generator gave up");
                return;
            };
            (a.bytes.clone(), a.desc.clone(), "anim")
        } else {
            let b = std::fs::read("/repo/crates/jxl-oxide-tests/tests/cms/cmyk_layers.jxl").unwrap_or_default();
            (b, "cmyk_layers.jxl (real multi-frame Modular fixture)".to_string(), "fixture-layers")
        };
        let hostile = wclass != "fixture-layers" && !wclass.starts_with("vardct") && rng.chance(1, 6);
        if hostile {
            for _ in 0..rng.urange(1, 4) {
                let i = rng.below(bytes.len() as u64) as usize;
                bytes[i] ^= 1 << rng.below(8);
            }
        }
        case.set_input(&bytes);
        // baseline: no pool, no permutation
        jxl_threadpool::verif::set_job_order_seed(0);
        let base_img = match open(&bytes, pool_of(0)) {
            Ok(i) => i,
            Err(e) => {
                if hostile {
                    // must fail the same way everywhere
                    for n in [2usize, 4] {
                        if open(&bytes, pool_of(n)).is_ok() {
                            case.violation("open-class-differs", format!("open fails without pool ({e}) but succeeds with {n} threads [{desc}]"));
                            return;
                        }
                    }
                    case.sig(format!("{wclass}|hostile-open-err"), false);
                    return;
                }
                case.violation("open-err", format!("{e} [{desc}]"));
                return;
            }
        };
        let base = render_all(&base_img);
        let mut configs_seen = Vec::new();
        // 1. repeated render on the same object
        let again = render_all(&base_img);
        if let Err(e) = same(&base, &again) {
            case.violation("repeat-differs", format!("second render on the same object differs: {e} [{desc}]"));
            return;
        }
        configs_seen.push("repeat".to_string());
        // 2. pool sizes
        let sizes: Vec<usize> = if thorough { vec![1, 2, 3, 4, 8, 16] } else { vec![*rng.pick(&[1usize, 2, 3]), *rng.pick(&[4usize, 8, 16])] };
        for &n in &sizes {
            let r = match open(&bytes, pool_of(n)) {
                Ok(i) => render_all(&i),
                Err(e) => {
                    case.violation("open-class-differs", format!("open fails with {n} threads: {e} [{desc}]"));
                    return;
                }
            };
            if let Err(e) = same(&base, &r) {
                case.violation("pool-size-differs", format!("rayon({n}) vs no pool: {e} [{desc}]"));
                return;
            }
            configs_seen.push(format!("rayon{n}"));
        }
        // 3. job-order permutations (hook H4): legal alternative schedules, deterministic
        let nperm = if thorough { 8 } else { 3 };
        for p in 0..nperm {
            let seed = rng.next_u64() | 1;
            jxl_threadpool::verif::set_job_order_seed(seed);
            let n = if p % 2 == 0 { 0 } else { *rng.pick(&[2usize, 4]) };
            let r = match open(&bytes, pool_of(n)) {
                Ok(i) => render_all(&i),
                Err(e) => {
                    jxl_threadpool::verif::set_job_order_seed(0);
                    case.violation("open-class-differs", format!("open fails under job permutation: {e} [{desc}]"));
                    return;
                }
            };
            let permuted = jxl_threadpool::verif::permuted_calls();
            jxl_threadpool::verif::set_job_order_seed(0);
            case.obs("permuted_for_each_calls", permuted);
            if let Err(e) = same(&base, &r) {
                case.violation("job-order-differs", format!("job order permutation seed {seed:#x} pool {n}: {e} [{desc}]"));
                return;
            }
            configs_seen.push(format!("perm-pool{n}"));
        }
        // 4. concurrent callers on one image (rayon pool)
        let callers = rng.urange(2, if thorough { 6 } else { 4 });
        let n = *rng.pick(&[2usize, 4]);
        match open(&bytes, pool_of(n)) {
            Ok(img) => {
                let img = Arc::new(img);
                let nk = img.num_loaded_keyframes();
                let results: Arc<Mutex<Vec<(usize, Result<Planes, String>)>>> = Arc::new(Mutex::new(Vec::new()));
                let mut hs = Vec::new();
                for c in 0..callers {
                    let (img, results) = (img.clone(), results.clone());
                    let ks: Vec<usize> = (0..rng.urange(1, 3)).map(|_| if nk == 0 { 0 } else { rng.below(nk as u64) as usize }).collect();
                    hs.push(std::thread::spawn(move || {
                        for k in ks {
                            if k >= img.num_loaded_keyframes() {
                                continue;
                            }
                            let r = match img.render_frame(k) {
                                Ok(r) => Ok(r.image_planar().iter().map(|fb| fb.buf().iter().map(|v| v.to_bits()).collect()).collect()),
                                Err(e) => Err(format!("{e}")),
                            };
                            results.lock().unwrap().push((k, r));
                        }
                        let _ = c;
                    }));
                }
                for h in hs {
                    if h.join().is_err() {
                        let p = take_panic().unwrap_or(("?".into(), "?".into()));
                        case.violation(format!("panic@{}", p.0.trim_start_matches("/repo/")), format!("concurrent caller panicked at {}: {} [{desc}]", p.0, p.1));
                        return;
                    }
                }
                // The known reset race shows up as IncompleteFrame for one caller and, as a consequence
                // (the frame's handle is left ErrTaken), as FailedReference for others of the same batch:
                // when the primary symptom is present, the batch is reported under its signature.
                let primary_seen = results.lock().unwrap().iter().any(|(k, r)| matches!((r, &base[*k]), (Err(e), Ok(_)) if e.contains("frame data is incomplete")));
                for (k, r) in results.lock().unwrap().iter() {
                    match (r, &base[*k]) {
                        (Ok(p), Ok(q)) => {
                            if p != q {
                                case.violation("concurrent-differs", format!("keyframe {k} rendered by a concurrent caller differs from the single-thread render [{desc}]"));
                                return;
                            }
                        }
                        (Err(_), Err(_)) => {}
                        (Err(e), Ok(_)) => {
                            // a known race (C20 known finding) can give a spurious IncompleteFrame
                            let sig = if e.contains("frame data is incomplete") || (primary_seen && e.contains("reference frame failed to render")) { "spurious-error:IncompleteFrame" } else { "concurrent-class-differs" };
                            case.violation(sig, format!("keyframe {k}: concurrent caller got Err({e}) but the single-thread render succeeds [{desc}]"));
                            return;
                        }
                        (Ok(_), Err(e)) => {
                            case.violation("concurrent-class-differs", format!("keyframe {k}: concurrent caller succeeded but single-thread render fails ({e}) [{desc}]"));
                            return;
                        }
                    }
                }
                configs_seen.push(format!("concurrent{callers}"));
                case.obs("concurrent_caller_renders", results.lock().unwrap().len() as u64);
            }
            Err(e) => {
                case.violation("open-class-differs", format!("open fails with {n} threads: {e} [{desc}]"));
                return;
            }
        }
        case.obs("configs_compared", configs_seen.len() as u64);
        for c in &configs_seen {
            case.obs_set("configs", c.clone());
        }
        let oks = base.iter().filter(|r| r.is_ok()).count();
        case.sig(format!("{wclass}|{}|k{}|ok{}", if hostile { "mutated" } else { "valid" }, base.len().min(4), oks.min(4)), !base.is_empty());
        case.sample(format!("{{\"workload\":{},\"keyframes\":{},\"configs\":{}}}", json_str(&desc), base.len(), json_str(&configs_seen.join(","))));
    })
}
