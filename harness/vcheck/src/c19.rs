//! C19: colour descriptions round-trip, transfer curves invert, identity conversion is a no-op.
//!
//! One worker, three sub-checks chosen per case by the case rng (`--sub a|b|c` forces one):
//!
//! (a) synthesise -> parse.  An `EnumColourEncoding` (RGB / Grey; D65, E, DCI, custom white points;
//!     sRGB, BT.2100, P3, custom primaries; every named transfer function, Gamma in both forms over
//!     the whole 24-bit field; 4 intents) is, in a third of the cases, first pushed through the
//!     codestream field coding (own bit writer -> `ColourEncoding::parse`, must reproduce the
//!     struct and consume exactly the written bits; a second parse with custom xy over the whole
//!     encodable range +-2^21 checks the field coding alone), then
//!     `colour_encoding_to_icc` -> `ColorEncodingWithProfile::with_icc`.  Oracle: result is `Enum`
//!     with the same colour space and intent; named white point / primaries / tf come back as the
//!     same name; custom chromaticities within 1e-4; gamma within 1e-4 relative.
//!     Decisions about "equivalent" (all by *value*, never by enum variant, when the input is custom):
//!       * a custom xy may come back as a named point; the parser snaps when the *recovered* value
//!         is < 1e-4 from a named point, so the allowed distance is 1e-4 + the xy tolerance;
//!       * Gamma is compared by its decode exponent E (`inverted` => 1e7/g, else g/1e7): the parser
//!         always answers in the non-inverted form; E within tolerance of 1 may come back Linear;
//!       * Dci is the pure power 2.6 and ICC has no name for it: Gamma(2.6 +- 1e-4 rel) is accepted
//!         (counted in obs `a_dci_as_gamma`);
//!       * Grey: the primaries field is meaningless and must come back as the default (Srgb).
//!     What an ICC v4 profile can carry: every number is s15Fixed16.  For each case an f64 model
//!     (CIE xy -> XYZ, linear Bradford to D50, RGB->XYZ normalised to the white) yields the
//!     first-order worst-case xy error of an exact-arithmetic synthesiser+parser under half-LSB
//!     rounding, plus an f32 term (2e-6 x the largest intermediate magnitude).  The xy tolerance is
//!     max(1e-4, 3 x that bound): 1e-4 exactly as the property says wherever the format can do it
//!     (obs `a_xy_strict_1e-4`), wider where s15Fixed16 cannot (`a_xy_format_limited`; measured
//!     worst error/bound on the pinned tree: 1.44 over 1.4e5 cases, i.e. 2x margin), and
//!     inconclusive when the tolerance would exceed 5e-3 or a stored number leaves the s15Fixed16
//!     range (tiny y, needle triangles).  Auxiliary: chad / rXYZ / gXYZ / bXYZ are compared with the
//!     model (few LSB), because a wrong adaptation or RGB->XYZ matrix cancels in the round trip.
//!
//! (b) transfer functions.  `tf` is private, so everything goes through `ColorTransform` between
//!     {cs, D65, sRGB primaries, tf X} and the same with Linear (a single TransferFunction op; only
//!     intensity targets <= 255 avoid tone mapping on the way to Linear, HDR targets are used for
//!     encode-only runs).  Sorted ramps (nominal, -0.1..1.2, tiny/denormal, consecutive floats,
//!     around the breakpoints of the definitions, k/(2^b-1) grids), row lengths 1..67 (+ some up to
//!     700) so that AVX2 / 4-lane / scalar tails are all exercised, three different planes for RGB.
//!     Oracle: each step against the f64 *definition* (IEC 61966-2-1, BT.709, ST 2084, BT.2100 HLG
//!     incl. the extended system gamma, pure power laws), finite on the nominal range, monotone
//!     non-decreasing on sorted inputs (up to a dip tolerance), encode->decode (and
//!     decode->encode) round trip measured in linear light.  Tolerances: see `b_tolerances`.
//!
//! (c) identity.  from == to as the same enum value / as what the encoding's own synthesised
//!     profile parses to / as the same ICC-only profile: `is_noop()`, channel counts, and `run`
//!     leaves random planes (incl. NaN/inf/denormal bit patterns) bit-identical.
//!     Not covered here: `JxlImage::request_color_encoding(same)` end to end (needs a codestream
//!     writer); in jxl-render that path returns the grid untouched iff `is_noop()`.
//!
//! Known deviations of the pinned decoder (all found by this checker, all reported as violations
//! by default; `--allow name,name|all` downgrades them to inconclusive so that the rest of the
//! check stays usable):
//!   hdr-icc       PQ / HLG never parse back: `detect_profile_info` reads the cicp payload from
//!                 bytes 0..4 of the tag (the 'cicp' signature) instead of 8..12, and the 4096-entry
//!                 `curv` is not a recognised TRC, so `with_icc` falls back to ICC-only.
//!   gamma-sub1    decode exponent < 1 (codestream gamma > 1e7; libjxl rejects those headers,
//!                 jxl-oxide accepts them): `para` g < 1.0 is discarded -> ICC-only.
//!   gamma-huge    decode exponent > 429.4967 (codestream gamma < 23284; libjxl accepts >= 1221):
//!                 `g_1e7 as u32` truncates -> silently wrong gamma (or ICC-only / garbage below 306).
//!   gamma-zero    codestream gamma 0: `colour_encoding_to_icc` divides by zero (panic).
//!   grey-hlg      Grey + HLG: `apply_(inverse_)transfer_function` hits `panic!()` (needs 3 planes).
//!   hlg-black     HLG OOTF at luminance 0: 0^(negative) * 0 = NaN (decode for targets < ~301 nits,
//!                 encode for targets > 305 nits).
//!   pow-underflow `fast_pow2f` builds the exponent bits without clamping: results below 2^-126
//!                 come out as huge negative numbers (Gamma with decode exponent > 5.4 just above
//!                 the 1e-7 flush threshold).
//!   pq-dark       `linear_to_pq` selects the small-value polynomial by `a < 1e-4` on the *unscaled*
//!                 sample; for intensity targets < 10000 the large-value polynomial is used outside
//!                 its fitted range: up to 8.8e-4 (target 80) / 3.8e-4 (255) off ST 2084, with a jump.
#![allow(dead_code)]
use crate::common::*;
use jxl_color::icc::colour_encoding_to_icc;
use jxl_color::{
    ColorEncodingWithProfile, ColorTransform, ColourEncoding, ColourSpace, Customxy,
    EnumColourEncoding, NullCms, OpsinInverseMatrix, Primaries, RenderingIntent, ToneMapping,
    TransferFunction, WhitePoint,
};
use jxl_oxide_common::{Bundle, BundleDefault};
use jxlgen::bits::{pack_signed, BitWriter, D};
use jxlgen::rng::Rng;

const SALT: u64 = 0xC19C_0105_EED5;

// ---------------------------------------------------------------------------------------------
// f64 reference colorimetry (from the definitions: CIE xy -> XYZ, Bradford/von-Kries adaptation,
// RGB->XYZ matrix normalised to the white point)
// ---------------------------------------------------------------------------------------------
type M3 = [[f64; 3]; 3];

fn m_mul(a: &M3, b: &M3) -> M3 {
    let mut o = [[0.0; 3]; 3];
    for i in 0..3 {
        for j in 0..3 {
            o[i][j] = a[i][0] * b[0][j] + a[i][1] * b[1][j] + a[i][2] * b[2][j];
        }
    }
    o
}
fn m_vec(a: &M3, v: &[f64; 3]) -> [f64; 3] {
    [
        a[0][0] * v[0] + a[0][1] * v[1] + a[0][2] * v[2],
        a[1][0] * v[0] + a[1][1] * v[1] + a[1][2] * v[2],
        a[2][0] * v[0] + a[2][1] * v[1] + a[2][2] * v[2],
    ]
}
fn m_det(m: &M3) -> f64 {
    m[0][0] * (m[1][1] * m[2][2] - m[1][2] * m[2][1]) - m[0][1] * (m[1][0] * m[2][2] - m[1][2] * m[2][0])
        + m[0][2] * (m[1][0] * m[2][1] - m[1][1] * m[2][0])
}
fn m_inv(m: &M3) -> M3 {
    let d = m_det(m);
    let c = |a: usize, b: usize, c: usize, e: usize| m[a][b] * m[c][e];
    [
        [
            (c(1, 1, 2, 2) - c(1, 2, 2, 1)) / d,
            (c(0, 2, 2, 1) - c(0, 1, 2, 2)) / d,
            (c(0, 1, 1, 2) - c(0, 2, 1, 1)) / d,
        ],
        [
            (c(1, 2, 2, 0) - c(1, 0, 2, 2)) / d,
            (c(0, 0, 2, 2) - c(0, 2, 2, 0)) / d,
            (c(0, 2, 1, 0) - c(0, 0, 1, 2)) / d,
        ],
        [
            (c(1, 0, 2, 1) - c(1, 1, 2, 0)) / d,
            (c(0, 1, 2, 0) - c(0, 0, 2, 1)) / d,
            (c(0, 0, 1, 1) - c(0, 1, 1, 0)) / d,
        ],
    ]
}
fn xy_to_xyz(xy: [f64; 2]) -> [f64; 3] {
    [xy[0] / xy[1], 1.0, (1.0 - xy[0] - xy[1]) / xy[1]]
}
const BRADFORD: M3 = [[0.8951, 0.2664, -0.1614], [-0.7502, 1.7135, 0.0367], [0.0389, -0.0685, 1.0296]];
/// ICC PCS illuminant (D50) X=0.9642 Y=1 Z=0.8249
const D50_XYZ: [f64; 3] = [0.9642, 1.0, 0.8249];

/// linear Bradford adaptation (ICC.1:2010 annex E) from the white `src_xy` to the white `dst`
fn adapt_to(src_xy: [f64; 2], dst: [f64; 3]) -> M3 {
    let s = m_vec(&BRADFORD, &xy_to_xyz(src_xy));
    let d = m_vec(&BRADFORD, &dst);
    let mut scaled = BRADFORD;
    for i in 0..3 {
        for j in 0..3 {
            scaled[i][j] *= d[i] / s[i];
        }
    }
    m_mul(&m_inv(&BRADFORD), &scaled)
}
/// columns = XYZ of R,G,B scaled so that R+G+B = white (Y=1)
fn prim_matrix(p: &[[f64; 2]; 3], wp: [f64; 2]) -> M3 {
    let mut m = [[0.0; 3]; 3];
    for j in 0..3 {
        m[0][j] = p[j][0];
        m[1][j] = p[j][1];
        m[2][j] = 1.0 - p[j][0] - p[j][1];
    }
    let s = m_vec(&m_inv(&m), &xy_to_xyz(wp));
    for i in 0..3 {
        for j in 0..3 {
            m[i][j] *= s[j];
        }
    }
    m
}

const QH: f64 = 1.0 / 131072.0; // half an s15Fixed16 step
/// ICC PCS D50 vs. the "classic" Bradford D50 that libjxl (and jxl-oxide, for byte compatibility
/// of the chad tag) adapts to.
const D50_CLASSIC: [f64; 3] = [0.96422, 1.0, 0.82521];

/// Conditioning of one RGB/grey encoding with respect to what an ICC v4 profile can carry.
struct Cond {
    /// all stored s15Fixed16 numbers are inside the representable range
    in_range: bool,
    /// largest magnitude among chad / colorant / white XYZ entries
    maxc: f64,
    /// first-order worst-case xy error (white point, primaries) caused by s15Fixed16 rounding in
    /// an exact-arithmetic implementation, with `qh` as per-entry rounding error
    bw: f64,
    bp: [f64; 3],
    /// the encoding is an additive colour space in the physical sense: the white point is a
    /// positive mixture of the three primaries and has positive (Bradford) cone responses, so
    /// that von-Kries adaptation is defined. Outside of this, profiles with colorants whose
    /// X+Y+Z is 0 or negative arise, which the parser may reject outright.
    physical: bool,
}

fn cond_rgb(wp: [f64; 2], p: &[[f64; 2]; 3], f32k: f64) -> Cond {
    let a = adapt_to(wp, D50_XYZ);
    let ainv = m_inv(&a);
    let pm = prim_matrix(p, wp);
    let c = m_mul(&a, &pm);
    let w = xy_to_xyz(wp);
    let mut maxc: f64 = 0.0;
    {
        // size of the terms that are summed (and cancel) when the implementation solves
        // M s = W for the primary scale factors in f32: sum_k |M^-1_ik| |W_k| * |M_ij|
        let mut m = [[0.0; 3]; 3];
        for j in 0..3 {
            m[0][j] = p[j][0];
            m[1][j] = p[j][1];
            m[2][j] = 1.0 - p[j][0] - p[j][1];
        }
        let mi = m_inv(&m);
        for j in 0..3 {
            let t = mi[j][0].abs() * w[0].abs() + mi[j][1].abs() * w[1].abs() + mi[j][2].abs() * w[2].abs();
            let cm = a.iter().map(|r| r[0].abs().max(r[1].abs()).max(r[2].abs())).fold(0.0, f64::max);
            maxc = maxc.max(t * cm);
        }
    }
    for i in 0..3 {
        maxc = maxc.max(w[i].abs());
        for j in 0..3 {
            maxc = maxc.max(a[i][j].abs()).max(c[i][j].abs()).max(pm[i][j].abs());
        }
    }
    let qh = QH + maxc * f32k;
    // recovered column v' = v + Ainv (dc - dA v), |dc - dA v|_inf <= qh (1 + |v|_1);
    // x' = X'/(X'+Y'+Z')  =>  dx = sum_i ([i==X] - x) d_i / S   (first order)
    let rs: [f64; 3] = [0, 1, 2].map(|i: usize| ainv[i][0].abs() + ainv[i][1].abs() + ainv[i][2].abs());
    let one = |v: [f64; 3], xy: [f64; 2]| -> f64 {
        let l1 = v[0].abs() + v[1].abs() + v[2].abs();
        let s = (v[0] + v[1] + v[2]).abs();
        let d: [f64; 3] = [0, 1, 2].map(|i: usize| rs[i] * qh * (1.0 + l1));
        let (x, y) = (xy[0], xy[1]);
        let bx = (1.0 - x).abs() * d[0] + x.abs() * (d[1] + d[2]);
        let by = (1.0 - y).abs() * d[1] + y.abs() * (d[0] + d[2]);
        bx.max(by) / s
    };
    let fix = |x: f64| if x.is_finite() { x } else { f64::INFINITY };
    let bw = fix(one(w, wp));
    let mut bp = [0.0; 3];
    for j in 0..3 {
        bp[j] = fix(one([pm[0][j], pm[1][j], pm[2][j]], p[j]));
    }
    let lms = m_vec(&BRADFORD, &w);
    let mut physical = lms.iter().all(|v| *v > 1e-3);
    for j in 0..3 {
        // luminance contributed by primary j
        if !(pm[1][j] > 1e-6) {
            physical = false;
        }
    }
    Cond { in_range: maxc.is_finite() && maxc < 32000.0, maxc, bw, bp, physical }
}

fn cond_grey(wp: [f64; 2], f32k: f64) -> Cond {
    let v = xy_to_xyz(wp);
    let maxc = v[0].abs().max(v[2].abs()).max(1.0);
    let s = (v[0] + v[1] + v[2]).abs();
    let m = wp[0].abs().max(wp[1].abs());
    let b = (QH + maxc * f32k) * (1.0 + 3.0 * m) / s;
    Cond {
        in_range: maxc.is_finite() && maxc < 32000.0,
        maxc,
        bw: if b.is_finite() { b } else { f64::INFINITY },
        bp: [0.0; 3],
        physical: true,
    }
}

// ---------------------------------------------------------------------------------------------
// named values (ISO/IEC 18181-1 colour encoding tables)
// ---------------------------------------------------------------------------------------------
const WP_D65: [f64; 2] = [0.3127, 0.3290];
const WP_E: [f64; 2] = [1.0 / 3.0, 1.0 / 3.0];
const WP_DCI: [f64; 2] = [0.314, 0.351];
const PR_SRGB: [[f64; 2]; 3] = [[0.639998686, 0.330010138], [0.300003784, 0.600003357], [0.150002046, 0.059997204]];
const PR_2100: [[f64; 2]; 3] = [[0.708, 0.292], [0.170, 0.797], [0.131, 0.046]];
const PR_P3: [[f64; 2]; 3] = [[0.680, 0.320], [0.265, 0.690], [0.150, 0.060]];

fn cxy(xy: Customxy) -> [f64; 2] {
    [xy.x as f64 / 1e6, xy.y as f64 / 1e6]
}
fn wp_xy(w: &WhitePoint) -> [f64; 2] {
    match w {
        WhitePoint::D65 => WP_D65,
        WhitePoint::E => WP_E,
        WhitePoint::Dci => WP_DCI,
        WhitePoint::Custom(c) => cxy(*c),
    }
}
fn pr_xy(p: &Primaries) -> [[f64; 2]; 3] {
    match p {
        Primaries::Srgb => PR_SRGB,
        Primaries::Bt2100 => PR_2100,
        Primaries::P3 => PR_P3,
        Primaries::Custom { red, green, blue } => [cxy(*red), cxy(*green), cxy(*blue)],
    }
}
fn mk(x: f64, y: f64) -> Customxy {
    Customxy { x: (x * 1e6).round() as i32, y: (y * 1e6).round() as i32 }
}

// ---------------------------------------------------------------------------------------------
// generators
// ---------------------------------------------------------------------------------------------
fn real_xy(rng: &mut Rng, ymin: f64) -> [f64; 2] {
    // uniform in the triangle x>=0, y>=ymin, x+y<=1
    loop {
        let x = rng.f64();
        let y = rng.f64();
        let (x, y) = if x + y > 1.0 { (1.0 - x, 1.0 - y) } else { (x, y) };
        if y >= ymin {
            return [x, y];
        }
    }
}

fn gen_wp(rng: &mut Rng) -> (WhitePoint, &'static str) {
    match rng.below(16) {
        0 | 1 | 2 => (WhitePoint::D65, "D65"),
        3 => (WhitePoint::E, "E"),
        4 => (WhitePoint::Dci, "DCI"),
        5 => {
            let b = *rng.pick(&[WP_D65, WP_E, WP_DCI]);
            (WhitePoint::Custom(mk(b[0], b[1])), "c-eqnamed")
        }
        6 | 7 => {
            // around the 1e-4 snapping distance of a named point
            let b = *rng.pick(&[WP_D65, WP_E, WP_DCI]);
            let r = *rng.pick(&[160i64, 160, 450]);
            let dx = rng.range(-r, r) as f64 * 1e-6;
            let dy = rng.range(-r, r) as f64 * 1e-6;
            (WhitePoint::Custom(mk(b[0] + dx, b[1] + dy)), "c-near")
        }
        8 | 9 | 10 => {
            // plausible illuminants (daylight / planckian neighbourhood, D50, D55, D75, A ...)
            let b = *rng.pick(&[[0.34567, 0.3585], [0.33242, 0.34743], [0.29902, 0.31485], [0.44757, 0.40745], [0.3101, 0.3162], [0.37208, 0.37529], [0.32168, 0.33767]]);
            let dx = rng.range(-30000, 30000) as f64 * 1e-6;
            let dy = rng.range(-30000, 30000) as f64 * 1e-6;
            (WhitePoint::Custom(mk(b[0] + dx, b[1] + dy)), "c-typ")
        }
        11 | 12 | 13 | 14 => {
            let p = real_xy(rng, 0.02);
            (WhitePoint::Custom(mk(p[0], p[1])), "c-wide")
        }
        _ => {
            // extremes of the real-colour triangle: tiny y, corners, edges
            let y = match rng.below(3) {
                0 => rng.range(1, 100) as f64 * 1e-6,
                1 => rng.range(100, 20000) as f64 * 1e-6,
                _ => 1.0 - rng.range(0, 20000) as f64 * 1e-6,
            };
            let x = match rng.below(3) {
                0 => 0.0,
                1 => (1.0 - y).max(0.0),
                _ => rng.f64() * (1.0 - y).max(0.0),
            };
            (WhitePoint::Custom(mk(x, y.max(1e-6))), "c-extreme")
        }
    }
}

fn tri_area(p: &[[f64; 2]; 3]) -> f64 {
    0.5 * ((p[1][0] - p[0][0]) * (p[2][1] - p[0][1]) - (p[2][0] - p[0][0]) * (p[1][1] - p[0][1]))
}

fn gen_primaries(rng: &mut Rng) -> (Primaries, &'static str) {
    let cust = |p: [[f64; 2]; 3]| Primaries::Custom { red: mk(p[0][0], p[0][1]), green: mk(p[1][0], p[1][1]), blue: mk(p[2][0], p[2][1]) };
    match rng.below(16) {
        0 | 1 => (Primaries::Srgb, "sRGB"),
        2 => (Primaries::Bt2100, "2100"),
        3 => (Primaries::P3, "P3"),
        4 => {
            let b = *rng.pick(&[[[0.64, 0.33], [0.30, 0.60], [0.15, 0.06]], PR_2100, PR_P3]);
            (cust(b), "c-eqnamed")
        }
        5 | 6 => {
            let mut b = *rng.pick(&[PR_SRGB, PR_2100, PR_P3]);
            let r = *rng.pick(&[160i64, 160, 450]);
            for q in b.iter_mut() {
                for c in q.iter_mut() {
                    if rng.chance(1, 2) {
                        *c += rng.range(-r, r) as f64 * 1e-6;
                    }
                }
            }
            (cust(b), "c-near")
        }
        7 | 8 | 9 | 10 => {
            // real-world gamuts (Adobe RGB, ProPhoto, NTSC 1953, SMPTE-C, ACES AP1, PAL) + jitter
            let mut b = *rng.pick(&[
                [[0.64, 0.33], [0.21, 0.71], [0.15, 0.06]],
                [[0.7347, 0.2653], [0.1596, 0.8404], [0.0366, 0.0001]],
                [[0.67, 0.33], [0.21, 0.71], [0.14, 0.08]],
                [[0.63, 0.34], [0.31, 0.595], [0.155, 0.07]],
                [[0.713, 0.293], [0.165, 0.830], [0.128, 0.044]],
                [[0.64, 0.33], [0.29, 0.60], [0.15, 0.06]],
            ]);
            let j = *rng.pick(&[0i64, 2000, 20000]);
            for q in b.iter_mut() {
                q[0] = (q[0] + rng.range(-j, j) as f64 * 1e-6).max(0.0);
                q[1] = (q[1] + rng.range(-j, j) as f64 * 1e-6).max(1e-6);
                let t = q[0] + q[1];
                if t > 1.0 {
                    // keep it a real colour (inside x + y <= 1)
                    q[0] /= t;
                    q[1] /= t;
                }
            }
            (cust(b), "c-typ")
        }
        11 | 12 | 13 | 14 => {
            // any non-degenerate triangle of real chromaticities, either orientation
            loop {
                let b = [real_xy(rng, 0.005), real_xy(rng, 0.005), real_xy(rng, 0.005)];
                if tri_area(&b).abs() >= 0.02 {
                    return (cust(b), "c-wide");
                }
            }
        }
        _ => {
            // thin / tiny triangles and extreme corners
            loop {
                let a = real_xy(rng, 1e-6);
                let c = real_xy(rng, 1e-6);
                let t = rng.f64();
                let off = rng.range(-3000, 3000) as f64 * 1e-6;
                let m = [a[0] + t * (c[0] - a[0]) + off, (a[1] + t * (c[1] - a[1]) - off).max(1e-6)];
                let b = [a, m, c];
                let ar = tri_area(&b).abs();
                if ar > 1e-7 && ar < 0.02 {
                    return (cust(b), "c-thin");
                }
            }
        }
    }
}

/// decode exponent (encoded -> linear) described by a Gamma tf.
/// 18181-1: have_gamma => encoded = linear^(gamma/1e7); jxl-oxide stores that as inverted=true;
/// inverted=false means g/1e7 is the decode exponent itself (ICC convention).
fn gamma_exponent(g: u32, inverted: bool) -> f64 {
    if inverted {
        1e7 / g as f64
    } else {
        g as f64 / 1e7
    }
}

fn gen_tf(rng: &mut Rng) -> (TransferFunction, &'static str) {
    match rng.below(20) {
        0 => (TransferFunction::Bt709, "709"),
        1 => (TransferFunction::Linear, "lin"),
        2 | 3 => (TransferFunction::Srgb, "srgb"),
        4 => (TransferFunction::Pq, "pq"),
        5 => (TransferFunction::Dci, "dci"),
        6 => (TransferFunction::Hlg, "hlg"),
        7 | 8 => {
            let g = *rng.pick(&[4545455u32, 5555556, 4166667, 3846154, 10000000, 4545454, 5000000]);
            (TransferFunction::Gamma { g, inverted: true }, "gi-common")
        }
        9 => {
            let g = *rng.pick(&[22000000u32, 18000000, 24000000, 26000000, 10000000, 20000000]);
            (TransferFunction::Gamma { g, inverted: false }, "gn-common")
        }
        10 | 11 => (TransferFunction::Gamma { g: rng.u32range(3333334, 10000000), inverted: true }, "gi-typ"),
        12 => (TransferFunction::Gamma { g: rng.u32range(10000000, 30000000), inverted: false }, "gn-typ"),
        13 | 14 => {
            // decode exponent in (3, 429]: log-uniform
            let e = 3.0 * (429.0f64 / 3.0).powf(rng.f64());
            (TransferFunction::Gamma { g: ((1e7 / e) as u32).clamp(23284, 3333333), inverted: true }, "gi-steep")
        }
        15 => {
            let e = 3.0 * (429.0f64 / 3.0).powf(rng.f64());
            (TransferFunction::Gamma { g: (e * 1e7).min(4294967295.0) as u32, inverted: false }, "gn-steep")
        }
        16 => {
            // libjxl-valid (gamma >= 1/8192) but decode exponent > 429.4967 (u32/1e7 limit)
            (TransferFunction::Gamma { g: rng.u32range(1221, 23283), inverted: true }, "gi-huge")
        }
        17 => (TransferFunction::Gamma { g: rng.u32range(0, 1220), inverted: true }, "gi-tiny"),
        18 => (TransferFunction::Gamma { g: rng.u32range(10000001, (1 << 24) - 1), inverted: true }, "gi-sub1"),
        _ => (TransferFunction::Gamma { g: rng.u32range(1, 9999999), inverted: false }, "gn-sub1"),
    }
}

const INTENTS: [(RenderingIntent, &str); 4] = [
    (RenderingIntent::Perceptual, "per"),
    (RenderingIntent::Relative, "rel"),
    (RenderingIntent::Saturation, "sat"),
    (RenderingIntent::Absolute, "abs"),
];

fn enc_desc(e: &EnumColourEncoding) -> String {
    format!("{:?}", e)
}

// ---------------------------------------------------------------------------------------------
// bitstream form of an enum colour encoding (18181-1 ColourEncoding bundle)
// ---------------------------------------------------------------------------------------------
fn write_customxy(bw: &mut BitWriter, c: Customxy) {
    let ds = [D::B(0, 19), D::B(524288, 19), D::B(1048576, 20), D::B(2097152, 21)];
    bw.u32(ds, pack_signed(c.x));
    bw.u32(ds, pack_signed(c.y));
}

/// None if the encoding has no bitstream form (non-inverted gamma, gamma >= 2^24)
fn write_colour_encoding(bw: &mut BitWriter, e: &EnumColourEncoding) -> Option<()> {
    if let TransferFunction::Gamma { g, inverted } = e.tf {
        if !inverted || g >= (1 << 24) {
            return None;
        }
    }
    bw.bool(false); // all_default
    bw.bool(false); // want_icc
    bw.enum_(match e.colour_space {
        ColourSpace::Rgb => 0,
        ColourSpace::Grey => 1,
        _ => return None,
    });
    match e.white_point {
        WhitePoint::D65 => bw.enum_(1),
        WhitePoint::E => bw.enum_(10),
        WhitePoint::Dci => bw.enum_(11),
        WhitePoint::Custom(c) => {
            bw.enum_(2);
            write_customxy(bw, c);
        }
    }
    if e.colour_space == ColourSpace::Rgb {
        match e.primaries {
            Primaries::Srgb => bw.enum_(1),
            Primaries::Bt2100 => bw.enum_(9),
            Primaries::P3 => bw.enum_(11),
            Primaries::Custom { red, green, blue } => {
                bw.enum_(2);
                write_customxy(bw, red);
                write_customxy(bw, green);
                write_customxy(bw, blue);
            }
        }
    }
    match e.tf {
        TransferFunction::Gamma { g, .. } => {
            bw.bool(true);
            bw.write(24, g as u64);
        }
        t => {
            bw.bool(false);
            bw.enum_(match t {
                TransferFunction::Bt709 => 1,
                TransferFunction::Linear => 8,
                TransferFunction::Srgb => 13,
                TransferFunction::Pq => 16,
                TransferFunction::Dci => 17,
                TransferFunction::Hlg => 18,
                _ => return None,
            });
        }
    }
    bw.enum_(match e.rendering_intent {
        RenderingIntent::Perceptual => 0,
        RenderingIntent::Relative => 1,
        RenderingIntent::Saturation => 2,
        RenderingIntent::Absolute => 3,
    });
    Some(())
}

/// (signature, (offset, length)) of every tag of a profile; empty if the tag table is malformed
fn icc_tags(icc: &[u8]) -> Vec<([u8; 4], (usize, usize))> {
    let mut v = Vec::new();
    if icc.len() < 132 {
        return v;
    }
    let n = u32::from_be_bytes([icc[128], icc[129], icc[130], icc[131]]) as usize;
    if n > 1000 || 132 + 12 * n > icc.len() {
        return v;
    }
    for k in 0..n {
        let o = 132 + 12 * k;
        let off = u32::from_be_bytes([icc[o + 4], icc[o + 5], icc[o + 6], icc[o + 7]]) as usize;
        let len = u32::from_be_bytes([icc[o + 8], icc[o + 9], icc[o + 10], icc[o + 11]]) as usize;
        v.push(([icc[o], icc[o + 1], icc[o + 2], icc[o + 3]], (off, len)));
    }
    v
}

fn same_enum(a: &EnumColourEncoding, b: &EnumColourEncoding) -> bool {
    a.colour_space == b.colour_space
        && a.white_point == b.white_point
        && a.primaries == b.primaries
        && a.tf == b.tf
        && a.rendering_intent == b.rendering_intent
}

// ---------------------------------------------------------------------------------------------
// known deviations that can be downgraded to "inconclusive" with --allow a,b,c
// ---------------------------------------------------------------------------------------------
#[derive(Default, Clone)]
struct Allow {
    hdr_icc: bool,
    gamma_sub1: bool,
    gamma_huge: bool,
    gamma_zero: bool,
    grey_hlg: bool,
    hlg_black: bool,
    pow_underflow: bool,
    pq_dark: bool,
    /// report matches of the classes below as violations with signature `dev:<class>` (handled
    /// by the runner's known-findings list) instead of skipping them as inconclusive
    report: bool,
}
impl Allow {
    fn parse(args: &Args) -> Allow {
        let mut a = Allow::default();
        if let Some(s) = args.extra.get("allow") {
            for t in s.split(',') {
                match t.trim() {
                    "hdr-icc" => a.hdr_icc = true,
                    "gamma-sub1" => a.gamma_sub1 = true,
                    "gamma-huge" => a.gamma_huge = true,
                    "gamma-zero" => a.gamma_zero = true,
                    "grey-hlg" => a.grey_hlg = true,
                    "hlg-black" => a.hlg_black = true,
                    "pow-underflow" => a.pow_underflow = true,
                    "pq-dark" => a.pq_dark = true,
                    "all" => {
                        a = Allow { hdr_icc: true, gamma_sub1: true, gamma_huge: true, gamma_zero: true, grey_hlg: true, hlg_black: true, pow_underflow: true, pq_dark: true, report: false }
                    }
                    _ => {}
                }
            }
        }
        a.report = args.extra.get("report-known").map_or(false, |v| v == "1");
        a
    }
}

/// A known deviation class was hit: domain exclusions stay inconclusive, defects are reported.
fn known_dev(case: &mut Case, allow: &Allow, class: &str, detail: String) {
    // gamma-sub1 / gamma-zero are outside the set of valid encodings (the reference decoder
    // rejects such headers), so they are never reported
    if allow.report && class != "gamma-sub1" && class != "gamma-zero" {
        case.violation(format!("dev:{class}"), detail);
    } else {
        case.inconclusive(&format!("known deviation {class}"));
    }
}

struct Ctx {
    allow: Allow,
    explore: bool,
    f32k: f64,
    kfac: f64,
}

// ---------------------------------------------------------------------------------------------
// (a) synthesise -> parse
// ---------------------------------------------------------------------------------------------
fn sub_a(case: &mut Case, cx: &Ctx) {
    let rng = &mut case.rng;
    let grey = rng.chance(1, 4);
    let (wp, wpk) = gen_wp(rng);
    let (pr, prk) = if grey { (Primaries::Srgb, "-") } else { gen_primaries(rng) };
    let (mut tf, tfk) = gen_tf(rng);
    if let TransferFunction::Gamma { g: 0, .. } = tf {
        if cx.allow.gamma_zero {
            tf = TransferFunction::Gamma { g: 1, inverted: true };
        }
    }
    let (intent, ik) = *rng.pick(&INTENTS);
    let via_bits = rng.chance(1, 3);
    let mut enc = EnumColourEncoding {
        colour_space: if grey { ColourSpace::Grey } else { ColourSpace::Rgb },
        white_point: wp,
        primaries: pr,
        tf,
        rendering_intent: intent,
    };
    let cs = if grey { "grey" } else { "rgb" };
    let sig = format!("a/{cs}/{wpk}/{prk}/{tfk}/{ik}");
    case.sig(sig.clone(), true);
    let desc = enc_desc(&enc);
    case.input = Some(desc.clone().into_bytes());
    case.sample(format!("{{\"sub\":\"a\",\"class\":{},\"enc\":{}}}", json_str(&sig), json_str(&desc)));
    case.obs("a_cases", 1);

    // --- optional: obtain the struct through the codestream field encoding -------------------
    if via_bits {
        let mut bw = BitWriter::with_random_selectors(case.rng.fork());
        if write_colour_encoding(&mut bw, &enc).is_some() {
            let nbits = bw.bits_written();
            let mut bytes = bw.finish();
            bytes.extend_from_slice(&[0u8; 8]);
            let mut bs = jxl_bitstream::Bitstream::new(&bytes);
            match <ColourEncoding as Bundle<()>>::parse(&mut bs, ()) {
                Ok(ColourEncoding::Enum(e)) => {
                    case.obs("a_via_bitstream", 1);
                    if !same_enum(&e, &enc) {
                        case.violation(format!("{sig}:bits-mismatch"), format!("header fields written for {desc} parsed as {e:?}"));
                        return;
                    }
                    if bs.num_read_bits() != nbits {
                        case.violation(format!("{sig}:bits-consumed"), format!("wrote {nbits} bits, parser consumed {} for {desc}", bs.num_read_bits()));
                        return;
                    }
                    enc = e;
                }
                Ok(other) => {
                    case.violation(format!("{sig}:bits-kind"), format!("header for {desc} parsed as {other:?}"));
                    return;
                }
                Err(e) => {
                    case.violation(format!("{sig}:bits-err"), format!("header for {desc} rejected: {e}"));
                    return;
                }
            }
        }
    }

    // --- header field coding over the *whole* encodable range of custom xy (also chromaticities
    // that are not real colours: those only have to be carried faithfully by the header parser)
    if via_bits && case.rng.chance(1, 2) {
        let r = &mut case.rng;
        let wild = |r: &mut Rng| -> Customxy {
            let one = |r: &mut Rng| -> i32 {
                match r.below(6) {
                    0 => r.range(-2097152, 2097151) as i32,
                    1 => *r.pick(&[-2097152i32, 2097151, -1048577, -1048576, 1048575, 1048576, -524289, -524288, 524287, 524288, -262145, -262144, 262143, 262144, 0, -1, 1]),
                    2 => r.range(-262144, 262143) as i32,
                    3 => r.range(262144, 524287) as i32,
                    4 => r.range(524288, 1048575) as i32,
                    _ => -(r.range(1, 2097152) as i32),
                }
            };
            Customxy { x: one(r), y: one(r) }
        };
        let mut e2 = enc.clone();
        e2.white_point = WhitePoint::Custom(wild(r));
        if !grey {
            e2.primaries = Primaries::Custom { red: wild(r), green: wild(r), blue: wild(r) };
        }
        if let TransferFunction::Gamma { .. } = e2.tf {
            e2.tf = TransferFunction::Gamma { g: r.u32range(0, (1 << 24) - 1), inverted: true };
        }
        let mut bw = BitWriter::with_random_selectors(r.fork());
        if write_colour_encoding(&mut bw, &e2).is_some() {
            let nbits = bw.bits_written();
            let mut bytes = bw.finish();
            bytes.extend_from_slice(&[0u8; 8]);
            let mut bs = jxl_bitstream::Bitstream::new(&bytes);
            case.obs("a_header_fullrange_checked", 1);
            match <ColourEncoding as Bundle<()>>::parse(&mut bs, ()) {
                Ok(ColourEncoding::Enum(e)) if same_enum(&e, &e2) && bs.num_read_bits() == nbits => {}
                other => {
                    case.violation(
                        format!("a/{cs}:header-fullrange"),
                        format!("header fields written for {e2:?} ({nbits} bits) parsed as {other:?} ({} bits)", bs.num_read_bits()),
                    );
                    return;
                }
            }
        }
    }

    // --- conditioning: what can an ICC profile carry for this encoding? ------------------------
    let wi = wp_xy(&wp);
    let pi = pr_xy(&pr);
    let cond = if grey { cond_grey(wi, cx.f32k) } else { cond_rgb(wi, &pi, cx.f32k) };
    // decode exponent for gamma-like curves
    let e_in = match tf {
        TransferFunction::Gamma { g, inverted } => Some(gamma_exponent(g, inverted)),
        _ => None,
    };
    // parametricCurveType g is s15Fixed16: representable iff 2^-16 <= E < 32768
    let gamma_repr = e_in.map_or(true, |e| e.is_finite() && e < 32767.9 && e >= 1.0 / 65536.0);

    let icc = colour_encoding_to_icc(&enc);
    // --- auxiliary: numbers stored in the profile against the f64 definition -------------------
    // (a wrong adaptation or RGB->XYZ matrix cancels out in synthesise->parse because the parser
    // inverts whatever chad it finds; the round trip alone cannot see it.) Budget per entry:
    // 1 LSB (the synthesiser truncates v*65536+0.5 toward zero) + f32 evaluation slop that grows
    // with the size of the intermediate terms (`maxc`), x2 margin; only for physically meaningful
    // encodings (white inside the gamut, positive cone responses). The adaptation target may be
    // the ICC PCS D50 or the classic D50 that libjxl uses (they differ by 3e-4 in Z).
    if !grey && cond.in_range && cond.physical && cond.maxc < 16.0 && cond.bw < 1e-2 && cond.bp.iter().all(|b| *b < 1e-2) {
        let tol_lsb = 2.0 * (1.0 + cond.maxc * cx.f32k * 65536.0 * 4.0);
        let mut worst = f64::INFINITY;
        let tags = icc_tags(&icc);
        let rd = |sig: &[u8; 4], i: usize| -> Option<f64> {
            let (off, len) = *tags.iter().find(|t| &t.0 == sig).map(|t| &t.1)?;
            if len < 8 + 4 * (i + 1) || off + len > icc.len() {
                return None;
            }
            let o = off + 8 + 4 * i;
            Some(i32::from_be_bytes([icc[o], icc[o + 1], icc[o + 2], icc[o + 3]]) as f64)
        };
        for d50 in [D50_XYZ, D50_CLASSIC] {
            let am = adapt_to(wi, d50);
            let cm = m_mul(&am, &prim_matrix(&pi, wi));
            let mut w: f64 = 0.0;
            for i in 0..9 {
                match rd(b"chad", i) {
                    Some(v) => w = w.max((v - am[i / 3][i % 3] * 65536.0).abs()),
                    None => w = f64::INFINITY,
                }
            }
            for (j, sig) in [b"rXYZ", b"gXYZ", b"bXYZ"].iter().enumerate() {
                for i in 0..3 {
                    match rd(sig, i) {
                        Some(v) => w = w.max((v - cm[i][j] * 65536.0).abs()),
                        None => w = f64::INFINITY,
                    }
                }
            }
            worst = worst.min(w);
        }
        case.obs("a_profile_content_checked", 1);
        if cx.explore {
            eprintln!("EXPC idx={} worst={:.3} tol={:.3} ratio={:.3} maxc={:.2}", case.idx, worst, tol_lsb, worst / tol_lsb, cond.maxc);
        }
        if !(worst <= tol_lsb) {
            case.violation(
                format!("a/{cs}/{wpk}/{prk}:profile-content"),
                format!("chad / rXYZ / gXYZ / bXYZ differ from the Bradford-adapted definition by {worst:.2} LSB of s15Fixed16 (allowed {tol_lsb:.2}): {desc}"),
            );
            return;
        }
    }
    let parsed = ColorEncodingWithProfile::with_icc(&icc);
    let repr = cond.in_range && gamma_repr;
    let parsed = match parsed {
        Ok(p) => p,
        Err(e) => {
            if repr && cond.physical && cond.bw < 1e-3 && cond.bp.iter().all(|b| *b < 1e-3) {
                case.violation(format!("{sig}:err"), format!("with_icc(colour_encoding_to_icc(e)) failed: {e}; e = {desc}"));
            } else {
                case.inconclusive("a: parse error for an encoding that is not representable in s15Fixed16 or not a physical additive space");
            }
            return;
        }
    };
    if !repr {
        // nothing can be required of the numbers; reaching this point means no panic and no Err
        case.inconclusive("a: not representable in ICC s15Fixed16");
        case.obs("a_unrepresentable", 1);
        return;
    }
    // known-deviation classification of the transfer function
    let known_tf: Option<&'static str> = match (tf, e_in) {
        (TransferFunction::Pq | TransferFunction::Hlg, _) if cx.allow.hdr_icc => Some("hdr-icc"),
        (_, Some(e)) if e < 1.0 - 1e-9 && cx.allow.gamma_sub1 => Some("gamma-sub1"),
        (_, Some(e)) if e > 429.49 && cx.allow.gamma_huge => Some("gamma-huge"),
        _ => None,
    };
    let out = match parsed.encoding() {
        ColourEncoding::Enum(e) => e.clone(),
        ColourEncoding::IccProfile(_) => {
            if cx.explore {
                eprintln!("EXPA icconly {cs} {wpk} {prk} {tfk}");
            }
            if let Some(k) = known_tf {
                known_dev(case, &cx.allow, k, format!("synthesised profile falls back to ICC-only: {desc}"));
            } else {
                case.violation(
                    format!("a/{cs}/{tfk}:icc-only"),
                    format!("synthesised profile is not recognised as an enum encoding (falls back to ICC-only): {desc}"),
                );
            }
            return;
        }
    };
    case.obs("a_parsed_enum", 1);
    let outd = format!("{out:?}");
    let mut bad: Vec<String> = Vec::new();
    if parsed.is_grayscale() != grey || parsed.is_cmyk() || !parsed.icc_profile().is_empty() {
        bad.push("accessors(is_grayscale/is_cmyk/icc_profile)".into());
    }

    if out.colour_space != enc.colour_space {
        bad.push("colour_space".into());
    }
    if out.rendering_intent != enc.rendering_intent {
        bad.push("intent".into());
    }

    // --- transfer function ----------------------------------------------------------------------
    // Decisions: (1) Gamma is compared by decode exponent, whatever the `inverted` form returned;
    // (2) an exponent within tolerance of 1 may come back as Linear; (3) Dci *is* the pure power
    // 2.6 and ICC has no name for it, so Gamma(2.6 +- tol) is an equivalent answer.
    let tol_g = |e: f64| (1e-4f64).max(1.5 * QH / e); // relative; 2nd term: s15Fixed16 step
    let tf_ok = match (tf, out.tf) {
        (TransferFunction::Gamma { .. }, TransferFunction::Gamma { g, inverted }) => {
            let (ei, eo) = (e_in.unwrap(), gamma_exponent(g, inverted));
            g != 0 && (eo / ei - 1.0).abs() <= tol_g(ei)
        }
        (TransferFunction::Gamma { .. }, TransferFunction::Linear) => (1.0 / e_in.unwrap() - 1.0).abs() <= tol_g(e_in.unwrap()),
        (TransferFunction::Dci, TransferFunction::Gamma { g, inverted }) => {
            case.obs("a_dci_as_gamma", 1);
            g != 0 && (gamma_exponent(g, inverted) / 2.6 - 1.0).abs() <= 1e-4
        }
        (a, b) => a == b,
    };
    let mut tf_known = false;
    if !tf_ok {
        if known_tf.is_some() {
            tf_known = true;
        } else {
            bad.push("tf".into());
        }
    }

    // --- white point -----------------------------------------------------------------------------
    // custom -> named is accepted by value: the parser snaps when the *recovered* value is within
    // 1e-4 of a named point, so the input may be 1e-4 + (round-trip tolerance) away.
    let kf = cx.kfac;
    let mut limited = false;
    let wo = wp_xy(&out.white_point);
    let ew = (wi[0] - wo[0]).abs().max((wi[1] - wo[1]).abs());
    let tol_w = (1e-4f64).max(kf * cond.bw);
    if tol_w > 1e-4 {
        limited = true;
    }
    let in_named_w = !matches!(wp, WhitePoint::Custom(_));
    let out_named_w = !matches!(out.white_point, WhitePoint::Custom(_));
    let mut xy_inconclusive = false;
    if tol_w > 5e-3 {
        xy_inconclusive = true;
    } else if in_named_w {
        if !(wp == out.white_point || (tol_w > 1e-4 && ew <= tol_w)) {
            bad.push(format!("white_point(err {ew:.3e} tol {tol_w:.3e})"));
        }
    } else {
        let t = if out_named_w { tol_w + 1e-4 } else { tol_w };
        if out_named_w {
            case.obs("a_custom_wp_snapped", 1);
        }
        if ew > t {
            bad.push(format!("white_point(err {ew:.3e} tol {t:.3e})"));
        }
    }
    // --- primaries -------------------------------------------------------------------------------
    let mut ep = [0.0f64; 3];
    let mut tol_p = [1e-4f64; 3];
    if !grey {
        let po = pr_xy(&out.primaries);
        let in_named = !matches!(pr, Primaries::Custom { .. });
        let out_named = !matches!(out.primaries, Primaries::Custom { .. });
        for j in 0..3 {
            ep[j] = (pi[j][0] - po[j][0]).abs().max((pi[j][1] - po[j][1]).abs());
            tol_p[j] = (1e-4f64).max(kf * cond.bp[j]);
            if tol_p[j] > 1e-4 {
                limited = true;
            }
        }
        let tmax = tol_p[0].max(tol_p[1]).max(tol_p[2]);
        if tmax > 5e-3 {
            xy_inconclusive = true;
        } else if in_named {
            let by_value = (0..3).all(|j| ep[j] <= tol_p[j]);
            if !(pr == out.primaries || (tmax > 1e-4 && by_value)) {
                bad.push(format!("primaries(err {:.3e} tol {:.3e})", ep[0].max(ep[1]).max(ep[2]), tmax));
            }
        } else {
            if out_named {
                case.obs("a_custom_primaries_snapped", 1);
            }
            for j in 0..3 {
                let t = if out_named { tol_p[j] + 1e-4 } else { tol_p[j] };
                if ep[j] > t {
                    bad.push(format!("primaries[{j}](err {:.3e} tol {:.3e})", ep[j], t));
                }
            }
        }
    } else if out.primaries != Primaries::Srgb {
        bad.push("grey primaries field".into());
    }
    if cx.explore {
        eprintln!(
            "EXPA ok {cs} {wpk} {prk} {tfk} idx={} ew={:.3e} tw={:.3e} ep={:.3e} rp={:.3e} rw={:.3e} maxc={:.2e} lim={} inc={}",
            case.idx,
            ew,
            tol_w,
            ep[0].max(ep[1]).max(ep[2]),
            (0..3).map(|j| ep[j] / tol_p[j]).fold(0.0, f64::max),
            ew / tol_w,
            cond.maxc,
            limited,
            xy_inconclusive,
        );
    }
    if xy_inconclusive {
        case.inconclusive("a: chromaticities ill-conditioned in ICC (tolerance would exceed 5e-3)");
        case.obs("a_xy_illconditioned", 1);
    } else if limited {
        case.obs("a_xy_format_limited", 1);
    } else {
        case.obs("a_xy_strict_1e-4", 1);
    }
    if tf_known {
        known_dev(case, &cx.allow, known_tf.unwrap(), format!("transfer function does not round-trip: {desc}"));
    }
    if !bad.is_empty() {
        let what = bad.iter().map(|b| b.split('(').next().unwrap().split('[').next().unwrap().to_string()).collect::<std::collections::BTreeSet<_>>().into_iter().collect::<Vec<_>>().join("+");
        case.violation(
            format!("a/{cs}/{wpk}/{prk}/{tfk}:{what}"),
            format!("round trip differs in {}: in = {desc}; out = {outd}", bad.join(", ")),
        );
    }
}

// ---------------------------------------------------------------------------------------------
// (b) transfer functions: reference definitions (f64)
// ---------------------------------------------------------------------------------------------
/// linear -> encoded, from the standards' definitions. `it` = intensity target (nits) of linear 1.0
fn ref_encode(tf: TransferFunction, x: f64, it: f64) -> f64 {
    let a = x.abs();
    let r = match tf {
        TransferFunction::Linear | TransferFunction::Unknown => a,
        // IEC 61966-2-1
        TransferFunction::Srgb => {
            if a <= 0.0031308 {
                12.92 * a
            } else {
                1.055 * a.powf(1.0 / 2.4) - 0.055
            }
        }
        // Rec. ITU-R BT.709-6
        TransferFunction::Bt709 => {
            if a < 0.018 {
                4.5 * a
            } else {
                1.099 * a.powf(0.45) - 0.099
            }
        }
        TransferFunction::Dci => a.powf(1.0 / 2.6),
        TransferFunction::Gamma { g, inverted } => a.powf(1.0 / gamma_exponent(g, inverted)),
        // SMPTE ST 2084 inverse EOTF
        TransferFunction::Pq => {
            let (m1, m2) = (2610.0 / 16384.0, 2523.0 / 4096.0 * 128.0);
            let (c1, c2, c3) = (3424.0 / 4096.0, 2413.0 / 4096.0 * 32.0, 2392.0 / 4096.0 * 32.0);
            let y = (a * it / 10000.0).powf(m1);
            ((c1 + c2 * y) / (1.0 + c3 * y)).powf(m2)
        }
        // BT.2100 HLG: inverse OOTF (achromatic: Ys = Yd^(1/gamma)) then OETF
        TransferFunction::Hlg => {
            let s = a.powf(1.0 / hlg_gamma(it));
            let (ha, hb, hc) = hlg_abc();
            if s <= 1.0 / 12.0 {
                (3.0 * s).sqrt()
            } else {
                ha * (12.0 * s - hb).ln() + hc
            }
        }
    };
    r.copysign(x)
}
fn hlg_abc() -> (f64, f64, f64) {
    let a = 0.17883277;
    (a, 1.0 - 4.0 * a, 0.5 - a * (4.0 * a).ln())
}
/// BT.2390 extended-range system gamma
fn hlg_gamma(it: f64) -> f64 {
    1.2 * 1.111f64.powf((it / 1000.0).log2())
}
/// encoded -> linear
fn ref_decode(tf: TransferFunction, v: f64, it: f64) -> f64 {
    let a = v.abs();
    let r = match tf {
        TransferFunction::Linear | TransferFunction::Unknown => a,
        TransferFunction::Srgb => {
            if a <= 0.04045 {
                a / 12.92
            } else {
                ((a + 0.055) / 1.055).powf(2.4)
            }
        }
        TransferFunction::Bt709 => {
            if a < 0.081 {
                a / 4.5
            } else {
                ((a + 0.099) / 1.099).powf(1.0 / 0.45)
            }
        }
        TransferFunction::Dci => a.powf(2.6),
        TransferFunction::Gamma { g, inverted } => a.powf(gamma_exponent(g, inverted)),
        TransferFunction::Pq => {
            let (m1, m2) = (2610.0 / 16384.0, 2523.0 / 4096.0 * 128.0);
            let (c1, c2, c3) = (3424.0 / 4096.0, 2413.0 / 4096.0 * 32.0, 2392.0 / 4096.0 * 32.0);
            let e = a.powf(1.0 / m2);
            ((e - c1).max(0.0) / (c2 - c3 * e)).powf(1.0 / m1) * 10000.0 / it
        }
        TransferFunction::Hlg => {
            let (ha, hb, hc) = hlg_abc();
            let s = if a <= 0.5 { a * a / 3.0 } else { (((a - hc) / ha).exp() + hb) / 12.0 };
            s.powf(hlg_gamma(it))
        }
    };
    r.copysign(v)
}

fn gen_tf_b(rng: &mut Rng) -> (TransferFunction, &'static str) {
    match rng.below(16) {
        0 | 1 => (TransferFunction::Bt709, "709"),
        2 => (TransferFunction::Linear, "lin"),
        3 | 4 => (TransferFunction::Srgb, "srgb"),
        5 | 6 => (TransferFunction::Pq, "pq"),
        7 => (TransferFunction::Dci, "dci"),
        8 | 9 => (TransferFunction::Hlg, "hlg"),
        10 => {
            let g = *rng.pick(&[4545455u32, 5555556, 4166667, 3846154, 10000000, 5000000]);
            (TransferFunction::Gamma { g, inverted: true }, "gi-common")
        }
        11 => {
            let g = *rng.pick(&[22000000u32, 18000000, 24000000, 26000000, 10000000, 20000000]);
            (TransferFunction::Gamma { g, inverted: false }, "gn-common")
        }
        12 => (TransferFunction::Gamma { g: rng.u32range(3333334, 10000000), inverted: true }, "gi-typ"),
        13 => (TransferFunction::Gamma { g: rng.u32range(10000000, 30000000), inverted: false }, "gn-typ"),
        14 => {
            // steeper curves, decode exponent (3, 16]
            let e = 3.0 * (16.0f64 / 3.0).powf(rng.f64());
            if rng.bool() {
                (TransferFunction::Gamma { g: (1e7 / e) as u32, inverted: true }, "gi-steep")
            } else {
                (TransferFunction::Gamma { g: (1e7 * e) as u32, inverted: false }, "gn-steep")
            }
        }
        _ => {
            // decode exponent below 1 (codestream gamma field > 1e7), [0.6, 1)
            (TransferFunction::Gamma { g: rng.u32range(10000001, (1 << 24) - 1), inverted: true }, "gi-sub1")
        }
    }
}

/// breakpoints of the piecewise definitions (linear side, encoded side)
fn breakpoints(tf: TransferFunction) -> (&'static [f64], &'static [f64]) {
    match tf {
        TransferFunction::Srgb => (&[0.0031308], &[0.04045]),
        TransferFunction::Bt709 => (&[0.018], &[0.081]),
        TransferFunction::Hlg => (&[1.0 / 12.0], &[0.5]),
        _ => (&[], &[]),
    }
}

fn next_up(x: f32, k: u32) -> f32 {
    // k-th float above x (x >= 0, finite)
    f32::from_bits(x.to_bits() + k)
}

fn gen_ramp(rng: &mut Rng, n: usize, tf: TransferFunction, encoded_side: bool) -> (Vec<f32>, &'static str) {
    let kind = rng.below(7);
    let mut v: Vec<f32> = Vec::with_capacity(n);
    let name;
    match kind {
        0 => {
            name = "nominal";
            for _ in 0..n {
                v.push(rng.f64() as f32);
            }
            if n >= 2 && rng.bool() {
                v[0] = 0.0;
                v[1] = 1.0;
            }
        }
        1 => {
            name = "wide";
            for _ in 0..n {
                v.push((-0.1 + 1.3 * rng.f64()) as f32);
            }
        }
        2 => {
            name = "tiny";
            for _ in 0..n {
                let e = -12.0 + 10.0 * rng.f64();
                v.push(match rng.below(12) {
                    0 => 0.0,
                    1 => 1e-40,
                    2 => f32::MIN_POSITIVE,
                    _ => 10f64.powf(e) as f32,
                });
            }
        }
        3 => {
            name = "dense";
            // consecutive floats (1..64 ulp apart) starting at a log-uniform point
            let c = 10f64.powf(-7.0 + 7.08 * rng.f64()) as f32;
            let step = 1 + rng.below(64) as u32;
            for i in 0..n {
                v.push(next_up(c, step * i as u32));
            }
        }
        4 => {
            name = "thresh";
            let (lin, enc) = breakpoints(tf);
            let bps = if encoded_side { enc } else { lin };
            let c = if bps.is_empty() { *rng.pick(&[1e-7f64, 1e-4, 0.5, 1.0]) } else { *rng.pick(bps) };
            let step = 1 + rng.below(8) as u32;
            let start = f32::from_bits((c as f32).to_bits() - (step * (n as u32 / 2)).min(1 << 20));
            for i in 0..n {
                v.push(next_up(start, step * i as u32));
            }
        }
        5 => {
            name = "grid";
            let maxv = *rng.pick(&[255u32, 1023, 4095, 65535]);
            let start = rng.below((maxv as u64 + 1).saturating_sub(n as u64).max(1)) as u32;
            for i in 0..n as u32 {
                v.push(((start + i).min(maxv)) as f32 / maxv as f32);
            }
        }
        _ => {
            name = "uniform-grid";
            for i in 0..n {
                v.push(if n > 1 { i as f32 / (n - 1) as f32 } else { 0.5 });
            }
        }
    }
    v.sort_by(|a, b| a.partial_cmp(b).unwrap_or(std::cmp::Ordering::Equal));
    (v, name)
}

fn make_transform(from: &EnumColourEncoding, to: &EnumColourEncoding, it: f32) -> Result<ColorTransform, String> {
    let oim = <OpsinInverseMatrix as BundleDefault<()>>::default_with_context(());
    let mut tm = <ToneMapping as BundleDefault<()>>::default_with_context(());
    tm.intensity_target = it;
    ColorTransform::new(
        &ColorEncodingWithProfile::new(from.clone()),
        &ColorEncodingWithProfile::new(to.clone()),
        &oim,
        &tm,
        &NullCms,
    )
    .map_err(|e| e.to_string())
}

/// Tolerances of sub-check (b) for one transfer function. "enc" quantities live in the encoded
/// (signal) domain, "dec"/"rt" quantities in linear light where 1.0 = intensity target (for PQ
/// the absolute parts are scaled by 10000/intensity_target: PQ is absolute).
struct BTol {
    enc_abs: f64,
    enc_rel: f64,
    dec_abs: f64,
    dec_rel: f64,
    rt_abs: f64,
    rt_rel: f64,
    dip_enc: f64,
    dip_dec: f64,
}

#[derive(Default, Clone, Copy)]
struct BStats {
    enc: f64,
    dec: f64,
    rt: f64,
    dip_enc: f64,
    dip_dec: f64,
    ratio: f64,
}

/// reference value as an interval: the definition evaluated at x(1 +- 4e-7) (one f32 ulp of input
/// uncertainty, and both branches when a breakpoint of a piecewise definition is that close)
fn ref_interval(f: &dyn Fn(f64) -> f64, x: f64) -> (f64, f64) {
    let a = f(x * (1.0 - 4e-7));
    let b = f(x);
    let c = f(x * (1.0 + 4e-7));
    (a.min(b).min(c), a.max(b).max(c))
}
fn dist_to(iv: (f64, f64), v: f64) -> f64 {
    if v < iv.0 {
        iv.0 - v
    } else if v > iv.1 {
        v - iv.1
    } else {
        0.0
    }
}

thread_local! {
    static KNOWN_FAIL: std::cell::RefCell<Option<(String, String)>> = const { std::cell::RefCell::new(None) };
    static REPORT_KNOWN: std::cell::Cell<bool> = const { std::cell::Cell::new(false) };
}

fn note_known_fail(class: &str, msg: String) {
    KNOWN_FAIL.with(|k| {
        k.borrow_mut().get_or_insert((format!("dev:{class}"), msg));
    });
}

struct StepEval<'a> {
    tf: TransferFunction,
    it: f64,
    tol: &'a BTol,
    lin_scale: f64,
    allow_underflow: bool,
    allow_hlg_black: bool,
    allow_pq_dark: bool,
}

impl<'a> StepEval<'a> {
    /// check one step (encode or decode) of sorted-input arrays; returns first failure
    fn step(&self, encode: bool, xin: &[f32], yout: &[f32], sorted: bool, st: &mut BStats, known: &mut u64) -> Option<(String, String)> {
        let mut fail = None;
        let tf = self.tf;
        let it = self.it;
        let f = |v: f64| if encode { ref_encode(tf, v, it) } else { ref_decode(tf, v, it) };
        let e_dec = match tf {
            TransferFunction::Gamma { g, inverted } => gamma_exponent(g, inverted),
            TransferFunction::Dci => 2.6,
            _ => 1.0,
        };
        let power_law = matches!(tf, TransferFunction::Gamma { .. } | TransferFunction::Dci);
        let name = if encode { "encode" } else { "decode" };
        let mut prev: Option<(f64, f64)> = None;
        for i in 0..xin.len() {
            let (x, y) = (xin[i] as f64, yout[i] as f64);
            if !x.is_finite() {
                prev = None;
                continue;
            }
            let in_range = (0.0..=1.0).contains(&x);
            // exponent underflow of the power evaluation (2^-126) - known deviation "pow-underflow"
            let expo = if encode { 1.0 / e_dec } else { e_dec };
            let underflow = power_law && x > 0.0 && x.log2() * expo < -125.0;
            let report = REPORT_KNOWN.with(|r| r.get());
            // samples in a known-deviation class: skipped, or (report mode) evaluated with
            // failures routed to the `dev:<class>` signature
            let mut cls: Option<&'static str> = None;
            if underflow && self.allow_underflow {
                cls = Some("pow-underflow");
            }
            if tf == TransferFunction::Hlg && x.abs() < 1e-22 && self.allow_hlg_black {
                cls = Some("hlg-black");
            }
            if in_range && encode && tf == TransferFunction::Pq && self.allow_pq_dark && x >= 0.99e-4 && x * it / 10000.0 <= 1.01e-4 {
                cls = Some("pq-dark");
            }
            if let Some(c) = cls {
                *known += 1;
                if report {
                    if !y.is_finite() {
                        if in_range {
                            note_known_fail(c, format!("{name}({x:e}) = {y:e} (tf {tf:?}, intensity target {it})"));
                        }
                    } else if in_range {
                        let iv = ref_interval(&f, x);
                        let d = dist_to(iv, y);
                        let (abs, rel) = if encode { (self.tol.enc_abs, self.tol.enc_rel) } else { (self.tol.dec_abs * self.lin_scale, self.tol.dec_rel) };
                        if d > abs + rel * iv.1.abs() {
                            note_known_fail(c, format!("{name}({x:e}) = {y:e}, definition gives [{:e}, {:e}] (tf {tf:?}, intensity target {it})", iv.0, iv.1));
                        }
                    }
                }
                prev = None;
                continue;
            }
            if !y.is_finite() {
                if in_range {
                    fail.get_or_insert((format!("{name}-nonfinite"), format!("{name}({x:e}) = {y:e} at index {i}")));
                }
                prev = None;
                continue;
            }
            if in_range {
                let iv = ref_interval(&f, x);
                let mut d = dist_to(iv, y);
                // pure power laws have infinite slope at 0 in the encode direction (decode for
                // exponents < 1); implementations (libjxl too) flush inputs <= 1e-7 to 0
                if power_law && x <= 2e-7 && y >= 0.0 && y <= iv.1 {
                    d = 0.0;
                }
                let (abs, rel) = if encode { (self.tol.enc_abs, self.tol.enc_rel) } else { (self.tol.dec_abs * self.lin_scale, self.tol.dec_rel) };
                let allowed = abs + rel * iv.1.abs();
                let norm = if encode { d } else { d / self.lin_scale };
                // known deviation "pq-dark": the small-value polynomial of the PQ encoder is selected
                // by comparing the *unscaled* sample with 1e-4, so for intensity targets below
                // 10000 the large-value polynomial is used outside its fitted range
                if encode {
                    st.enc = st.enc.max(norm);
                } else {
                    st.dec = st.dec.max(norm);
                }
                if allowed > 0.0 { st.ratio = st.ratio.max(d / allowed); }
                if d > allowed {
                    fail.get_or_insert((format!("{name}-ref"), format!("{name}({x:e}) = {y:e}, definition gives [{:e}, {:e}] (deviation {d:e}, allowed {allowed:e}) at index {i}", iv.0, iv.1)));
                }
            }
            if sorted {
                if let Some((xp, yp)) = prev {
                    if x > xp {
                        let dip = yp - y;
                        // outside the nominal range the approximations are extrapolated: 5x
                        let k = if in_range { 1.0 } else { 5.0 };
                        let allowed = k * if encode { self.tol.dip_enc * (1.0 + y.abs()) } else { self.tol.dip_dec * (self.lin_scale + y.abs()) };
                        if encode {
                            st.dip_enc = st.dip_enc.max(dip / (1.0 + y.abs()));
                        } else {
                            st.dip_dec = st.dip_dec.max(dip / (self.lin_scale + y.abs()));
                        }
                        if allowed > 0.0 { st.ratio = st.ratio.max(dip / allowed); }
                        if dip > allowed {
                            fail.get_or_insert((format!("{name}-monotone"), format!("{name} not monotone: f({xp:e}) = {yp:e} > f({x:e}) = {y:e} (allowed dip {allowed:e}) at index {i}")));
                        }
                    }
                }
                prev = Some((x, y));
            }
        }
        fail
    }
}

fn sub_b(case: &mut Case, cx: &Ctx) {
    let rng = &mut case.rng;
    let grey = rng.chance(1, 4);
    let (tf, tfk) = gen_tf_b(rng);
    let hdr = matches!(tf, TransferFunction::Pq | TransferFunction::Hlg);
    // Intensity targets above 255 make ColorTransform insert tone mapping when the target is
    // not HDR, so the decode direction can only be isolated for targets <= 255; the encode
    // direction (linear -> PQ/HLG) is also run alone at HDR targets.
    let mode = match rng.below(20) {
        0..=10 => 0,  // encode then decode (the direction the property speaks about)
        11..=16 => 1, // decode then encode
        _ => {
            if hdr {
                2 // encode only, HDR intensity target
            } else {
                0
            }
        }
    };
    let it: f32 = if mode == 2 {
        *rng.pick(&[1000.0f32, 4000.0, 10000.0, 600.0])
    } else if rng.chance(2, 3) {
        255.0
    } else {
        *rng.pick(&[80.0f32, 100.0, 203.0, 250.0, 128.5])
    };
    let n = if rng.chance(9, 10) { rng.urange(1, 67) } else { rng.urange(68, 700) };
    // Planes: grey images are expanded to three equal planes before the transform (jxl-render
    // `clone_gray`), HLG mixes the channels through its OOTF so only achromatic signals have a
    // per-sample definition; otherwise R, G, B carry three different sorted ramps.
    let equal_planes = grey || tf == TransferFunction::Hlg;
    let (x0, rk) = gen_ramp(rng, n, tf, mode == 1);
    let xs: [Vec<f32>; 3] = if equal_planes {
        [x0.clone(), x0.clone(), x0]
    } else {
        let x1 = gen_ramp(rng, n, tf, mode == 1).0;
        let x2: Vec<f32> = x0.iter().map(|v| v * 0.5).collect();
        [x0, x1, x2]
    };
    let nplanes = if equal_planes { 1 } else { 3 };
    let cs = if grey { ColourSpace::Grey } else { ColourSpace::Rgb };
    let csn = if grey { "grey" } else { "rgb" };
    let lenk = format!("{}{}", if n >= 68 { "L" } else if n >= 8 { "M" } else { "S" }, n % 8);
    let itk = if it == 255.0 {
        "it255"
    } else if it < 255.0 {
        "itlow"
    } else {
        "ithdr"
    };
    let dk = ["enc-dec", "dec-enc", "enc-only"][mode];
    let sig = format!("b/{csn}/{tfk}/{dk}/{rk}/{lenk}/{itk}");
    case.sig(sig.clone(), tf != TransferFunction::Linear);
    let desc = format!("tf={tf:?} cs={csn} it={it} dir={dk} ramp={rk} n={n} plane0: first={:e} last={:e}", xs[0][0], xs[0][n - 1]);
    case.input = Some(desc.clone().into_bytes());
    case.sample(format!("{{\"sub\":\"b\",\"class\":{},\"desc\":{}}}", json_str(&sig), json_str(&desc)));
    case.obs("b_cases", 1);
    case.obs("b_samples", (n * nplanes) as u64);

    let e_tf = EnumColourEncoding { colour_space: cs, white_point: WhitePoint::D65, primaries: Primaries::Srgb, tf, rendering_intent: RenderingIntent::Relative };
    let mut e_lin = e_tf.clone();
    e_lin.tf = TransferFunction::Linear;
    let (t_dec, t_enc) = match (make_transform(&e_tf, &e_lin, it), make_transform(&e_lin, &e_tf, it)) {
        (Ok(a), Ok(b)) => (a, b),
        (a, b) => {
            case.violation(format!("b/{csn}/{tfk}:build"), format!("ColorTransform::new failed: {:?} {:?} ({desc})", a.err(), b.err()));
            return;
        }
    };
    if grey && tf == TransferFunction::Hlg && cx.allow.grey_hlg {
        known_dev(case, &cx.allow, "grey-hlg", format!("ColorTransform for a Grey HLG encoding panics at convert.rs (HLG arm needs 3 planes): {desc}"));
        return;
    }
    let first = if mode == 1 { &t_dec } else { &t_enc };
    let second = if mode == 1 { &t_enc } else { &t_dec };
    let run3 = |t: &ColorTransform, p: &[Vec<f32>; 3]| -> Result<([Vec<f32>; 3], usize), String> {
        let mut o = p.clone();
        let k = {
            let [a, b, c] = &mut o;
            t.run(&mut [&mut a[..], &mut b[..], &mut c[..]]).map_err(|e| e.to_string())?
        };
        Ok((o, k))
    };
    let (ys, n1) = match run3(first, &xs) {
        Ok(r) => r,
        Err(e) => {
            case.violation(format!("b/{csn}/{tfk}:run"), format!("run failed: {e} ({desc})"));
            return;
        }
    };
    let (zs, n2) = if mode == 2 {
        (ys.clone(), n1)
    } else {
        match run3(second, &ys) {
            Ok(r) => r,
            Err(e) => {
                case.violation(format!("b/{csn}/{tfk}:run"), format!("run failed: {e} ({desc})"));
                return;
            }
        }
    };
    let want_ch = if grey { 1 } else { 3 };
    if tf != TransferFunction::Hlg && (n1 != want_ch || n2 != want_ch) {
        case.violation(format!("b/{csn}/{tfk}:channels"), format!("transform returned {n1}/{n2} channels, expected {want_ch} ({desc})"));
        return;
    }
    if cx.explore && std::env::var("C19_DUMP").is_ok() {
        for i in 0..n {
            let yr = if mode != 1 { ref_encode(tf, xs[0][i] as f64, it as f64) } else { ref_decode(tf, xs[0][i] as f64, it as f64) };
            eprintln!("DUMP {i} x={:e} y={:e} (ref {:e}, dev {:.3e}) z={:e}", xs[0][i], ys[0][i], yr, ys[0][i] as f64 - yr, zs[0][i]);
        }
    }

    let e_dec = match tf {
        TransferFunction::Gamma { g, inverted } => gamma_exponent(g, inverted),
        TransferFunction::Dci => 2.6,
        _ => 1.0,
    };
    let power_law = matches!(tf, TransferFunction::Gamma { .. } | TransferFunction::Dci);
    let tol = b_tolerances(tf, e_dec);
    let itf = it as f64;
    let lin_scale = if tf == TransferFunction::Pq { 10000.0 / itf } else { 1.0 };
    REPORT_KNOWN.with(|r| r.set(cx.allow.report));
    KNOWN_FAIL.with(|k| k.borrow_mut().take());
    let ev = StepEval { tf, it: itf, tol: &tol, lin_scale, allow_underflow: cx.allow.pow_underflow, allow_hlg_black: cx.allow.hlg_black, allow_pq_dark: cx.allow.pq_dark };
    let mut st = BStats::default();
    let mut known = 0u64;
    let mut fail: Option<(String, String)> = None;
    for p in 0..nplanes {
        let (xs, ys, zs) = (&xs[p], &ys[p], &zs[p]);
        let f1 = ev.step(mode != 1, xs, ys, true, &mut st, &mut known);
        if fail.is_none() {
            fail = f1.map(|(k, d)| (k, format!("plane {p}: {d}")));
        }
        if mode == 2 {
            continue;
        }
        // the second step is judged against the definition at its actual inputs ys
        let sorted2 = ys.windows(2).all(|w| w[0] <= w[1]);
        let f2 = ev.step(mode == 1, ys, zs, sorted2, &mut st, &mut known);
        if fail.is_none() {
            fail = f2.map(|(k, d)| (k, format!("plane {p}: {d}")));
        }
        // round trip, measured in linear light, on the nominal range
        for i in 0..n {
            let (x, y, z) = (xs[i] as f64, ys[i] as f64, zs[i] as f64);
            if !(0.0..=1.0).contains(&x) || !z.is_finite() || !y.is_finite() {
                continue; // non-finite values were judged by `step`
            }
            let (lx, lz) = if mode == 0 { (x, z) } else { (ref_decode(tf, x, itf), ref_decode(tf, z, itf)) };
            if !lz.is_finite() {
                continue;
            }
            let d = (lz - lx).abs();
            st.rt = st.rt.max(d / lin_scale);
            let allowed = tol.rt_abs * lin_scale + tol.rt_rel * lx.abs();
            if allowed > 0.0 {
                st.ratio = st.ratio.max(d / allowed);
            }
            if d > allowed {
                let (e1, e2) = if mode == 0 { (1.0 / e_dec, e_dec) } else { (e_dec, 1.0 / e_dec) };
                if power_law && cx.allow.pow_underflow && ((x > 0.0 && x.log2() * e1 < -125.0) || (y > 0.0 && y.log2() * e2 < -125.0)) {
                    known += 1;
                    continue;
                }
                if tf == TransferFunction::Pq && cx.allow.pq_dark && mode == 1 {
                    let l = ref_decode(tf, x, itf);
                    if l >= 0.9e-4 && l * itf / 10000.0 <= 1.1e-4 {
                        known += 1;
                        continue;
                    }
                }
                if fail.is_none() {
                    fail = Some(("roundtrip".into(), format!("plane {p}: x={x:e} -> {y:e} -> {z:e}: linear-light error {d:e}, allowed {allowed:e}, at index {i}")));
                }
            }
        }
    }
    if known > 0 {
        case.obs("b_samples_skipped_known_deviation", known);
    }
    if let Some((sig, msg)) = KNOWN_FAIL.with(|k| k.borrow_mut().take()) {
        case.violation(sig, msg);
    }
    if cx.explore {
        eprintln!(
            "EXPB {csn} {tfk} {dk} {rk} it={it} e={e_dec:.3} enc={:.3e} dec={:.3e} rt={:.3e} dipe={:.3e} dipd={:.3e} ratio={:.3} idx={}",
            st.enc, st.dec, st.rt, st.dip_enc, st.dip_dec, st.ratio, case.idx
        );
    }
    if let Some((k, d)) = fail {
        case.violation(format!("b/{csn}/{tfk}/{dk}:{k}"), format!("{d}; {desc}"));
    }
}

/// Tolerances. The transfer functions of the decoder are fast approximations (ported from
/// libjxl: rational polynomials for PQ / sRGB-decode / log2 / 2^x, a table driven cubic for
/// sRGB-encode), so "returns it to within a small tolerance" is bounded by their accuracy class and
/// by f32 conditioning, not by 1 ulp. Each entry is ~3x the largest deviation from the
/// *definition* (f64) measured over 6e5 ramps on the pinned tree (measured values in brackets),
/// so a wrong constant / branch / exponent (>= 1e-3 effects) is far outside, while the unchanged
/// code has a 3x margin.
fn b_tolerances(tf: TransferFunction, e_dec: f64) -> BTol {
    match tf {
        // no-op transform: must be exact
        TransferFunction::Linear | TransferFunction::Unknown => BTol { enc_abs: 0.0, enc_rel: 0.0, dec_abs: 0.0, dec_rel: 0.0, rt_abs: 0.0, rt_rel: 0.0, dip_enc: 0.0, dip_dec: 0.0 },
        // encode = libjxl "FastLinearToSRGB" class approximation [1.66e-4 at 1.0, 1.2e-4 at 0.5,
        // 2.6e-5 at 0.03]; decode rational polynomial [2.3e-8]; round trip [3.8e-4 at 1.0]
        TransferFunction::Srgb => BTol { enc_abs: 1e-4, enc_rel: 2e-4, dec_abs: 2e-7, dec_rel: 1e-6, rt_abs: 1e-4, rt_rel: 5e-4, dip_enc: 1e-6, dip_dec: 1e-6 },
        // [enc 7.8e-7, dec 2.3e-6, rt 4.7e-6]; BT.709's rounded constants make the *definition*
        // discontinuous at the breakpoint: decode jumps down by 5.5e-5 at V = 0.081 (and encode up
        // by 2.4e-4 at L = 0.018), so dec/rt/dip carry that 5.5e-5 (+ margin)
        TransferFunction::Bt709 => BTol { enc_abs: 5e-6, enc_rel: 0.0, dec_abs: 1e-5, dec_rel: 0.0, rt_abs: 7e-5, rt_rel: 0.0, dip_enc: 1e-6, dip_dec: 7e-5 },
        // pure power laws through fast log2/2^x: relative error of the result grows with the
        // exponent [enc 1.8e-6; dec 2.9e-6 (E<=3) 7.3e-6 (E<=8) 1.5e-5 (E<=16); rt 5.8e-6 / 1.3e-5 /
        // 2.5e-5]. For E < 1 the 1e-7 flush-to-zero costs up to (1e-7)^E in a round trip [6.7e-5].
        TransferFunction::Gamma { .. } | TransferFunction::Dci => {
            let e = e_dec.max(1.0);
            let flush = if e_dec < 1.0 { 1.5 * (2e-7f64).powf(e_dec) } else { 0.0 };
            BTol { enc_abs: 6e-6, enc_rel: 0.0, dec_abs: 1e-6 + 3e-6 * e + flush, dec_rel: 0.0, rt_abs: 2e-6 + 5e-6 * e + flush, rt_rel: 0.0, dip_enc: 1e-6, dip_dec: 1e-6 }
        }
        // exact formulas with libm [enc 1e-7, dec 9e-9, rt 4.8e-7]
        TransferFunction::Hlg => BTol { enc_abs: 1e-6, enc_rel: 0.0, dec_abs: 1e-6, dec_rel: 0.0, rt_abs: 3e-6, rt_rel: 0.0, dip_enc: 1e-6, dip_dec: 1e-6 },
        // rational polynomials; linear quantities are in units of 10000 nits [enc 3.7e-6 outside
        // the "pq-dark" zone, dec 6.2e-7 (PQ 0 decodes to 0.0062 nits, as in libjxl), rt 6.2e-7]
        TransferFunction::Pq => BTol { enc_abs: 1.5e-5, enc_rel: 0.0, dec_abs: 2e-6, dec_rel: 1e-5, rt_abs: 2e-6, rt_rel: 2e-5, dip_enc: 1e-6, dip_dec: 2e-6 },
    }
}

// ---------------------------------------------------------------------------------------------
// (c) identity conversion
// ---------------------------------------------------------------------------------------------
fn sub_c(case: &mut Case, _cx: &Ctx) {
    let rng = &mut case.rng;
    let grey = rng.chance(1, 4);
    let (wp, wpk) = gen_wp(rng);
    let (pr, prk) = if grey { (Primaries::Srgb, "-") } else { gen_primaries(rng) };
    let (tf, tfk) = gen_tf(rng);
    let (intent, ik) = *rng.pick(&INTENTS);
    let enc = EnumColourEncoding {
        colour_space: if grey { ColourSpace::Grey } else { ColourSpace::Rgb },
        white_point: wp,
        primaries: pr,
        tf,
        rendering_intent: intent,
    };
    let csn = if grey { "grey" } else { "rgb" };
    // form: both sides the same enum value / both sides the same ICC-only profile
    let form = rng.below(3);
    let formk = ["enum", "icc-parsed", "icc-only"][form as usize];
    let it: f32 = *rng.pick(&[255.0f32, 255.0, 1000.0, 10000.0, 80.0]);
    let sig = format!("c/{csn}/{wpk}/{prk}/{tfk}/{ik}/{formk}");
    case.sig(sig.clone(), true);
    let desc = format!("{enc:?} form={formk} it={it}");
    case.input = Some(desc.clone().into_bytes());
    case.sample(format!("{{\"sub\":\"c\",\"class\":{},\"desc\":{}}}", json_str(&sig), json_str(&desc)));
    case.obs("c_cases", 1);

    let (from, to) = match form {
        0 => (ColorEncodingWithProfile::new(enc.clone()), ColorEncodingWithProfile::new(enc.clone())),
        1 => {
            // the image's encoding as it comes back from its own synthesised profile, both sides
            if let TransferFunction::Gamma { g: 0, .. } = tf {
                case.inconclusive("c: gamma 0");
                return;
            }
            let icc = colour_encoding_to_icc(&enc);
            match (ColorEncodingWithProfile::with_icc(&icc), ColorEncodingWithProfile::with_icc(&icc)) {
                (Ok(a), Ok(b)) => (a, b),
                _ => {
                    case.inconclusive("c: profile not parseable (see sub-check a)");
                    return;
                }
            }
        }
        _ => {
            // a profile the parser does not map to enum values
            let mut icc = colour_encoding_to_icc(&EnumColourEncoding { tf: TransferFunction::Linear, ..enc.clone() });
            // rename the TRC tags so that the parser finds no tone curve and keeps the profile
            // as ICC-only
            let ntags = icc_tags(&icc).len();
            for k in 0..ntags {
                let o = 132 + 12 * k;
                if &icc[o + 1..o + 4] == b"TRC" {
                    icc[o + 1] = b'Q';
                }
            }
            match (ColorEncodingWithProfile::with_icc(&icc), ColorEncodingWithProfile::with_icc(&icc)) {
                (Ok(a), Ok(b)) => {
                    if !matches!(a.encoding(), ColourEncoding::IccProfile(_)) {
                        case.inconclusive("c: patched profile still recognised");
                        return;
                    }
                    (a, b)
                }
                _ => {
                    case.inconclusive("c: profile not parseable (see sub-check a)");
                    return;
                }
            }
        }
    };
    case.obs(&format!("c_form_{formk}"), 1);
    let oim = <OpsinInverseMatrix as BundleDefault<()>>::default_with_context(());
    let mut tm = <ToneMapping as BundleDefault<()>>::default_with_context(());
    tm.intensity_target = it;
    let t = match ColorTransform::new(&from, &to, &oim, &tm, &NullCms) {
        Ok(t) => t,
        Err(e) => {
            case.violation(format!("c/{csn}/{formk}:build"), format!("identity transform could not be prepared: {e}; {desc}"));
            return;
        }
    };
    let rng = &mut case.rng;
    let n = rng.urange(1, 300);
    let nch = if rng.bool() { 3 } else { 4 };
    let style = rng.below(4);
    let mut planes: Vec<Vec<f32>> = (0..nch)
        .map(|_| {
            (0..n)
                .map(|_| match style {
                    0 => rng.f64() as f32,
                    1 => (-0.5 + 2.0 * rng.f64()) as f32,
                    2 => f32::from_bits(rng.next_u32()), // anything, incl. NaN / inf / denormals
                    _ => (rng.below(256) as f32) / 255.0,
                })
                .collect()
        })
        .collect();
    let orig: Vec<Vec<u32>> = planes.iter().map(|p| p.iter().map(|v| v.to_bits()).collect()).collect();
    let res = {
        let mut refs: Vec<&mut [f32]> = planes.iter_mut().map(|p| &mut p[..]).collect();
        t.run(&mut refs)
    };
    let want_ch = if grey { 1 } else { 3 };
    let mut bad = Vec::new();
    if !t.is_noop() {
        bad.push("is_noop() == false".to_string());
    }
    match res {
        Ok(k) => {
            if k != want_ch {
                bad.push(format!("run returned {k} channels, expected {want_ch}"));
            }
        }
        Err(e) => bad.push(format!("run failed: {e}")),
    }
    if t.input_channels() != want_ch || t.output_channels() != want_ch {
        bad.push(format!("input/output channels {}/{}", t.input_channels(), t.output_channels()));
    }
    for (c, p) in planes.iter().enumerate() {
        if let Some(i) = (0..n).find(|&i| p[i].to_bits() != orig[c][i]) {
            bad.push(format!("sample changed: plane {c} index {i}: {:#010x} -> {:#010x}", orig[c][i], p[i].to_bits()));
            break;
        }
    }
    if !bad.is_empty() {
        case.violation(format!("c/{csn}/{tfk}/{formk}:changed"), format!("{}; {desc}", bad.join("; ")));
    }
}

pub fn run(args: &Args) -> i32 {
    let cx = Ctx {
        allow: Allow::parse(args),
        explore: args.extra.contains_key("explore"),
        f32k: args.extra.get("f32k").and_then(|v| v.parse().ok()).unwrap_or(2e-6),
        kfac: args.extra.get("kfac").and_then(|v| v.parse().ok()).unwrap_or(3.0),
    };
    let only = args.extra.get("sub").cloned();
    run_cases(args, SALT, |case| {
        let pick = match only.as_deref() {
            Some("a") => 0,
            Some("b") => 60,
            Some("c") => 90,
            _ => case.rng.below(100),
        };
        if pick < 55 {
            sub_a(case, &cx)
        } else if pick < 88 {
            sub_b(case, &cx)
        } else {
            sub_c(case, &cx)
        }
    })
}
