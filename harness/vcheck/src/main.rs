mod common;
mod c04;
mod c14;

fn main() {
    let argv: Vec<String> = std::env::args().collect();
    let args = common::Args::parse(&argv);
    let code = match args.prop.as_str() {
        "c04" => c04::run(&args),
        "c14" => c14::run(&args),
        other => {
            eprintln!("unknown property worker: {other}");
            2
        }
    };
    std::process::exit(code);
}
