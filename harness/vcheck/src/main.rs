mod common;
mod c01;
mod c03;
mod c04;
mod c17;
mod c18;
mod dec;
mod lab;
mod c05;
mod c05p;
mod c06;
mod c07;
mod c08;
mod c09;
mod c10;
mod c11;
mod feedutil;
mod monitor;
mod c12;
mod c13;
mod c14;
mod c15;
mod c16;
mod c19;
mod c20;

fn main() {
    let argv: Vec<String> = std::env::args().collect();
    let args = common::Args::parse(&argv);
    let code = match args.prop.as_str() {
        "lab" => lab::run(),
        "labpreview" => lab::preview_probe(),
        "lablimit" => lab::limit_probe(),
        "labsqueeze" => lab::squeeze_probe(),
        "laborder" => lab::order_probe(),
        "c01" | "c02" => c01::run(&args),
        "c03" => c03::run(&args),
        "c04" => c04::run(&args),
        "c17" => c17::run(&args),
        "c18" => c18::run(&args),
        "c05" => c05::run(&args),
        "c06" => c06::run(&args),
        "c06lab" => c06::lab(&args),
        "c06scan" => c06::scan(&args),
        "c06st" => c06::selftest(&args),
        "c07" => c07::run(&args),
        "c08" => c08::run(&args),
        "c09" => c09::run(&args),
        "c10" => c10::run(&args),
        "c11" => c11::run(&args),
        "c12" => c12::run(&args),
        "c13" => c13::run(&args),
        "c14" => c14::run(&args),
        "c15" => c15::run(&args),
        "c16" => c16::run(&args),
        "c19" => c19::run(&args),
        "c20" => c20::run(&args),
        other => {
            eprintln!("unknown property worker: {other}");
            2
        }
    };
    std::process::exit(code);
}
