//! C06: a region-of-interest render equals the same rectangle of the full render.
//!
//! Workload (all streams are written by jxlgen / this module from the format definition; the
//! oracle never needs the pixel values, the property compares the decoder with itself):
//! * single-frame lossless Modular images with frame-level features switched on by editing the
//!   frame header before writing: colour upsampling 2/4/8, extra channels with `dim_shift` and
//!   `ec_upsampling`, Gabor-like filter, edge-preserving filter with 1..3 iterations (parameters
//!   chosen so that the filter really changes samples), noise synthesis, YCbCr frames with
//!   4:4:4 / 4:2:0 / 4:2:2 / 4:4:0 chroma subsampling, patches taken from a reference-only frame
//!   (patch dictionary entropy-coded with jxlgen's encoder), multi-pass, every orientation,
//!   16-bit ("narrow") and 32-bit buffers, palette / squeeze images (decoded completely for any
//!   region) and plain multi-group images (decoded group-filtered; written by
//!   `encode_plain_groups` because jxlgen's general encoder cannot produce them);
//! * multi-frame images: a background frame plus 1..2 frames that are cropped (negative
//!   offsets, sticking out of the canvas), blended (Replace / Add / Mul / Blend / MulAdd with an
//!   alpha channel) over the reference slot of the previous frame, optionally upsampled or
//!   filtered, optionally an animation (several keyframes);
//! * one real multi-layer file of the decoder's test data (`cmyk_layers.jxl`: four Modular
//!   layers, CMYK + alpha, Blend mode).
//! Not generated: VarDCT frames, splines, LF frames, JPEG reconstruction.
//!
//! Oracle: a FRESH `JxlImage` renders every keyframe of the whole image once; the object under
//! test receives a sequence of 1..6 `set_image_region` calls (random rectangles, the full image,
//! repeats, same-size-other-position moves), rendering after some of them; every render made
//! after a request must equal the requested rectangle of the full render for every keyframe and
//! channel: planes the decoder kept as integers exactly, float planes within 1e-6 (the
//! property's tolerance, also used by the project's own crop test; NaN equals NaN); finally the
//! output of the last request must be bit-identical to the output of a second fresh object that
//! received only that request (history independence). A panic or error of a render is a
//! violation too (the request sequence is named in the detail).
//!
//! Coordinate convention (read from `Render::image_planar` / `FrameBuffer::from_grids`, and
//! verified pixel-exactly against encoder truth for all 8 orientations by `selftest`):
//! `CropInfo` is expressed in ORIENTED image coordinates (`JxlImage::width()/height()` are the
//! oriented dimensions); `image_planar()` returns one single-channel `FrameBuffer` per channel
//! of exactly `crop.width x crop.height` samples whose sample (x, y) is oriented image sample
//! (crop.left + x, crop.top + y).
//!
//! Rectangles are drawn in canvas (unoriented) coordinates relative to the 8-px block grid, the
//! group grid and the upsampling grid (aligned, misaligned by one, straddling a grid line, 1x1,
//! single row / column, touching edges, >= 128 px like upstream's test, full) and then mapped
//! through the orientation by this module's own mapping (EXIF definition), so every alignment
//! class is reached for every orientation.
//!
//! Signatures. Case signature = (feature class, orientation class, class of the last rectangle
//! of the first sequence: kind | alignment of its origin | touches an edge, sequence length
//! class). Violation signatures are coarse families so that a known defect keeps one name:
//! `mismatch:<family>`, `history:<family>`, `panic:<family>`, `render-err:<family>` with family
//! in {single[+up][+ycc][+filter], single+noise, patch[+pad][+alpha], multi[+pad][+alpha], real};
//! "pad" = some plane of the frame is not frame-sized/frame-aligned (upsampling, subsampled
//! channels, filters).
//!
//! `--avoid multi-pad,patch-pad,noise-h1` restricts the generator (no filter/upsampling in
//! blended frames; patches only in frames without upsampling/filters; no noise when the last
//! group row is one sample high) - used to look behind the defects found with these features.

use crate::common::*;
use crate::dec::*;
use jxl_oxide::{CropInfo, JxlImage};
use jxl_render::ImageBuffer;
use jxlgen::bits::{f32_to_f16_bits, pack_signed, BitWriter};
use jxlgen::entropy::{lits, BuildOpts, EntropyCode, Item, Read};
use jxlgen::codestream::*;
use jxlgen::headers::*;
use jxlgen::imggen::random_dims;
use jxlgen::modmodel::{neighbourhood, predict, ChanInfo, Channel, Transform, WpHeader};
use jxlgen::modular::*;
use jxlgen::rng::Rng;

const REAL_FILE: &str = "/repo/crates/jxl-oxide-tests/tests/cms/cmyk_layers.jxl";

// ---------------------------------------------------------------------------------------------
// image generation

/// Generator restrictions (`--avoid a,b,..`), used to look behind already known defects. By
/// default nothing is avoided.
#[derive(Clone, Debug, Default)]
pub struct Avoid {
    /// no restoration filter / upsampling in frames of multi-frame images
    pub multi_filter: bool,
    /// no alpha patch blend modes when the frame has a filter or upsampled extra channels
    pub patch_alpha: bool,
    /// no noise when the last group row of the frame has height 1
    pub noise_h1: bool,
    /// patches only in frames without upsampling / subsampled channels / filters
    pub patch_region: bool,
}

impl Avoid {
    pub fn parse(s: &str) -> Self {
        let mut a = Avoid::default();
        for t in s.split(',') {
            match t {
                "multi-pad" | "multi-filter" => a.multi_filter = true,
                "patch-alpha" => a.patch_alpha = true,
                "noise-h1" => a.noise_h1 = true,
                "patch-pad" | "patch-region" => a.patch_region = true,
                _ => {}
            }
        }
        a
    }
}

#[derive(Clone, Debug)]
pub struct GenImg {
    pub bytes: Vec<u8>,
    /// unoriented canvas size
    pub w: u32,
    pub h: u32,
    pub orientation: u32,
    /// grid units (in canvas pixels) that matter for region handling, coarse to fine
    pub unit_group: u32,
    pub unit_block: u32,
    pub unit_up: u32,
    /// feature class (part of the signature)
    pub feat: String,
    /// coarse feature family, used in violation signatures (stable names for known findings)
    pub family: String,
    pub desc: String,
    pub nontrivial: bool,
    pub num_keyframes: usize,
    pub narrow: bool,
}

fn pick_depth(rng: &mut Rng, int_only: bool) -> BitDepth {
    match rng.below(10) {
        0..=3 => BitDepth::Int { bits: 8 },
        4 => BitDepth::Int { bits: 16 },
        5 => BitDepth::Int { bits: *rng.pick(&[10u32, 12, 14]) },
        6 => BitDepth::Int { bits: rng.u32range(1, 7) },
        7 => BitDepth::Int { bits: rng.u32range(17, 31) },
        8 if !int_only => *rng.pick(&[
            BitDepth::Float { bits: 32, exp_bits: 8 },
            BitDepth::Float { bits: 16, exp_bits: 5 },
            BitDepth::Float { bits: 24, exp_bits: 7 },
        ]),
        _ => BitDepth::Int { bits: rng.u32range(1, 24) },
    }
}

fn f16(x: f32) -> u16 {
    f32_to_f16_bits(x)
}

fn rf(rng: &mut Rng, lo: f64, hi: f64) -> f32 {
    (lo + (hi - lo) * rng.f64()) as f32
}

/// A restoration filter with parameters for which the filter really changes samples of a
/// [0, 1]-ranged image (so that a wrong padding is visible), or the all-default one.
fn gen_filter(rng: &mut Rng) -> (RestorationFilter, String) {
    if rng.chance(1, 8) {
        return (RestorationFilter::default(), "gab+epf2d".into());
    }
    let (gab, iters) = match rng.below(8) {
        0 => (true, 0),
        1 => (false, 1),
        2 => (false, 2),
        3 => (false, 3),
        4 => (true, 1),
        5 => (true, 2),
        6 => (true, 3),
        _ => (rng.bool(), rng.u32range(1, 3)),
    };
    let custom = if gab && rng.bool() {
        let mut w = [0u16; 6];
        for v in w.iter_mut() {
            *v = f16(rf(rng, 0.02, 0.3));
        }
        Some(w)
    } else {
        None
    };
    let channel_scale = if iters > 0 && rng.chance(2, 3) {
        Some(([f16(rf(rng, 0.2, 40.0)), f16(rf(rng, 0.2, 8.0)), f16(rf(rng, 0.2, 8.0))], rng.next_u32()))
    } else {
        None
    };
    let sigma = if iters > 0 && rng.chance(1, 2) {
        Some([f16(0.46), f16(rf(rng, 0.5, 2.0)), f16(rf(rng, 0.5, 8.0)), f16(rf(rng, 0.3, 1.0))])
    } else {
        None
    };
    // sigma below 0.3 switches the filter off per block; large sigma makes every tap count
    let sfm = *rng.pick(&[0.25f32, 1.0, 4.0, 16.0, 64.0, 300.0, 16.0, 64.0]);
    let f = RestorationFilter {
        all_default: false,
        gab: Gabor { enabled: gab, custom },
        epf: Epf { iters, sharp_lut: None, channel_scale, sigma, sigma_for_modular: f16(sfm) },
        extensions: Extensions::default(),
    };
    let name = match (gab, iters) {
        (true, 0) => "gab".to_string(),
        (false, n) => format!("epf{n}"),
        (true, n) => format!("gab+epf{n}"),
    };
    (f, name)
}

struct FrameSpec {
    fh: FrameHeader,
    noise: bool,
    /// reads of the patch dictionary (10 contexts), when the frame has patches
    patches: Option<Vec<Read>>,
    /// None: random transforms; Some: forced list
    transforms: Option<Vec<Transform>>,
    /// write the frame with this module's plain multi-group encoder
    plain_groups: bool,
}

struct EncodedFrame {
    full_decode: bool,
    nonzero: usize,
    samples: usize,
    enc_desc: String,
}

/// Encode one Modular frame with random content and append it to `out`.
fn write_modular_frame(rng: &mut Rng, out: &mut Vec<u8>, ih: &ImageHeader, spec: &FrameSpec, narrow: bool) -> Option<EncodedFrame> {
    let fh = &spec.fh;
    let mut infos = modular_channel_infos(ih, fh);
    if fh.do_ycbcr {
        // chroma subsampling: jpeg_upsampling codes are sampling factors (0: 1x1, 1: 2x2, 2: 2x1,
        // 3: 1x2); a channel is subsampled by max factor / own factor. Only even sizes are
        // generated, where "ceil(size / 2)" and "padded size / 2" agree.
        let fac = |c: u32| match c {
            0 => (1u32, 1u32),
            1 => (2, 2),
            2 => (2, 1),
            _ => (1, 2),
        };
        let mh = fh.jpeg_upsampling.iter().map(|&c| fac(c).0).max().unwrap();
        let mv = fh.jpeg_upsampling.iter().map(|&c| fac(c).1).max().unwrap();
        for c in 0..3 {
            let (h, v) = fac(fh.jpeg_upsampling[c]);
            let (hs, vs) = ((mh / h).trailing_zeros(), (mv / v).trailing_zeros());
            infos[c].w >>= hs;
            infos[c].h >>= vs;
            infos[c].hshift = hs as i32;
            infos[c].vshift = vs as i32;
        }
    }
    let layout = group_layout(fh);
    if layout.num_groups() as u64 * layout.num_passes() as u64 > 400 {
        return None;
    }
    let depth = ih.metadata.bit_depth;
    let is_float = matches!(depth, BitDepth::Float { .. });
    let bits = depth.bits();
    let (sample_lo, sample_hi) = if is_float {
        if bits >= 32 {
            (i32::MIN as i64 / 2, i32::MAX as i64 / 2)
        } else {
            (0, (1i64 << bits) - 1)
        }
    } else {
        (0, (1i64 << bits) - 1)
    };
    let (range_lo, range_hi) = if narrow {
        (-4095i64, 4095i64)
    } else {
        let m = (sample_hi - sample_lo).max(1);
        ((sample_lo - m).max(i32::MIN as i64 + 1), (sample_hi + m).min(i32::MAX as i64))
    };
    let wide_values = bits > 24 || is_float;
    let mopts = ModularOpts {
        bit_depth: bits,
        range_lo,
        range_hi,
        sample_lo,
        sample_hi,
        allow_wp: true,
        allow_lz77: true,
        plain_entropy: false,
        local_tree_pct: 20,
        local_transform_pct: if wide_values { 0 } else { 10 },
        transforms: spec.transforms.clone(),
        max_transforms: if wide_values { 0 } else { 3 },
        force_tree: None,
        palette_special: true,
        force_gens: None,
    };
    let plain = if spec.plain_groups && !is_float { encode_plain_groups(rng, &infos, &layout, bits) } else { None };
    let enc = match plain {
        Some(e) => e,
        None => encode_modular(rng, &infos, &layout, &mopts)?,
    };
    let mut prefix = BitWriter::new();
    if let Some(reads) = &spec.patches {
        let items = lits(reads);
        let code = EntropyCode::build(rng, 10, &items, &BuildOpts::default());
        code.write_header(&mut prefix, rng);
        code.write_items(&mut prefix, &items);
    }
    if spec.noise {
        // NoiseParameters: 8 x u(10) look-up table entries
        for _ in 0..8 {
            prefix.write(10, rng.below(1024));
        }
    }
    prefix.bool(true); // LF dequantisation all_default
    let sections = modular_frame_sections(fh, &enc, &prefix);
    let permute = rng.chance(1, 5);
    let rs = rng.bool();
    write_frame(out, rng, ih, fh, sections, permute, rs);
    let full_decode = enc.transforms.iter().any(|t| matches!(t, Transform::Palette { .. } | Transform::Squeeze(_)));
    Some(EncodedFrame { full_decode, nonzero: enc.nonzero_residuals, samples: enc.num_samples, enc_desc: enc.desc.clone() })
}


/// Patch dictionary of a frame of size fw x fh taking patches from the reference frame in `slot`
/// (size rw x rh). Every source rectangle lies inside the reference frame and every target
/// inside the frame. Returns the reads (context, value) in stream order.
fn gen_patch_dictionary(rng: &mut Rng, ih: &ImageHeader, slot: u32, rw: u32, rh: u32, fw: u32, fh: u32, fw_full: u32, fh_full: u32, no_alpha: bool) -> (Vec<Read>, String) {
    let n_ec = ih.metadata.ec_info.len();
    // alpha blend modes: only where the layout of `alpha_channel` is beyond doubt (a single
    // extra channel which is alpha)
    let alpha_ok = !no_alpha && n_ec == 1 && matches!(ih.metadata.ec_info[0].ty, EcType::Alpha { .. });
    let mut reads = Vec::new();
    let mut desc = Vec::new();
    let mut push = |ctx: u32, value: u32| reads.push(Read { ctx, value });
    // decoders bound the dictionary size by the frame area (libjxl's limits)
    let max_refs = ((fw_full as u64 * fh_full as u64) / 16).min(1 << 24) as u32;
    let nrefs = rng.u32range(1, 4).min(max_refs);
    push(0, nrefs);
    let mut total = 0u32;
    for i in 0..nrefs {
        let pw = rng.u32range(1, rw.min(fw).min(64));
        let ph = rng.u32range(1, rh.min(fh).min(64));
        let x0 = rng.u32range(0, rw - pw);
        let y0 = rng.u32range(0, rh - ph);
        let count = rng.u32range(1, 5).min(max_refs * 4 - total - (nrefs - i - 1)).max(1);
        total += count;
        push(1, slot);
        push(3, x0);
        push(3, y0);
        push(2, pw - 1);
        push(2, ph - 1);
        push(7, count - 1);
        let mut prev: Option<(i64, i64)> = None;
        for _ in 0..count {
            let x = rng.u32range(0, fw - pw) as i64;
            let y = rng.u32range(0, fh - ph) as i64;
            match prev {
                None => {
                    push(4, x as u32);
                    push(4, y as u32);
                }
                Some((px, py)) => {
                    push(6, pack_signed((x - px) as i32));
                    push(6, pack_signed((y - py) as i32));
                }
            }
            prev = Some((x, y));
            for _ in 0..n_ec + 1 {
                let mode = if alpha_ok && rng.chance(1, 3) { rng.u32range(4, 7) } else { rng.u32range(0, 3) };
                push(5, mode);
                // (alpha_channel is only coded with several extra channels: never here)
                if mode >= 3 {
                    push(9, rng.below(2) as u32);
                }
            }
            desc.push(format!("{pw}x{ph}@{x},{y}"));
        }
    }
    (reads, desc.join(" "))
}


// ---------------------------------------------------------------------------------------------
// plain multi-group Modular frames
//
// jxlgen's general Modular encoder only produces streams that have channel data in the global
// section (squeeze residuals, palette meta channels, channels not larger than a group), i.e.
// never the most common lossless layout: no global transforms, every channel larger than a
// group, all samples in the pass groups. Exactly that layout is the one the renderer decodes
// group-filtered for a region request, so this module writes it itself (from the format
// definition: single-leaf MA tree with one of the simple predictors, one global prefix code,
// one sub-bitstream per group holding the group's rectangle of every channel in order).

fn hash3(seed: u64, a: u64, b: u64) -> u64 {
    let mut x = seed ^ a.wrapping_mul(0x9E3779B97F4A7C15) ^ b.wrapping_mul(0xC2B2AE3D27D4EB4F);
    x ^= x >> 29;
    x = x.wrapping_mul(0xBF58476D1CE4E5B9);
    x ^= x >> 32;
    x
}

fn fill_channel(rng: &mut Rng, c: &mut Channel, hi: i64) {
    let seed = rng.next_u64();
    let kind = rng.below(4);
    let (fx, fy) = (0.01 + rng.f64() * 0.2, 0.01 + rng.f64() * 0.2);
    let bs = rng.urange(3, 40);
    for y in 0..c.h {
        for x in 0..c.w {
            let h = hash3(seed, x as u64, y as u64);
            let v = match kind {
                0 | 1 => {
                    // smooth waves with a little noise: every sample differs from its neighbours
                    let t = 0.5 + 0.25 * ((x as f64) * fx).sin() + 0.25 * ((y as f64) * fy + (x as f64) * 0.013).cos();
                    let n = ((h % 1000) as f64 / 1000.0 - 0.5) * 0.04;
                    ((t + n).clamp(0.0, 1.0) * hi as f64).round() as i64
                }
                2 => (hash3(seed, (x / bs) as u64, (y / bs) as u64) % (hi as u64 + 1)) as i64,
                _ => (h % (hi as u64 + 1)) as i64,
            };
            c.set(x, y, v as i32);
        }
    }
}

fn encode_plain_groups(rng: &mut Rng, infos: &[ChanInfo], layout: &GroupLayout, bits: u32) -> Option<EncodedModular> {
    let gd = layout.group_dim as usize;
    if layout.num_passes() != 1 || bits > 16 || infos.is_empty() {
        return None;
    }
    // the first channel must not fit the global section (else the general encoder applies)
    if infos[0].w <= gd && infos[0].h <= gd {
        return None;
    }
    let hi = (1i64 << bits) - 1;
    let predictor = *rng.pick(&[0u32, 1, 2, 4, 5, 5]);
    let tree = MaTree::from_spec(&TreeSpec::leaf(predictor));
    let mut truth = Vec::new();
    for ci in infos {
        let mut c = Channel::new(ci.w, ci.h, ci.hshift, ci.vshift);
        fill_channel(rng, &mut c, hi);
        truth.push(c);
    }
    let n_lf = layout.num_lf_groups() as usize;
    let n_g = layout.num_groups() as usize;
    let mut lf_reads: Vec<Vec<Read>> = vec![Vec::new(); n_lf];
    let mut pass_reads: Vec<Vec<Read>> = vec![Vec::new(); n_g];
    let mut nonzero = 0usize;
    for c in &truth {
        if c.hshift < 0 || c.vshift < 0 {
            return None;
        }
        let to_lf = c.hshift >= 3 && c.vshift >= 3;
        let (gw, gh, nx, ny) = if to_lf {
            ((gd * 8) >> c.hshift, (gd * 8) >> c.vshift, layout.lf_groups_x as usize, layout.lf_groups_y as usize)
        } else {
            (gd >> c.hshift, gd >> c.vshift, layout.groups_x as usize, layout.groups_y as usize)
        };
        if gw == 0 || gh == 0 || c.w > gw * nx || c.h > gh * ny {
            return None;
        }
        for gy in 0..ny {
            for gx in 0..nx {
                let (x0, y0) = (gx * gw, gy * gh);
                let w = c.w.saturating_sub(x0).min(gw);
                let h = c.h.saturating_sub(y0).min(gh);
                if w == 0 || h == 0 {
                    continue;
                }
                let mut sub = Channel::new(w, h, c.hshift, c.vshift);
                for y in 0..h {
                    for x in 0..w {
                        sub.set(x, y, c.at(x0 + x, y0 + y));
                    }
                }
                let out = if to_lf { &mut lf_reads[gy * nx + gx] } else { &mut pass_reads[gy * nx + gx] };
                for y in 0..h {
                    for x in 0..w {
                        let nb = neighbourhood(&sub, x, y);
                        let res = sub.at(x, y) as i64 - predict(predictor, &nb, 0);
                        if res != 0 {
                            nonzero += 1;
                        }
                        out.push(Read { ctx: 0, value: pack_signed(res as i32) });
                    }
                }
            }
        }
    }
    let all: Vec<Item> = lf_reads.iter().chain(pass_reads.iter()).flat_map(|r| lits(r)).collect();
    // prefix code: an (empty) global sub-bitstream then carries no entropy coder state at all
    let gcode = EntropyCode::build(rng, 1, &all, &BuildOpts { use_prefix: Some(true), ..Default::default() });
    let mut global = BitWriter::new();
    global.bool(true); // a global tree follows
    {
        let items = lits(&tree.reads());
        let up = rng.bool();
        let tcode = EntropyCode::build(rng, 6, &items, &BuildOpts { use_prefix: Some(up), ..Default::default() });
        tcode.write_header(&mut global, rng);
        tcode.write_items(&mut global, &items);
    }
    gcode.write_header(&mut global, rng);
    let header = SubHeader { use_global_tree: true, wp: WpHeader::default(), transforms: vec![] };
    header.write(&mut global); // global ModularHeader; no channel lives in the global section
    let section = |reads: &Vec<Read>| -> Option<BitWriter> {
        if reads.is_empty() {
            return None;
        }
        let mut bw = BitWriter::new();
        header.write(&mut bw);
        gcode.write_items(&mut bw, &lits(reads));
        Some(bw)
    };
    let lf_groups: Vec<Option<BitWriter>> = lf_reads.iter().map(section).collect();
    let pass_groups: Vec<Vec<Option<BitWriter>>> = vec![pass_reads.iter().map(section).collect()];
    let num_samples = truth.iter().map(|c| c.data.len()).sum();
    Some(EncodedModular {
        channels: truth,
        global,
        lf_groups,
        pass_groups,
        desc: format!("plain-groups pred={} groups={}x{} lf={}", predictor, layout.groups_x, layout.groups_y, n_lf),
        transforms: vec![],
        track: (0, hi),
        num_samples,
        nonzero_residuals: nonzero,
    })
}

fn random_transform_policy(rng: &mut Rng) -> Option<Vec<Transform>> {
    match rng.below(10) {
        0..=3 => Some(vec![]),
        4 => Some(vec![Transform::Rct { begin_c: 0, rct_type: rng.below(42) as u32 }]),
        _ => None,
    }
}

/// Image header shared by all generated images.
fn gen_image_header(rng: &mut Rng, w: u32, h: u32, int_only: bool, ec_shifts: bool, need_alpha: bool, force_rgb: bool) -> ImageHeader {
    let grey = !force_rgb && rng.chance(1, 3);
    let depth = pick_depth(rng, int_only);
    let n_ec = match rng.below(6) {
        0 | 1 => 0,
        2 | 3 => 1,
        4 => 2,
        _ => rng.urange(0, 4),
    };
    let n_ec = if need_alpha { n_ec.max(1) } else { n_ec };
    let mut ec_info = Vec::new();
    for i in 0..n_ec {
        let ty = if need_alpha && i == 0 {
            EcType::Alpha { associated: rng.bool() }
        } else {
            match rng.below(6) {
                0 | 1 => EcType::Alpha { associated: rng.bool() },
                2 => EcType::Depth,
                3 => EcType::SelectionMask,
                4 => EcType::Thermal,
                _ => EcType::Optional,
            }
        };
        let bd = if rng.chance(1, 2) { depth } else { pick_depth(rng, true) };
        let dim_shift = if ec_shifts && rng.chance(1, 3) { rng.u32range(1, 3) } else { 0 };
        let name = if rng.chance(1, 4) { format!("e{i}") } else { String::new() };
        ec_info.push(ExtraChannelInfo::new(ty, bd, dim_shift, &name));
    }
    let mut md = ImageMetadata::plain(depth, grey, ec_info);
    let max_bits = std::iter::once(depth.bits()).chain(md.ec_info.iter().map(|e| e.bit_depth.bits())).max().unwrap();
    md.modular_16bit_buffers = max_bits <= 12 && rng.chance(1, 2);
    if rng.chance(3, 4) {
        md.orientation = rng.u32range(1, 8);
        if md.orientation != 1 {
            md.extra_fields = true;
        }
    }
    ImageHeader { size: SizeHeader::with_random_repr(w, h, rng), metadata: md }
}

fn orient_class(o: u32) -> &'static str {
    match o {
        1 => "o1",
        2..=4 => "oflip",
        _ => "otr",
    }
}

/// Single-frame image with frame-level features.
pub fn gen_single(rng: &mut Rng, max_dim: u32, avoid: &Avoid) -> Option<GenImg> {
    let gss = match rng.below(6) {
        0 | 1 | 2 => 0u32,
        3 => 1,
        4 => 2,
        _ => 3,
    };
    let gdim = 128u32 << gss;
    let up = match rng.below(20) {
        0..=10 => 1u32,
        11..=14 => 2,
        15..=17 => 4,
        _ => 8,
    };
    let cs = up.trailing_zeros();
    let size_class = match rng.below(10) {
        0 => 0,
        1 | 2 => 1,
        3 | 4 => 2,
        _ => 3,
    };
    let (cw, ch) = random_dims(rng, size_class, (max_dim / up).max(4), gdim);
    let w = (cw * up - rng.below(up as u64) as u32).max(1);
    let h = (ch * up - rng.below(up as u64) as u32).max(1);
    let want_ycc = rng.chance(1, 10);
    let ycc_mode = *rng.pick(&[[0u32, 0, 0], [0, 1, 0], [0, 1, 0], [0, 2, 0], [0, 3, 0]]);
    let subsampled = want_ycc && ycc_mode != [0, 0, 0];
    // subsampled chroma: even colour sample sizes only (see write_modular_frame)
    let (cw, ch) = if subsampled { (cw.div_ceil(2) * 2, ch.div_ceil(2) * 2) } else { (cw, ch) };
    let (w, h) = if subsampled { ((cw * up - rng.below(up as u64) as u32).max(1), (ch * up - rng.below(up as u64) as u32).max(1)) } else { (w, h) };
    let want_filter = rng.chance(1, 3);
    let want_noise = rng.chance(1, 8);
    let want_patches = rng.chance(1, 6) && (w as u64 * h as u64) >= 16;
    let int_only = want_filter || want_noise || want_patches || want_ycc;
    let ih = gen_image_header(rng, w, h, int_only, true, false, want_noise || want_ycc);
    let narrow = ih.metadata.modular_16bit_buffers;
    let mut fh = FrameHeader::modular(&ih);
    fh.group_size_shift = gss;
    fh.upsampling = up;
    if want_ycc {
        fh.do_ycbcr = true;
        fh.jpeg_upsampling = ycc_mode;
    }
    let mut max_shift = cs;
    for (i, e) in ih.metadata.ec_info.iter().enumerate() {
        // total shift (ec_upsampling + dim_shift) must not be below the colour upsampling
        let min_s = cs.saturating_sub(e.dim_shift);
        let s = if rng.chance(2, 3) { min_s } else { rng.u32range(min_s, 3) };
        fh.ec_upsampling[i] = 1 << s;
        max_shift = max_shift.max(s + e.dim_shift);
    }
    if rng.chance(1, 5) {
        fh.passes = jxlgen::hgen::random_passes(rng);
    }
    let mut fname = "plain".to_string();
    if want_filter {
        let (f, n) = gen_filter(rng);
        fh.restoration_filter = f;
        fname = n;
    }
    let noise = want_noise && fh.encoded_color_channels(&ih) == 3 && !(avoid.noise_h1 && h > gdim && h % gdim == 1);
    if noise {
        fh.flags |= FLAG_NOISE;
    }
    let rs1 = rng.bool();
    let mut out = write_codestream_header(&ih, rng, rs1, None);
    let mut patches = None;
    let mut pdesc = String::new();
    let mut palpha = false;
    let want_patches = want_patches && !(avoid.patch_region && (want_filter || max_shift > 0 || subsampled));
    if want_patches {
        // reference-only frame (its own size) that the patches are taken from
        let slot = rng.u32range(0, 3);
        let mut rfh = FrameHeader::modular(&ih);
        rfh.frame_type = FrameType::ReferenceOnly;
        rfh.is_last = false;
        rfh.save_as_reference = slot;
        rfh.save_before_ct = true;
        rfh.group_size_shift = *rng.pick(&[0u32, 1]);
        if rng.chance(3, 4) {
            rfh.have_crop = true;
            rfh.width = rng.u32range(1, 200);
            rfh.height = rng.u32range(1, 200);
        }
        let rspec = FrameSpec { fh: rfh.clone(), noise: false, patches: None, transforms: random_transform_policy(rng), plain_groups: false };
        write_modular_frame(rng, &mut out, &ih, &rspec, narrow)?;
        // patches are applied at the colour sample resolution of the frame (before the colour
        // upsampling), so targets are placed inside cw x ch
        let no_alpha = avoid.patch_alpha && (want_filter || max_shift > cs);
        let (reads, d) = gen_patch_dictionary(rng, &ih, slot, rfh.width, rfh.height, cw, ch, w, h, no_alpha);
        palpha = reads.iter().any(|r| r.ctx == 5 && r.value >= 4);
        patches = Some(reads);
        pdesc = d;
        fh.flags |= FLAG_PATCHES;
    }
    // frames larger than a group: mostly the plain layout (group-filtered decode of regions)
    let plain_groups = (cw > gdim || ch > gdim) && rng.chance(2, 3);
    let spec = FrameSpec { fh: fh.clone(), noise, patches, transforms: random_transform_policy(rng), plain_groups };
    let ef = write_modular_frame(rng, &mut out, &ih, &spec, narrow)?;
    let ec_shift_max = max_shift - cs;
    let feat = format!(
        "mod-{}{}|up{}|ecs{}|{}{}{}|p{}",
        if ef.full_decode { "full" } else { "grp" },
        if want_ycc { format!("-ycc{}", ycc_mode[1]) } else { String::new() },
        up,
        ec_shift_max.min(3),
        fname,
        if noise { "+noise" } else { "" },
        if want_patches { "+patch" } else { "" },
        if fh.passes.num_passes > 1 { "n" } else { "1" },
    );
    let desc = format!(
        "{}x{} orient={} gdim={} up={} ycc={:?} ec_up={:?} dim_shift={:?} bd={:?} grey={} narrow={} filter={} noise={} passes={} patches=[{}] | {}",
        w,
        h,
        ih.metadata.orientation,
        gdim,
        up,
        if want_ycc { Some(ycc_mode) } else { None },
        fh.ec_upsampling,
        ih.metadata.ec_info.iter().map(|e| e.dim_shift).collect::<Vec<_>>(),
        ih.metadata.bit_depth,
        ih.metadata.grayscale(),
        narrow,
        fname,
        noise,
        fh.passes.num_passes,
        pdesc,
        ef.enc_desc
    );
    // coarse family for violation signatures
    let padded = up > 1 || max_shift > 0 || want_ycc || want_filter;
    let family = if want_patches {
        // "pad": some plane of the patched frame is not frame-aligned / frame-sized
        format!("patch{}{}", if padded { "+pad" } else { "" }, if palpha { "+alpha" } else { "" })
    } else if noise {
        // one name for every frame with noise synthesis
        String::from("single+noise")
    } else {
        let mut f = String::from("single");
        if up > 1 || max_shift > 0 {
            f.push_str("+up");
        }
        if want_ycc {
            f.push_str("+ycc");
        }
        if want_filter {
            f.push_str("+filter");
        }
        f
    };
    Some(GenImg {
        bytes: out,
        w,
        h,
        orientation: ih.metadata.orientation,
        family,
        unit_group: gdim * up,
        unit_block: 8 * up,
        unit_up: (1 << max_shift) * if subsampled { 2 } else { 1 },
        feat,
        desc,
        nontrivial: ef.samples >= 16 && ef.nonzero > 0,
        num_keyframes: 1,
        narrow,
    })
}

/// Multi-frame image: a background frame followed by 1..2 cropped frames that are blended onto
/// it (optionally as an animation, so that more than one keyframe exists).
pub fn gen_multi(rng: &mut Rng, max_dim: u32, avoid: &Avoid) -> Option<GenImg> {
    let gss = *rng.pick(&[0u32, 0, 0, 1]);
    let gdim = 128u32 << gss;
    let size_class = match rng.below(6) {
        0 => 1,
        1 | 2 => 2,
        _ => 3,
    };
    let (w, h) = random_dims(rng, size_class, max_dim.max(8), gdim);
    let use_alpha_modes = rng.chance(1, 2);
    let mut ih = gen_image_header(rng, w, h, true, false, use_alpha_modes, false);
    // blending happens on float samples; keep the arithmetic in the nominal range
    let animated = rng.chance(1, 3);
    if animated {
        ih.metadata.animation = Some(AnimationHeader { tps_numerator: 100, tps_denominator: 1, num_loops: 0, have_timecodes: rng.chance(1, 4) });
        ih.metadata.extra_fields = true;
    }
    let narrow = ih.metadata.modular_16bit_buffers;
    let n_ec = ih.metadata.ec_info.len();
    let alpha_idx: Vec<u32> = ih.metadata.ec_info.iter().enumerate().filter(|(_, e)| matches!(e.ty, EcType::Alpha { .. })).map(|(i, _)| i as u32).collect();
    let nframes = rng.urange(2, 3);
    let rs1 = rng.bool();
    let mut out = write_codestream_header(&ih, rng, rs1, None);
    let mut full_decode = false;
    let mut nonzero = 0;
    let mut samples = 0;
    let mut modes = Vec::new();
    let mut crops = Vec::new();
    let mut keyframes = 0;
    let mut filt = "plain".to_string();
    let mut prev_slot = 0u32;
    let mut max_up = 1u32;
    for f in 0..nframes {
        let last = f + 1 == nframes;
        let mut fh = FrameHeader::modular(&ih);
        fh.group_size_shift = gss;
        fh.is_last = last;
        if animated {
            fh.duration = if last || rng.chance(2, 3) { rng.u32range(1, 5) } else { 0 };
            fh.timecode = rng.next_u32();
        }
        // frame 0 is the background: full canvas (or, sometimes, a crop leaving part of the
        // canvas at its initial zero state)
        let cropped = if f == 0 { rng.chance(1, 4) } else { rng.chance(5, 6) };
        if cropped {
            fh.have_crop = true;
            let fw = rng.u32range(1, (w + w / 4).max(1));
            let fhh = rng.u32range(1, (h + h / 4).max(1));
            fh.width = fw;
            fh.height = fhh;
            // offsets may be negative and the frame may stick out of the canvas
            fh.x0 = rng.range(-(fw as i64) / 2, w as i64 - 1) as i32;
            fh.y0 = rng.range(-(fhh as i64) / 2, h as i64 - 1) as i32;
            if rng.chance(1, 4) {
                // aligned to the group grid
                fh.x0 = (fh.x0 / gdim as i32) * gdim as i32;
                fh.y0 = (fh.y0 / gdim as i32) * gdim as i32;
            }
        }
        // blended frames may be coded at a lower resolution
        if f > 0 && rng.chance(1, 4) && !avoid.multi_filter {
            let fup = *rng.pick(&[2u32, 2, 4]);
            fh.upsampling = fup;
            fh.ec_upsampling = vec![fup; n_ec];
            max_up = max_up.max(fup);
        }
        let mode = if f == 0 {
            BlendMode::Replace
        } else {
            let mut ms = vec![BlendMode::Replace, BlendMode::Add, BlendMode::Mul];
            if !alpha_idx.is_empty() {
                ms.push(BlendMode::Blend);
                ms.push(BlendMode::MulAdd);
                ms.push(BlendMode::Blend);
            }
            *rng.pick(&ms)
        };
        let bi = BlendingInfo {
            mode,
            alpha_channel: if alpha_idx.is_empty() { 0 } else { *rng.pick(&alpha_idx) },
            clamp: rng.bool(),
            // blend over the slot the previous frame was saved to
            source: prev_slot,
        };
        fh.blending_info = bi.clone();
        // extra channels: same "replace-ness" as the colour channels (keeps the `source` field
        // layout unambiguous, see headers.rs)
        fh.ec_blending_info = (0..n_ec)
            .map(|_| {
                let m = if mode == BlendMode::Replace {
                    BlendMode::Replace
                } else if rng.bool() {
                    mode
                } else {
                    *rng.pick(&[BlendMode::Add, BlendMode::Mul])
                };
                BlendingInfo { mode: m, ..bi.clone() }
            })
            .collect();
        if fh.ec_source_ambiguous(&ih) {
            return None;
        }
        if !last {
            // a frame is saved to its slot when it has no duration or the slot is not 0
            fh.save_as_reference = if fh.duration == 0 { rng.u32range(0, 3) } else { rng.u32range(1, 3) };
            prev_slot = fh.save_as_reference;
        }
        if rng.chance(1, 5) && f > 0 && !avoid.multi_filter {
            let (flt, n) = gen_filter(rng);
            fh.restoration_filter = flt;
            filt = n;
        }
        if fh.is_keyframe() {
            keyframes += 1;
        }
        modes.push(format!("{:?}", mode));
        crops.push((fh.x0, fh.y0, fh.width, fh.height, fh.save_as_reference, fh.upsampling));
        let (scw, sch) = fh.color_sample_size();
        let plain_groups = (scw > gdim || sch > gdim) && rng.chance(2, 3);
        let spec = FrameSpec { fh: fh.clone(), noise: false, patches: None, transforms: random_transform_policy(rng), plain_groups };
        let ef = write_modular_frame(rng, &mut out, &ih, &spec, narrow)?;
        full_decode |= ef.full_decode;
        nonzero += ef.nonzero;
        samples += ef.samples;
    }
    let feat = format!(
        "multi{}-{}|up{}|{}|{}|{}{}",
        nframes,
        if full_decode { "full" } else { "grp" },
        max_up,
        modes[1..].join("+"),
        filt,
        if animated { "anim" } else { "still" },
        if crops.iter().any(|c| c.0 < 0 || c.1 < 0) { "|neg" } else { "" },
    );
    let desc = format!(
        "{}x{} orient={} gdim={} frames(x0,y0,w,h,slot,up)={:?} modes={:?} animated={} bd={:?} ec={} narrow={}",
        w, h, ih.metadata.orientation, gdim, crops, modes, animated, ih.metadata.bit_depth, n_ec, narrow
    );
    // "pad": a blended frame needs more than the requested region (filter or upsampling)
    let mut family = String::from("multi");
    if max_up > 1 || filt != "plain" {
        family.push_str("+pad");
    }
    if modes.iter().any(|m| m == "Blend" || m == "MulAdd") {
        family.push_str("+alpha");
    }
    Some(GenImg {
        bytes: out,
        w,
        h,
        orientation: ih.metadata.orientation,
        family,
        unit_group: gdim,
        unit_block: 8,
        unit_up: max_up,
        feat,
        desc,
        nontrivial: samples >= 16 && nonzero > 0,
        num_keyframes: keyframes,
        narrow,
    })
}

// ---------------------------------------------------------------------------------------------
// rectangles

#[derive(Clone, Copy, Debug, PartialEq, Eq)]
pub struct Rect {
    pub x: u32,
    pub y: u32,
    pub w: u32,
    pub h: u32,
}

/// One axis of a rectangle inside [0, len): (start, size), size >= 1.
fn gen_interval(rng: &mut Rng, len: u32, units: &[u32]) -> (u32, u32) {
    let unit = *rng.pick(units);
    let lines = len / unit;
    let grid = |rng: &mut Rng| -> u32 { (rng.below(lines as u64 + 1) as u32 * unit).min(len) };
    let clampi = |s: i64, n: i64| -> (u32, u32) {
        let s = s.clamp(0, len as i64 - 1);
        let n = n.clamp(1, len as i64 - s);
        (s as u32, n as u32)
    };
    match rng.below(13) {
        0 => (0, len),
        1 => {
            // single sample
            let p = match rng.below(4) {
                0 => 0,
                1 => len as i64 - 1,
                2 => grid(rng) as i64 + rng.range(-1, 1),
                _ => rng.below(len as u64) as i64,
            };
            clampi(p, 1)
        }
        2 => {
            // a few samples, at random or around a grid line
            let n = rng.range(2, 7);
            let p = if rng.bool() { grid(rng) as i64 - rng.range(0, n) } else { rng.below(len as u64) as i64 };
            clampi(p, n)
        }
        3 => {
            // aligned start and size
            let s = grid(rng) as i64;
            let n = (rng.range(1, 3) * unit as i64).max(1);
            clampi(s, n)
        }
        4 => clampi(grid(rng) as i64, rng.range(1, len as i64)),
        5 => {
            // aligned end
            let e = grid(rng).max(1) as i64;
            let s = rng.below(e as u64) as i64;
            clampi(s, e - s)
        }
        6 => clampi(0, rng.range(1, len as i64)),
        7 => {
            let s = rng.below(len as u64) as i64;
            clampi(s, len as i64 - s)
        }
        8 => {
            // straddle a grid line by a few samples
            let g = grid(rng) as i64;
            let d = rng.range(1, 9);
            clampi(g - d, d + rng.range(1, 9))
        }
        9 => {
            // upstream-test-like: at least 128 samples
            let n = rng.range(128.min(len as i64), (len as i64 / 2).max(128).min(len as i64));
            let s = rng.range(0, len as i64 - n);
            clampi(s, n)
        }
        _ => {
            let s = rng.below(len as u64) as i64;
            clampi(s, rng.range(1, len as i64 - s))
        }
    }
}

fn gen_rect(rng: &mut Rng, img: &GenImg) -> Rect {
    let mut units = vec![img.unit_block, img.unit_group, 8];
    if img.unit_up > 1 {
        units.push(img.unit_up);
        units.push(img.unit_up);
    }
    let (x, w) = gen_interval(rng, img.w, &units);
    let (y, h) = gen_interval(rng, img.h, &units);
    Rect { x, y, w, h }
}

/// Map a rectangle given in unoriented canvas coordinates (canvas w x h) to oriented image
/// coordinates. Orientation as in EXIF / the JPEG XL image header: 2 mirrors horizontally,
/// 3 rotates by 180 degrees, 4 mirrors vertically, 5 transposes, 6 rotates 90 degrees clockwise,
/// 7 is the anti-transpose, 8 rotates 90 degrees counter-clockwise.
pub fn orient_rect(o: u32, w: u32, h: u32, r: Rect) -> Rect {
    let fx = w - r.x - r.w; // mirrored start
    let fy = h - r.y - r.h;
    match o {
        1 => r,
        2 => Rect { x: fx, ..r },
        3 => Rect { x: fx, y: fy, ..r },
        4 => Rect { y: fy, ..r },
        5 => Rect { x: r.y, y: r.x, w: r.h, h: r.w },
        6 => Rect { x: fy, y: r.x, w: r.h, h: r.w },
        7 => Rect { x: fy, y: fx, w: r.h, h: r.w },
        _ => Rect { x: r.y, y: fx, w: r.h, h: r.w },
    }
}

fn rect_class(img: &GenImg, r: Rect) -> String {
    let full = r.x == 0 && r.y == 0 && r.w == img.w && r.h == img.h;
    let kind = if full {
        "full"
    } else if r.w == 1 && r.h == 1 {
        "1x1"
    } else if r.h == 1 {
        "row"
    } else if r.w == 1 {
        "col"
    } else if r.w < 8 && r.h < 8 {
        "tiny"
    } else if r.w < 8 || r.h < 8 {
        "thin"
    } else if r.w.max(r.h) < 128 {
        "small"
    } else if r.w.min(r.h) < 128 {
        "mid"
    } else {
        "large"
    };
    let al = |u: u32| r.x % u == 0 && r.y % u == 0;
    let align = if al(img.unit_group) {
        "aG"
    } else if al(img.unit_block) {
        "a8"
    } else if img.unit_up > 1 && al(img.unit_up) {
        "aU"
    } else {
        "am"
    };
    let touches = (r.x == 0) as u32 + (r.y == 0) as u32 + (r.x + r.w == img.w) as u32 + (r.y + r.h == img.h) as u32;
    format!("{kind}|{align}|{}", if touches == 0 { "in" } else { "edge" })
}

// ---------------------------------------------------------------------------------------------
// rendering helpers

/// One channel of a render, oriented, with the information whether the decoder kept it as
/// integers (then the comparison is exact).
pub struct OutPlane {
    pub w: usize,
    pub h: usize,
    pub data: Vec<f32>,
    pub is_int: bool,
}

fn render_oriented(image: &JxlImage, k: usize) -> Result<Vec<OutPlane>, String> {
    let r = image.render_frame(k).map_err(|e| format!("{e}"))?;
    let ints: Vec<bool> = r
        .color_channels()
        .iter()
        .chain(r.extra_channels().1.iter())
        .map(|b| !matches!(b, ImageBuffer::F32(_)))
        .collect();
    let planes = r.image_planar();
    if planes.len() != ints.len() {
        return Err(format!("image_planar returned {} planes for {} channels", planes.len(), ints.len()));
    }
    Ok(planes
        .into_iter()
        .zip(ints)
        .map(|(fb, is_int)| OutPlane { w: fb.width(), h: fb.height(), data: fb.buf().to_vec(), is_int })
        .collect())
}

/// `render_oriented` with panics of the decoder turned into an error value, so that the
/// violation can name the request that triggered it. Err(Ok(msg)) = render error, Err(Err(..)) =
/// panic (location, message).
fn render_caught(image: &JxlImage, k: usize) -> Result<Vec<OutPlane>, Result<String, (String, String)>> {
    match guarded(|| render_oriented(image, k)) {
        Ok(Ok(p)) => Ok(p),
        Ok(Err(e)) => Err(Ok(e)),
        Err(p) => Err(Err(p)),
    }
}

/// Report a failed render. Returns the violation signature used.
fn report_render_failure(case: &mut Case, img: &GenImg, what: &str, f: Result<String, (String, String)>, ctx: &str) {
    match f {
        Ok(e) => case.violation(format!("render-err:{}", img.family), format!("{what} failed: {e}; {ctx}")),
        Err((loc, msg)) => {
            if is_repo_location(&loc) {
                case.violation(format!("panic:{}", img.family), format!("{what} panicked at {loc}: {msg}; {ctx}"));
            } else {
                // not the decoder's fault: let the framework see a harness error
                panic!("harness panic at {loc}: {msg}");
            }
        }
    }
}

fn same_sample(a: f32, b: f32, exact: bool) -> bool {
    if a.to_bits() == b.to_bits() || (a.is_nan() && b.is_nan()) {
        return true;
    }
    if exact {
        // +0.0 / -0.0 are the same sample value
        return a == b;
    }
    // the property's tolerance (1e-6 for samples nominally in [0, 1]); for samples far outside the
    // nominal range (straight-alpha division by a tiny mixed alpha gives magnitudes of 10..1000) an
    // absolute 1e-6 is below one ulp of f32, so the tolerance scales with the magnitude
    (a - b).abs() <= 1e-6 * a.abs().max(b.abs()).max(1.0)
}

/// Compare a region render with the rectangle `r` (oriented coordinates) of the full render.
fn compare_crop(full: &[OutPlane], got: &[OutPlane], r: Rect) -> Result<u64, String> {
    if full.len() != got.len() {
        return Err(format!("{} channels in the region render, {} in the full render", got.len(), full.len()));
    }
    let mut n = 0u64;
    for (c, (f, g)) in full.iter().zip(got).enumerate() {
        if (g.w, g.h) != (r.w as usize, r.h as usize) {
            return Err(format!("channel {c}: region buffer is {}x{}, requested {}x{}", g.w, g.h, r.w, r.h));
        }
        let exact = f.is_int && g.is_int;
        let mut worst: Option<(usize, usize, f32, f32)> = None;
        let mut bad = 0u64;
        for y in 0..g.h {
            let frow = &f.data[(r.y as usize + y) * f.w + r.x as usize..][..g.w];
            let grow = &g.data[y * g.w..][..g.w];
            if frow == grow {
                continue;
            }
            for x in 0..g.w {
                if !same_sample(frow[x], grow[x], exact) {
                    bad += 1;
                    let d = (frow[x] - grow[x]).abs();
                    if worst.map(|w| !(d <= (w.2 - w.3).abs())).unwrap_or(true) {
                        worst = Some((x, y, frow[x], grow[x]));
                    }
                }
            }
        }
        if let Some((x, y, e, a)) = worst {
            return Err(format!(
                "channel {c} ({}): {bad} of {} samples differ; worst at region ({x},{y}) = image ({},{}): full render {e:?}, region render {a:?} (|diff| {:e})",
                if exact { "integer" } else { "float" },
                g.w * g.h,
                r.x as usize + x,
                r.y as usize + y,
                (e - a).abs()
            ));
        }
        n += (g.w * g.h) as u64;
    }
    Ok(n)
}

fn bit_identical(a: &[OutPlane], b: &[OutPlane]) -> Result<(), String> {
    if a.len() != b.len() {
        return Err(format!("{} vs {} channels", a.len(), b.len()));
    }
    for (c, (p, q)) in a.iter().zip(b).enumerate() {
        if (p.w, p.h) != (q.w, q.h) {
            return Err(format!("channel {c}: {}x{} vs {}x{}", p.w, p.h, q.w, q.h));
        }
        if let Some(i) = p.data.iter().zip(&q.data).position(|(x, y)| x.to_bits() != y.to_bits()) {
            return Err(format!(
                "channel {c} at ({},{}): after the sequence {:?}, fresh object {:?}",
                i % p.w.max(1),
                i / p.w.max(1),
                p.data[i],
                q.data[i]
            ));
        }
    }
    Ok(())
}

fn crop_of(r: Rect) -> CropInfo {
    CropInfo { left: r.x, top: r.y, width: r.w, height: r.h }
}

// ---------------------------------------------------------------------------------------------
// the check

pub struct Subject<'a> {
    pub bytes: &'a [u8],
    pub img: &'a GenImg,
    pub pool: Pool,
    pub wide: bool,
}

pub struct FullRender {
    pub keyframes: Vec<Vec<OutPlane>>,
}

pub fn full_render(case: &mut Case, s: &Subject) -> Option<FullRender> {
    let image = match open_image(s.bytes, s.pool, s.wide) {
        Ok(i) => i,
        Err(e) => {
            case.violation("open-err", format!("valid image rejected: {e} [{}]", s.img.desc));
            return None;
        }
    };
    let (ow, oh) = if s.img.orientation >= 5 { (s.img.h, s.img.w) } else { (s.img.w, s.img.h) };
    if (image.width(), image.height()) != (ow, oh) {
        case.violation("dims", format!("decoder reports {}x{}, expected oriented size {}x{} [{}]", image.width(), image.height(), ow, oh, s.img.desc));
        return None;
    }
    let nk = image.num_loaded_keyframes();
    if nk != s.img.num_keyframes || !image.is_loading_done() {
        case.violation("keyframes", format!("{} keyframes loaded (done={}), expected {} [{}]", nk, image.is_loading_done(), s.img.num_keyframes, s.img.desc));
        return None;
    }
    let mut keyframes = Vec::new();
    for k in 0..nk {
        match render_caught(&image, k) {
            Ok(p) => {
                for (c, pl) in p.iter().enumerate() {
                    if (pl.w, pl.h) != (ow as usize, oh as usize) {
                        case.violation("full-size", format!("full render keyframe {k} channel {c} is {}x{}, image {}x{} [{}]", pl.w, pl.h, ow, oh, s.img.desc));
                        return None;
                    }
                }
                keyframes.push(p);
            }
            Err(f) => {
                report_render_failure(case, s.img, &format!("FULL render of keyframe {k}"), f, &format!("[{}]", s.img.desc));
                return None;
            }
        }
    }
    case.obs("full_renders", nk as u64);
    Some(FullRender { keyframes })
}

#[derive(Clone, Debug)]
struct Step {
    /// unoriented canvas rectangle
    rect: Rect,
    render: bool,
}

fn gen_sequence(rng: &mut Rng, img: &GenImg) -> Vec<Step> {
    let n = match rng.below(20) {
        0..=7 => 1,
        8..=11 => 2,
        12..=14 => 3,
        15 | 16 => 4,
        17 | 18 => 5,
        _ => 6,
    };
    let full = Rect { x: 0, y: 0, w: img.w, h: img.h };
    let mut steps: Vec<Step> = Vec::new();
    for i in 0..n {
        let last = i + 1 == n;
        let rect = match rng.below(10) {
            0 => full,
            1 if !steps.is_empty() => steps[rng.below(steps.len() as u64) as usize].rect,
            2 | 3 if !steps.is_empty() => {
                // same size as an earlier request, other position (a cache keyed by size only
                // would return stale samples)
                let p = steps[rng.below(steps.len() as u64) as usize].rect;
                Rect { x: rng.u32range(0, img.w - p.w), y: rng.u32range(0, img.h - p.h), ..p }
            }
            _ => gen_rect(rng, img),
        };
        // the final request is sometimes the full image after cropped requests
        let rect = if last && n > 1 && rng.chance(1, 6) { full } else { rect };
        steps.push(Step { rect, render: last || rng.chance(3, 5) });
    }
    steps
}

fn seq_class(n: usize) -> &'static str {
    match n {
        1 => "s1",
        2 | 3 => "s2-3",
        _ => "s4-6",
    }
}

fn fmt_steps(img: &GenImg, steps: &[Step]) -> String {
    steps
        .iter()
        .map(|s| {
            let o = orient_rect(img.orientation, img.w, img.h, s.rect);
            format!("{}x{}+{}+{}{}", o.w, o.h, o.x, o.y, if s.render { "R" } else { "" })
        })
        .collect::<Vec<_>>()
        .join(" -> ")
}

/// Run one request sequence on one object. Returns false after a violation.
fn run_sequence(case: &mut Case, s: &Subject, full: &FullRender, steps: &[Step], check_history: bool) -> bool {
    let img = s.img;
    let mut image = match open_image(s.bytes, s.pool, s.wide) {
        Ok(i) => i,
        Err(e) => {
            case.violation("open-err", format!("{e}"));
            return false;
        }
    };
    if std::env::var("VCHECK_DEBUG").is_ok() {
        eprintln!("  sequence: {} pool={:?} wide={}", fmt_steps(img, steps), s.pool, s.wide);
    }
    let nk = full.keyframes.len();
    let ctx = |steps: &[Step], upto: usize| format!("requests (oriented WxH+L+T, R = rendered): {} [step {} of {}] pool={:?} wide={} [{}]", fmt_steps(img, steps), upto + 1, steps.len(), s.pool, s.wide, img.desc);
    let mut last_out: Vec<Vec<OutPlane>> = Vec::new();
    for (i, st) in steps.iter().enumerate() {
        let orect = orient_rect(img.orientation, img.w, img.h, st.rect);
        image.set_image_region(crop_of(orect));
        let cur = image.current_image_region();
        if (cur.left, cur.top, cur.width, cur.height) != (orect.x, orect.y, orect.w, orect.h) {
            case.violation("current-region", format!("current_image_region() = {cur:?} after requesting {orect:?}; {}", ctx(steps, i)));
            return false;
        }
        case.obs("region_requests", 1);
        if !st.render {
            continue;
        }
        let last = i + 1 == steps.len();
        let mut outs = Vec::new();
        // keyframes are rendered in a rotating order so that "later keyframe first" happens too
        for kk in 0..nk {
            let k = (kk + i) % nk;
            let got = match render_caught(&image, k) {
                Ok(g) => g,
                Err(f) => {
                    report_render_failure(case, img, &format!("keyframe {k}: render of region {}x{}+{}+{}", orect.w, orect.h, orect.x, orect.y), f, &ctx(steps, i));
                    return false;
                }
            };
            match compare_crop(&full.keyframes[k], &got, orect) {
                Ok(n) => {
                    case.obs("samples_compared", n);
                    case.obs("region_renders", 1);
                }
                Err(e) => {
                    let cls = rect_class(img, st.rect);
                    case.violation(
                        format!("mismatch:{}", img.family),
                        format!("keyframe {k}: region {}x{}+{}+{} (class {cls}): {e}; {}", orect.w, orect.h, orect.x, orect.y, ctx(steps, i)),
                    );
                    return false;
                }
            }
            if last {
                outs.push((k, got));
            }
        }
        if last {
            outs.sort_by_key(|o| o.0);
            last_out = outs.into_iter().map(|o| o.1).collect();
        }
    }
    if check_history {
        let st = steps.last().unwrap();
        let orect = orient_rect(img.orientation, img.w, img.h, st.rect);
        let mut fresh = match open_image(s.bytes, s.pool, s.wide) {
            Ok(i) => i,
            Err(e) => {
                case.violation("open-err", format!("{e}"));
                return false;
            }
        };
        fresh.set_image_region(crop_of(orect));
        for k in 0..nk {
            let got = match render_caught(&fresh, k) {
                Ok(g) => g,
                Err(f) => {
                    report_render_failure(case, img, &format!("keyframe {k}: fresh object, render of region {}x{}+{}+{}", orect.w, orect.h, orect.x, orect.y), f, &ctx(steps, steps.len() - 1));
                    return false;
                }
            };
            if let Err(e) = bit_identical(&last_out[k], &got) {
                case.violation(
                    format!("history:{}", img.family),
                    format!("keyframe {k}: output of the last request depends on earlier requests: {e}; {}", ctx(steps, steps.len() - 1)),
                );
                return false;
            }
            case.obs("history_checks", 1);
        }
    }
    true
}

fn real_file_img(bytes: &[u8]) -> Option<GenImg> {
    // learn the geometry from the file through the decoder's header API (metadata only)
    let image = open_image(bytes, Pool::None, false).ok()?;
    let o = image.image_header().metadata.orientation;
    let (ow, oh) = (image.width(), image.height());
    let (w, h) = if o >= 5 { (oh, ow) } else { (ow, oh) };
    let nk = image.num_loaded_keyframes();
    Some(GenImg {
        bytes: Vec::new(),
        w,
        h,
        orientation: o,
        unit_group: 256,
        unit_block: 8,
        unit_up: 1,
        feat: "real-modular-layers".into(),
        family: "real".into(),
        desc: format!("cmyk_layers.jxl {w}x{h} orient={o} keyframes={nk} frames={}", image.num_loaded_frames()),
        nontrivial: true,
        num_keyframes: nk,
        narrow: false,
    })
}

pub fn run(args: &Args) -> i32 {
    let thorough = args.thorough();
    let max_dim = args.extra_u64("max-dim", if thorough { 1100 } else { 520 }) as u32;
    let nseq = args.extra_u64("nseq", if thorough { 6 } else { 4 });
    // share of cases spent on the (slow) real file: one in `real_every`
    let real_every = args.extra_u64("real-every", if thorough { 150 } else { 100 });
    // share of VarDCT (JPEG transcode) images among the generated ones: one in `vardct_every`
    let vardct_every = args.extra_u64("vardct-every", 10);
    let avoid = Avoid::parse(args.extra.get("avoid").map(|s| s.as_str()).unwrap_or(""));
    let real_bytes: Option<Vec<u8>> = std::fs::read(REAL_FILE).ok();
    let mut real_full: Option<(GenImg, FullRender)> = None;
    run_cases(args, 0xC06, |case| {
        let mut rng = case.rng.fork();
        // ---------------- real file share
        if real_every > 0 && case.idx % real_every == real_every - 1 {
            let Some(bytes) = real_bytes.as_ref() else {
                case.inconclusive("real file not available");
                return;
            };
            if real_full.is_none() {
                let Some(img) = real_file_img(bytes) else {
                    case.violation("open-err", "cmyk_layers.jxl rejected");
                    return;
                };
                let s = Subject { bytes, img: &img, pool: Pool::None, wide: false };
                let Some(f) = full_render(case, &s) else { return };
                real_full = Some((img, f));
            }
            let (img, full) = real_full.as_ref().unwrap();
            let s = Subject { bytes, img, pool: Pool::None, wide: false };
            let steps = gen_sequence(&mut rng, img);
            let cls = rect_class(img, steps.last().unwrap().rect);
            case.sig(format!("{}|{}|{}|{}", img.feat, orient_class(img.orientation), cls, seq_class(steps.len())), true);
            case.sample(format!("{{\"image\":{},\"requests\":{}}}", json_str(&img.desc), json_str(&fmt_steps(img, &steps))));
            case.obs_set("features", img.feat.clone());
            case.obs_set("rect_classes", cls);
            case.obs("real_file_cases", 1);
            let hist = steps.len() > 1 || rng.chance(1, 4);
            run_sequence(case, &s, full, &steps, hist);
            return;
        }
        // ---------------- generated images
        let multi = rng.chance(1, 4);
        let mut img = None;
        if vardct_every > 0 && rng.below(vardct_every) == 0 {
            // VarDCT frame (a transcoded random JPEG: 8x8 blocks, chroma subsampling, chroma-from-luma);
            // the oracle compares the decoder with itself, so no pixel model of VarDCT is needed
            if let Some((bytes, spec)) = crate::c17::valid_vardct_image(&mut rng, if thorough { 700 } else { 400 }) {
                let samp = spec.class.split('|').nth(1).unwrap_or("").to_string();
                img = Some(GenImg {
                    bytes,
                    w: spec.width,
                    h: spec.height,
                    orientation: 1,
                    unit_group: 256,
                    unit_block: 8 * spec.hmax().max(spec.vmax()) as u32,
                    unit_up: 1,
                    feat: format!("vardct-jpeg|{samp}"),
                    family: "vardct".into(),
                    desc: format!("VarDCT JPEG transcode {}x{} [{}]", spec.width, spec.height, spec.class),
                    nontrivial: true,
                    num_keyframes: 1,
                    narrow: false,
                });
            }
        }
        for _ in 0..30 {
            if img.is_some() {
                break;
            }
            let g = if multi { gen_multi(&mut rng, max_dim, &avoid) } else { gen_single(&mut rng, max_dim, &avoid) };
            if let Some(i) = g {
                img = Some(i);
                break;
            }
        }
        let Some(img) = img else {
            case.inconclusive("generator gave up");
            return;
        };
        // (replays regenerate the image from seed + case index; only small inputs are attached)
        if img.bytes.len() <= 64 << 10 {
            case.set_input(&img.bytes);
        }
        if std::env::var("VCHECK_DEBUG").is_ok() {
            eprintln!("case {}: {} | {}", case.idx, img.feat, img.desc);
        }
        let pool = if rng.chance(1, 5) { Pool::Rayon(3) } else { Pool::None };
        let wide = img.narrow && rng.chance(1, 3);
        let s = Subject { bytes: &img.bytes, img: &img, pool, wide };
        let seqs: Vec<Vec<Step>> = (0..nseq).map(|_| gen_sequence(&mut rng, &img)).collect();
        let cls0 = rect_class(&img, seqs[0].last().unwrap().rect);
        case.sig(format!("{}|{}|{}|{}", img.feat, orient_class(img.orientation), cls0, seq_class(seqs[0].len())), img.nontrivial);
        case.sample(format!(
            "{{\"image\":{},\"feat\":{},\"bytes\":{},\"requests\":{}}}",
            json_str(&img.desc),
            json_str(&img.feat),
            img.bytes.len(),
            json_str(&fmt_steps(&img, &seqs[0]))
        ));
        case.obs_set("features", img.feat.clone());
        case.obs_set("orientations", format!("{}", img.orientation));
        let Some(full) = full_render(case, &s) else { return };
        for steps in &seqs {
            for st in steps {
                case.obs_set("rect_classes", rect_class(&img, st.rect));
            }
            case.obs_set("seq_len", format!("{}", steps.len()));
            let hist = steps.len() > 1 || rng.chance(1, 3);
            if !run_sequence(case, &s, &full, steps, hist) {
                return;
            }
            case.obs("sequences", 1);
        }
    })
}

/// Debug aid (register as `"c06lab" => c06::lab(&args)` if wanted): `vcheck c06lab --file F
/// [--region L,T,W,H] [--probe X,Y] [--pool N] [--wide 1]` renders a file and
/// prints the geometry of the returned buffers.
#[allow(dead_code)]
pub fn lab(args: &Args) -> i32 {
    let bytes = std::fs::read(args.extra.get("file").expect("--file")).expect("read");
    let pool = match args.extra.get("pool").map(|s| s.as_str()) { Some(n) if n != "0" => Pool::Rayon(n.parse().unwrap()), _ => Pool::None };
    let mut image = open_image(&bytes, pool, args.extra.contains_key("wide")).expect("open");
    println!("image {}x{} orientation {} keyframes {} frames {}", image.width(), image.height(), image.image_header().metadata.orientation, image.num_loaded_keyframes(), image.num_loaded_frames());
    for i in 0..image.num_loaded_frames() {
        let f = image.frame(i).unwrap();
        let h = f.header();
        println!("frame {i}: type {:?} enc {:?} {}x{} @({},{}) up {} ec_up {:?} flags {:?} last {} dur {} save {} blend {:?}", h.frame_type, h.encoding, h.width, h.height, h.x0, h.y0, h.upsampling, h.ec_upsampling, h.flags, h.is_last, h.duration, h.save_as_reference, h.blending_info.mode);
        println!("   filter gab={} epf={:?}", h.restoration_filter.gab.enabled(), h.restoration_filter.epf);
    }
    if let Some(r) = args.extra.get("region") {
        let v: Vec<u32> = r.split(',').map(|x| x.parse().unwrap()).collect();
        image.set_image_region(CropInfo { left: v[0], top: v[1], width: v[2], height: v[3] });
    }
    for k in 0..image.num_loaded_keyframes() {
        let r = image.render_frame(k).expect("render");
        for (c, b) in r.color_channels().iter().chain(r.extra_channels().1.iter()).enumerate() {
            println!("keyframe {k} channel {c}: buffer {}x{} {}", b.width(), b.height(), match b { ImageBuffer::F32(_) => "f32", ImageBuffer::I32(_) => "i32", ImageBuffer::I16(_) => "i16" });
        }
        let p = r.image_planar();
        for (c, fb) in p.iter().enumerate() {
            let s: f64 = fb.buf().iter().map(|&v| v as f64).sum();
            println!("  planar {c}: {}x{} sum {s}", fb.width(), fb.height());
            if let Some(pr) = args.extra.get("probe") {
                // probe: image coordinates (oriented); printed relative to the current region
                let v: Vec<usize> = pr.split(',').map(|x| x.parse().unwrap()).collect();
                let cr = image.current_image_region();
                let (x, y) = (v[0] - cr.left as usize, v[1] - cr.top as usize);
                println!("    value at image ({},{}) = {:?}", v[0], v[1], fb.buf()[y * fb.width() + x]);
            }
        }
    }
    0
}

/// Debug aid (register as `"c06scan" => c06::scan(&args)` if wanted): `vcheck c06scan --file F
/// [--n N] [--group G] [--show K]` tries random single requests on
/// fresh objects and prints the failing ones.
#[allow(dead_code)]
pub fn scan(args: &Args) -> i32 {
    install_panic_hook();
    let bytes = std::fs::read(args.extra.get("file").expect("--file")).expect("read");
    let Some(mut img) = real_file_img(&bytes) else { return 2 };
    img.unit_group = args.extra_u64("group", 128) as u32;
    let full = {
        let image = open_image(&bytes, Pool::None, false).expect("open");
        (0..image.num_loaded_keyframes()).map(|k| render_oriented(&image, k).expect("full render")).collect::<Vec<_>>()
    };
    let mut rng = Rng::new(args.seed);
    let mut shown = 0;
    for _ in 0..args.extra_u64("n", 200) {
        let r = gen_rect(&mut rng, &img);
        let o = orient_rect(img.orientation, img.w, img.h, r);
        let res = guarded(|| {
            let mut image = open_image(&bytes, Pool::None, false).expect("open");
            image.set_image_region(crop_of(o));
            let mut errs = Vec::new();
            for k in 0..full.len() {
                match render_oriented(&image, k) {
                    Ok(g) => {
                        if let Err(e) = compare_crop(&full[k], &g, o) {
                            errs.push(format!("keyframe {k}: {e}"));
                        }
                    }
                    Err(e) => errs.push(format!("keyframe {k}: render error {e}")),
                }
            }
            errs
        });
        let msg = match res {
            Ok(e) if e.is_empty() => continue,
            Ok(e) => e.join("; "),
            Err((loc, m)) => format!("panic at {loc}: {m}"),
        };
        println!("region {}x{}+{}+{} (--region {},{},{},{}): {}", o.w, o.h, o.x, o.y, o.x, o.y, o.w, o.h, &msg[..msg.len().min(300)]);
        shown += 1;
        if shown >= args.extra_u64("show", 8) {
            break;
        }
    }
    println!("{shown} failing requests shown");
    0
}

/// Development self-test (register as `"c06st" => c06::selftest(&args)` if wanted): the plain
/// multi-group writer decodes to its truth and
/// the oriented output follows the convention stated in the module documentation.
#[allow(dead_code)]
pub fn selftest(args: &Args) -> i32 {
    let mut bad = 0;
    for seed in 0..args.extra_u64("n", 40) {
        let mut rng = Rng::new(seed ^ 0x5e1f);
        let gss = rng.below(2) as u32;
        let gdim = 128u32 << gss;
        let (w, h) = (rng.u32range(gdim / 2, 3 * gdim), rng.u32range(gdim + 1, 3 * gdim));
        let grey = rng.bool();
        let bits = *rng.pick(&[8u32, 8, 12, 16, 5]);
        let ec = if rng.bool() { vec![ExtraChannelInfo::new(EcType::Alpha { associated: false }, BitDepth::Int { bits }, 0, "")] } else { vec![] };
        let mut md = ImageMetadata::plain(BitDepth::Int { bits }, grey, ec);
        md.modular_16bit_buffers = false;
        md.orientation = rng.u32range(1, 8);
        md.extra_fields = md.orientation != 1;
        let ih = ImageHeader { size: SizeHeader::new(w, h), metadata: md };
        let mut fh = FrameHeader::modular(&ih);
        fh.group_size_shift = gss;
        let infos = modular_channel_infos(&ih, &fh);
        let layout = group_layout(&fh);
        let Some(enc) = encode_plain_groups(&mut rng, &infos, &layout, bits) else {
            println!("seed {seed}: encoder declined");
            continue;
        };
        let mut out = write_codestream_header(&ih, &mut rng, false, None);
        let mut prefix = BitWriter::new();
        prefix.bool(true);
        let sections = modular_frame_sections(&fh, &enc, &prefix);
        write_frame(&mut out, &mut rng, &ih, &fh, sections, false, false);
        let image = match open_image(&out, Pool::None, false) {
            Ok(i) => i,
            Err(e) => {
                println!("seed {seed}: open failed {e}");
                bad += 1;
                continue;
            }
        };
        let planes = match render_oriented(&image, 0) {
            Ok(p) => p,
            Err(e) => {
                println!("seed {seed}: render failed {e} ({})", enc.desc);
                bad += 1;
                continue;
            }
        };
        let o = ih.metadata.orientation;
        let maxv = ((1u64 << bits) - 1) as f64;
        let mut ok = planes.len() == enc.channels.len();
        for (c, (p, t)) in planes.iter().zip(&enc.channels).enumerate() {
            // every canvas sample must appear at its oriented position
            for y in 0..t.h {
                for x in 0..t.w {
                    let r = orient_rect(o, w, h, Rect { x: x as u32, y: y as u32, w: 1, h: 1 });
                    let got = p.data[r.y as usize * p.w + r.x as usize] as f64;
                    let back = (got * maxv).round() as i64;
                    if back != t.at(x, y) as i64 {
                        if ok {
                            println!("seed {seed}: channel {c} canvas ({x},{y}) -> oriented ({},{}): decoded {back}, truth {} (orientation {o}, {})", r.x, r.y, t.at(x, y), enc.desc);
                        }
                        ok = false;
                    }
                }
            }
        }
        if !ok {
            bad += 1;
        }
    }
    println!("selftest: {bad} bad");
    (bad != 0) as i32
}
