//! C10: container framing - codestream and boxes are recovered for every layout, for every
//! chunking of the file bytes; ill-formed layouts are rejected with an error.
//!
//! Code under test: `jxl_bitstream::ContainerParser` (event stream, driven exactly the way
//! `jxl-oxide/src/lib.rs` drives it: unconsumed bytes are fed again together with the next
//! chunk) and the auxiliary box API of `jxl_oxide::JxlImage` (`aux_boxes().first_exif()`,
//! `first_xml()`, Brotli-decompressed contents, `finalize()`).
//!
//! Oracles (all exact, no tolerances):
//! 1. WRITER TRUTH (`jxlgen::container::truth_of`, derived from the layout description, never
//!    from the bytes): concatenated `Codestream` events == concatenated codestream payloads;
//!    aux boxes (type, brob flag, stored payload, to-EOF flag) each delivered once, in order.
//! 2. REFERENCE READER (`jxlgen::container::ref_parse`, whole-file, written from the box syntax
//!    of ISO 18181-2): the merged event stream, the number of consumed bytes, `kind()` and
//!    accept/reject must equal the reference for ANY byte string, which also covers mutated and
//!    truncated files for which there is no writer truth.  An error must not be raised before
//!    the byte that makes the file ill-formed has been supplied, and must be raised once it has.
//! 3. CHUNKING INVARIANCE: every chunking gives the identical merged event stream.
//! 4. jxl-oxide level, with a codestream that really initialises (a minimal header written
//!    here from the format definition, or the codestream of
//!    `jxl-oxide-tests/tests/cms/cmyk_layers.jxl`): image size / frame bookkeeping equal to
//!    the undisturbed decode; first Exif (offset + payload) and first `xml ` box equal to the
//!    truth after Brotli decompression; absent boxes are `NotFound` after `finalize()`.
//!
//! The only slack: a streaming parser that is never told about EOF cannot emit the `AuxBoxEnd`
//! of a sized box that finishes exactly at EOF (jxl-oxide closes it in `finalize()`), nor
//! `NoMoreAuxBox` for a to-EOF codestream box without payload bytes; the reference marks these
//! events `tail_optional`.
//!
//! Two defects of the pinned decoder are reported under fixed signatures (at most 4 records per
//! worker process each, all hits are counted in `obs`), after which the affected run is repeated
//! with the trigger removed so that the rest of the property is still monitored:
//! * `false-reject:xlbox-header-split` - `ContainerBoxHeader::parse` answers `InvalidBox`
//!   instead of `NeedMoreData` when 8..15 bytes of a 16-byte (size == 1) box header are available;
//! * `read-api:aux-box-after-codestream-truncated-or-lost` - `JxlImage::read()`/`open()` stop
//!   reading when the last frame is complete; `finalize()` then closes whatever part of a box
//!   behind the codestream was in the last 4096-byte window (truncated payload reported as
//!   complete, box `NotFound`, or `read()` failing with "Invalid Data" for a `brob` box).
//!
//! Extra arguments: `--xlsplit avoid` keeps chunk boundaries / truncation points out of bytes
//! 8..16 of 64-bit box headers (see the report: the pinned parser rejects valid files there),
//! so that everything else can be monitored without that alarm; default `report`.
//! `--readapi skip` leaves out the `JxlImage::read()` comparison (second reported defect: boxes
//! behind the codestream are truncated / lost / make `read()` fail); default is to check it.
//! `--mix <well>,<ill>,<mut>,<oxide>` weights of the case classes; `--cmyk-every N`: one in N
//! jxl-oxide level cases uses the big real codestream (default 600).

use crate::common::*;
use jxl_bitstream::{BitstreamKind, ContainerParser, ParseEvent};
use jxl_oxide::{AuxBoxData, InitializeResult, JxlImage, JxlThreadPool};
use jxlgen::container::*;
use jxlgen::rng::Rng;

const SALT: u64 = 0xC10C_0A7A_13E5;
const CMYK_PATH: &str = "/repo/crates/jxl-oxide-tests/tests/cms/cmyk_layers.jxl";

fn conv_kind(k: BitstreamKind) -> Kind {
    match k {
        BitstreamKind::Unknown => Kind::Unknown,
        BitstreamKind::BareCodestream => Kind::Bare,
        BitstreamKind::Container => Kind::Container,
        BitstreamKind::Invalid => Kind::Invalid,
    }
}

/// Result of driving the real parser over one chunking.
struct Run {
    events: Vec<Ev>,
    err: Option<String>,
    /// bytes of the file that had been made available when the error was raised
    err_avail: usize,
    consumed: usize,
    final_kind: Kind,
    /// violations of the API protocol itself
    proto: Option<String>,
    raw_events: u64,
    feeds: u64,
}

/// Feed `file` to a fresh `ContainerParser`; chunk i makes `file[..ends[i]]` available.  Like
/// jxl-oxide, whatever the parser did not consume is presented again with the next chunk.
fn drive(file: &[u8], ends: &[usize]) -> Run {
    let mut run = Run {
        events: Vec::new(),
        err: None,
        err_avail: 0,
        consumed: 0,
        final_kind: Kind::Unknown,
        proto: None,
        raw_events: 0,
        feeds: 0,
    };
    let mut p = ContainerParser::new();
    let mut base = 0usize;
    let mut cur: Option<BoxType> = None;
    let mut kind_ev = Kind::Unknown;
    let mut no_more_aux = false;
    let mut delivered = 0usize;
    'feeds: for &end in ends {
        let end = end.min(file.len()).max(base);
        let buf = &file[base..end];
        run.feeds += 1;
        for ev in p.feed_bytes(buf) {
            run.raw_events += 1;
            // a parser that reports too few consumed bytes is handed the same bytes again and
            // again; stop before the duplicated deliveries exhaust memory
            if delivered > 2 * file.len() + 64 || run.raw_events > 64 * (file.len() as u64 + ends.len() as u64 + 16) {
                run.proto = Some("more payload bytes / events delivered than the file can contain".into());
                break 'feeds;
            }
            let ev = match ev {
                Ok(ev) => ev,
                Err(e) => {
                    run.err = Some(format!("{e}"));
                    run.err_avail = end;
                    break 'feeds;
                }
            };
            match ev {
                ParseEvent::BitstreamKind(k) => {
                    if kind_ev != Kind::Unknown {
                        run.proto = Some("second BitstreamKind event".into());
                    }
                    kind_ev = conv_kind(k);
                    run.events.push(Ev::Kind(kind_ev));
                }
                ParseEvent::Codestream(b) => {
                    delivered += b.len();
                    if !b.is_empty() {
                        if let Some(Ev::Codestream(v)) = run.events.last_mut() {
                            v.extend_from_slice(b);
                        } else {
                            run.events.push(Ev::Codestream(b.to_vec()));
                        }
                    }
                }
                ParseEvent::NoMoreAuxBox => {
                    no_more_aux = true;
                    run.events.push(Ev::NoMoreAux);
                }
                ParseEvent::AuxBoxStart { ty, brotli_compressed, last_box } => {
                    if no_more_aux {
                        run.proto = Some("AuxBoxStart after NoMoreAuxBox".into());
                    }
                    if cur.is_some() {
                        run.proto = Some("AuxBoxStart inside an open box".into());
                    }
                    cur = Some(ty.0);
                    run.events.push(Ev::Start { ty: ty.0, brob: brotli_compressed, last: last_box });
                }
                ParseEvent::AuxBoxData(ty, b) => {
                    if cur != Some(ty.0) {
                        run.proto = Some(format!("AuxBoxData for {} outside its box", ty_str(&ty.0)));
                    }
                    delivered += b.len();
                    if !b.is_empty() {
                        match run.events.last_mut() {
                            Some(Ev::Data { ty: t, bytes }) if *t == ty.0 => bytes.extend_from_slice(b),
                            _ => run.events.push(Ev::Data { ty: ty.0, bytes: b.to_vec() }),
                        }
                    }
                }
                ParseEvent::AuxBoxEnd(ty) => {
                    if cur != Some(ty.0) {
                        run.proto = Some(format!("AuxBoxEnd for {} without matching start", ty_str(&ty.0)));
                    }
                    cur = None;
                    run.events.push(Ev::End { ty: ty.0 });
                }
            }
        }
        let c = p.previous_consumed_bytes();
        if c > buf.len() {
            run.proto = Some(format!("consumed {c} of {} fed bytes", buf.len()));
            break;
        }
        base += c;
        if conv_kind(p.kind()) != kind_ev {
            run.proto = Some(format!("kind() = {:?} but last BitstreamKind event = {:?}", p.kind(), kind_ev));
        }
    }
    run.consumed = base;
    run.final_kind = conv_kind(p.kind());
    run
}

fn ev_brief(e: &Ev) -> String {
    match e {
        Ev::Kind(k) => format!("Kind({k:?})"),
        Ev::Codestream(b) => format!("Cs({})", b.len()),
        Ev::NoMoreAux => "NoMoreAux".into(),
        Ev::Start { ty, brob, last } => format!("Start({},brob={brob},last={last})", ty_str(ty)),
        Ev::Data { ty, bytes } => format!("Data({},{})", ty_str(ty), bytes.len()),
        Ev::End { ty } => format!("End({})", ty_str(ty)),
    }
}

fn evs_brief(v: &[Ev]) -> String {
    let mut s: Vec<String> = v.iter().take(40).map(ev_brief).collect();
    if v.len() > 40 {
        s.push(format!("..+{}", v.len() - 40));
    }
    s.join(" ")
}

fn first_diff(a: &[Ev], b: &[Ev]) -> String {
    let n = a.iter().zip(b.iter()).take_while(|(x, y)| x == y).count();
    let show = |v: &[Ev]| match v.get(n) {
        None => "<end>".to_string(),
        Some(e) => {
            let mut s = ev_brief(e);
            if let (Some(Ev::Codestream(x)), Some(Ev::Codestream(y))) | (Some(Ev::Data { bytes: x, .. }), Some(Ev::Data { bytes: y, .. })) =
                (a.get(n), b.get(n))
            {
                let k = x.iter().zip(y.iter()).take_while(|(p, q)| p == q).count();
                s.push_str(&format!("[first differing byte {k}]"));
            }
            s
        }
    };
    format!("event #{n}: got {} expected {}", show(a), show(b))
}

// ------------------------------------------------------------------------------------------
// chunkings
// ------------------------------------------------------------------------------------------

const CHUNK_NAMES: [&str; 8] = ["bytewise", "random", "marks", "fixed", "two", "dense-marks", "dup-empty", "hdr-inner"];

/// Strictly increasing chunk ends (last == n), by strategy.
fn make_chunking(rng: &mut Rng, n: usize, model: &RefParse, strat: usize) -> Vec<usize> {
    let mut ends: Vec<usize> = Vec::new();
    let marks = &model.marks;
    match strat {
        0 => {
            // one byte at a time; for big files only around structure, coarse elsewhere
            if n <= 2500 {
                ends.extend(1..=n);
            } else {
                for &m in marks {
                    ends.extend(m.saturating_sub(4)..=(m + 24).min(n));
                }
                let mut pos = 0usize;
                while pos < n {
                    pos += rng.urange(1, 3000);
                    ends.push(pos.min(n));
                }
            }
        }
        1 => {
            let maxlog = rng.urange(1, 16) as u32;
            let mut pos = 0usize;
            while pos < n {
                pos += (rng.bits_loguniform(maxlog) as usize).max(1);
                ends.push(pos.min(n));
            }
        }
        2 => {
            // a few cuts right at / next to structure offsets
            for &m in marks {
                if rng.chance(1, 2) {
                    let d = rng.range(-3, 17);
                    let c = m as i64 + d;
                    if c > 0 && (c as usize) < n {
                        ends.push(c as usize);
                    }
                }
            }
        }
        3 => {
            let k = *rng.pick(&[2usize, 3, 4, 5, 7, 8, 9, 12, 15, 16, 17, 31, 64, 4096]);
            let mut pos = rng.urange(0, k);
            while pos < n {
                if pos > 0 {
                    ends.push(pos);
                }
                pos += k;
            }
        }
        4 => {
            let c = if !marks.is_empty() && rng.chance(3, 4) {
                (*rng.pick(marks) as i64 + rng.range(-4, 18)).clamp(0, n as i64) as usize
            } else {
                rng.urange(0, n)
            };
            ends.push(c);
        }
        5 => {
            // every byte in [m-2, m+18] of every mark
            for &m in marks {
                for c in m.saturating_sub(2)..=(m + 18).min(n) {
                    ends.push(c);
                }
            }
        }
        6 => {
            // repeated ends = empty feeds, plus random cuts
            for _ in 0..rng.urange(1, 12) {
                let c = rng.urange(0, n);
                ends.push(c);
                if rng.bool() {
                    ends.push(c);
                }
            }
            ends.push(0);
        }
        _ => {
            // cut strictly inside headers: after 1..15 header bytes of a random subset of boxes
            for &m in marks {
                if rng.chance(2, 3) {
                    ends.push((m + rng.urange(1, 15)).min(n));
                }
            }
        }
    }
    ends.push(n);
    ends.sort();
    if strat != 6 {
        ends.dedup();
        ends.retain(|&e| e > 0 || n == 0);
        if ends.is_empty() {
            ends.push(n);
        }
    }
    ends
}

/// `--xlsplit avoid`: move every chunk end out of bytes 8..16 of a 64-bit box header.
fn nudge(ends: &mut Vec<usize>, model: &RefParse, n: usize) {
    for e in ends.iter_mut() {
        for &(s, t) in &model.xl_headers {
            if *e >= s + 8 && *e < t {
                *e = t.min(n);
            }
        }
    }
    ends.sort();
}

fn in_xl_split(model: &RefParse, avail: usize) -> bool {
    model.xl_headers.iter().any(|&(s, t)| avail >= s + 8 && avail < t)
}

// ------------------------------------------------------------------------------------------
// the parser-level check of one file
// ------------------------------------------------------------------------------------------

struct Ctx {
    /// how many times this process has already reported the 64-bit-header defect (the summary
    /// keeps a bounded number of violations; one known defect must not crowd out others)
    xl_reported: std::cell::Cell<u32>,
    read_reported: std::cell::Cell<u32>,
    /// one in `cmyk_every` jxl-oxide level cases uses the 387 kB cmyk_layers codestream
    cmyk_every: u64,
    skip_read_api: bool,
    avoid_xl: bool,
    mix: [u64; 4],
    cmyk: Option<CmykRef>,
}

struct CmykRef {
    codestream: Vec<u8>,
    width: u32,
    height: u32,
    frames: usize,
    keyframes: usize,
    done: bool,
    offsets: Vec<Option<usize>>,
}

/// Compare one run with the reference reader.  Returns false if a violation was recorded.
fn check_run(case: &mut Case, run: &Run, model: &RefParse, label: &str, desc: &str, ends: &[usize]) -> bool {
    let desc = &format!("{desc}; chunk ends {}", ends_str(ends));
    if let Some(p) = &run.proto {
        case.violation(format!("protocol:{label}"), format!("{p} [{desc}]"));
        return false;
    }
    match &model.outcome {
        Outcome::Ok => {
            if let Some(e) = &run.err {
                case.violation(
                    format!("false-reject:{label}"),
                    format!("well-formed input rejected with `{e}` when {} bytes were available, chunking {label} [{desc}]", run.err_avail),
                );
                return false;
            }
            let full = &model.events[..];
            let short = &model.events[..model.events.len() - model.tail_optional];
            if run.events != full && run.events != short {
                case.violation(
                    format!("events:{label}"),
                    format!("{}; got [{}] expected [{}] [{desc}]", first_diff(&run.events, full), evs_brief(&run.events), evs_brief(full)),
                );
                return false;
            }
            if run.consumed != model.consumed {
                case.violation(
                    format!("consumed:{label}"),
                    format!("parser consumed {} bytes in total, reference {} [{desc}]", run.consumed, model.consumed),
                );
                return false;
            }
            if run.final_kind != model.kind {
                case.violation(format!("kind:{label}"), format!("kind() {:?}, reference {:?} [{desc}]", run.final_kind, model.kind));
                return false;
            }
        }
        Outcome::Err { why, at } => {
            match &run.err {
                None => {
                    case.violation(
                        format!("ill-formed-accepted:{why}"),
                        format!("no error for ill-formed input ({why}, decidable after {at} bytes), chunking {label}; events [{}] [{desc}]", evs_brief(&run.events)),
                    );
                    return false;
                }
                Some(e) => {
                    if run.err_avail < *at {
                        case.violation(
                            format!("premature-error:{label}"),
                            format!("error `{e}` raised when only {} bytes were available; the input becomes ill-formed at byte {at} ({why}), chunking {label} [{desc}]", run.err_avail),
                        );
                        return false;
                    }
                }
            }
            if run.events != model.events {
                case.violation(
                    format!("events-before-error:{label}"),
                    format!("{}; got [{}] expected [{}] [{desc}]", first_diff(&run.events, &model.events), evs_brief(&run.events), evs_brief(&model.events)),
                );
                return false;
            }
        }
    }
    true
}

const XL_SIG: &str = "false-reject:xlbox-header-split";
const XL_REPORT_LIMIT: u32 = 4;

/// Did this run hit the 64-bit-header defect: an error raised while the bytes available ended
/// inside bytes 8..16 of a `size == 1` box header, although nothing ill-formed had been seen?
fn is_xl_split_reject(run: &Run, model: &RefParse) -> bool {
    run.err.is_some()
        && in_xl_split(model, run.err_avail)
        && match &model.outcome {
            Outcome::Ok => true,
            Outcome::Err { at, .. } => run.err_avail < *at,
        }
}

fn ends_str(ends: &[usize]) -> String {
    let mut v: Vec<String> = ends.iter().take(48).map(|e| e.to_string()).collect();
    if ends.len() > 48 {
        v.push("..".into());
    }
    v.join(",")
}

/// Record the known 64-bit-header defect (bounded per process) and count it.
fn report_xl(case: &mut Case, ctx: &Ctx, detail: String) {
    case.obs("xlsplit_false_rejects", 1);
    if ctx.xl_reported.get() < XL_REPORT_LIMIT {
        ctx.xl_reported.set(ctx.xl_reported.get() + 1);
        case.violation(XL_SIG, detail);
    }
}

/// Drive one chunking.  If it runs into the 64-bit-header defect, report that once and repeat
/// the run with the chunk ends moved out of the critical header bytes, so that everything else
/// is still checked for this file.
fn drive_checked(case: &mut Case, ctx: &Ctx, file: &[u8], model: &RefParse, ends: &mut Vec<usize>, label: &str, desc: &str) -> Option<Run> {
    if ctx.avoid_xl {
        nudge(ends, model, file.len());
    }
    let mut run = drive(file, ends);
    if is_xl_split_reject(&run, model) {
        report_xl(
            case,
            ctx,
            format!(
                "well-formed box header rejected with `{}`: only {} bytes were available, which ends inside bytes 8..16 of a 64-bit (size==1) box header; chunking {label}, chunk ends {} [{desc}]",
                run.err.as_deref().unwrap_or(""),
                run.err_avail,
                ends_str(ends)
            ),
        );
        nudge(ends, model, file.len());
        run = drive(file, ends);
    }
    case.obs("parser_runs", 1);
    case.obs("feeds", run.feeds);
    case.obs("raw_events", run.raw_events);
    if !check_run(case, &run, model, label, desc, ends) {
        return None;
    }
    Some(run)
}

/// Whole-file feed + several chunkings against the reference.  False after a violation.
fn check_file(case: &mut Case, ctx: &Ctx, file: &[u8], model: &RefParse, desc: &str) -> bool {
    let n = file.len();
    let Some(whole) = drive_checked(case, ctx, file, model, &mut vec![n], "whole", desc) else {
        return false;
    };
    let nchunk = if case.tier_thorough { 6 } else { 4 };
    let mut strategies: Vec<usize> = (0..CHUNK_NAMES.len()).collect();
    case.rng.shuffle(&mut strategies);
    for &st in strategies.iter().take(nchunk) {
        let mut ends = make_chunking(&mut case.rng, n, model, st);
        let label = CHUNK_NAMES[st];
        case.obs_set("chunkings", label);
        let Some(run) = drive_checked(case, ctx, file, model, &mut ends, label, desc) else {
            return false;
        };
        // chunking invariance, stated directly
        if run.err.is_some() != whole.err.is_some() || run.events != whole.events {
            case.violation(
                format!("chunking-variance:{label}"),
                format!("{} vs whole-file feed; chunk ends {} [{desc}]", first_diff(&run.events, &whole.events), ends_str(&ends)),
            );
            return false;
        }
    }
    true
}

fn form_set(forms: impl Iterator<Item = SizeForm>) -> String {
    let mut s = [false; 3];
    for f in forms {
        s[f as usize] = true;
    }
    let mut o = String::new();
    for (i, c) in ['s', 'x', '0'].iter().enumerate() {
        if s[i] {
            o.push(*c);
        }
    }
    if o.is_empty() {
        o.push('-');
    }
    o
}

fn bucket(n: usize) -> &'static str {
    match n {
        0 => "0",
        1 => "1",
        2..=3 => "2-3",
        _ => "4+",
    }
}

/// Shape class of a box sequence taken from the reference reader's box list (works for
/// mutated files too).
fn shape_sig(model: &RefParse) -> String {
    let form = |p: &Option<u64>, h: usize| if p.is_none() { SizeForm::ToEof } else if h == 16 { SizeForm::S64 } else { SizeForm::S32 };
    let is_cs = |t: &BoxType| t == b"jxlc" || t == b"jxlp";
    let ncs = model.boxes.iter().filter(|b| is_cs(&b.0)).count();
    let njxlc = model.boxes.iter().filter(|b| &b.0 == b"jxlc").count();
    let empty = model.boxes.iter().any(|b| (&b.0 == b"jxlp" && b.1 == Some(4)) || (&b.0 == b"jxlc" && b.1 == Some(0)));
    let naux = model.boxes.len() - ncs;
    let brob = model.boxes.iter().filter(|b| &b.0 == b"brob").count();
    let first_cs = model.boxes.iter().position(|b| is_cs(&b.0));
    let last_cs = model.boxes.iter().rposition(|b| is_cs(&b.0));
    let mut pos = String::new();
    if let (Some(f), Some(l)) = (first_cs, last_cs) {
        if model.boxes[..f].iter().filter(|b| &b.0 != b"ftyp").count() > 0 {
            pos.push('b');
        }
        if model.boxes[f..l].iter().any(|b| !is_cs(&b.0)) {
            pos.push('m');
        }
        if l + 1 < model.boxes.len() {
            pos.push('a');
        }
    }
    let last = model.boxes.last().map(|b| if is_cs(&b.0) { "cs" } else if &b.0 == b"brob" { "brob" } else { "aux" }).unwrap_or("-");
    format!(
        "cs={}{}{}|csf={}|aux={}/brob{}@{}|auxf={}|last={}{}",
        if njxlc > 0 { "c" } else { "p" },
        bucket(ncs),
        if empty { "e" } else { "" },
        form_set(model.boxes.iter().filter(|b| is_cs(&b.0)).map(|b| form(&b.1, b.2))),
        bucket(naux),
        bucket(brob),
        if pos.is_empty() { "-" } else { &pos },
        form_set(model.boxes.iter().filter(|b| !is_cs(&b.0)).map(|b| form(&b.1, b.2))),
        last,
        if model.boxes.last().is_some_and(|b| b.1.is_none()) { "0" } else { "" },
    )
}

fn junk_codestream(rng: &mut Rng) -> Vec<u8> {
    let n = match rng.below(40) {
        0 => rng.urange(0, 70_000),
        1..=4 => 0,
        5..=8 => rng.urange(1, 4),
        _ => rng.urange(0, 200),
    };
    random_bytes(rng, n)
}

fn outcome_str(o: &Outcome) -> String {
    match o {
        Outcome::Ok => "ok".into(),
        Outcome::Err { why, .. } => format!("err({why})"),
    }
}

// --- class A: well-formed (and odd-but-tolerated) layouts with writer truth -----------------

fn case_well(case: &mut Case, ctx: &Ctx) {
    let cs = junk_codestream(&mut case.rng);
    let opts = WrapOpts::default();
    let odd = if case.rng.chance(1, 8) { Some(*case.rng.pick(&ALL_ODD)) } else { None };
    let layout = match odd {
        None => random_layout(&cs, &mut case.rng, &opts),
        Some(k) => odd_layout(k, &cs, &mut case.rng, &opts),
    };
    let file = write_container(&layout);
    let truth = truth_of(&layout);
    let model = ref_parse(&file);
    case.set_input(&file);
    let class = match odd {
        None => "well".to_string(),
        Some(k) => format!("odd:{k:?}"),
    };
    let shape = shape_sig(&model);
    case.sig(format!("{class}|{shape}"), model.kind == Kind::Container && model.boxes.len() >= 3);
    case.sample(format!(
        "{{\"class\":{},\"bytes\":{},\"boxes\":{},\"shape\":{}}}",
        json_str(&class),
        file.len(),
        model.boxes.len(),
        json_str(&shape)
    ));
    case.obs("files_well", 1);
    case.obs("boxes", model.boxes.len() as u64);
    let desc = format!("{class} {shape} len={}", file.len());

    // harness self-consistency: the two independent models (layout truth vs reference reader)
    // must agree before either is used against the decoder
    let truncated_sig = odd == Some(Odd::TruncatedSignature);
    if !truncated_sig {
        let aux_m = model.aux();
        let aux_t: Vec<(BoxType, bool, Vec<u8>)> = truth.aux.iter().map(|a| (a.ty, a.brob, a.stored.clone())).collect();
        if model.outcome != Outcome::Ok || model.kind != truth.kind || model.codestream() != truth.codestream || aux_m != aux_t {
            case.violation("HARNESS-MODEL-MISMATCH", format!("layout truth and reference reader disagree [{desc}] outcome={:?}", model.outcome));
            return;
        }
        if odd.is_none() && !model.ftyp_ok {
            case.violation("HARNESS-MODEL-MISMATCH", format!("ftyp not recognised [{desc}]"));
            return;
        }
    }
    if !check_file(case, ctx, &file, &model, &desc) {
        return;
    }
    // writer truth, stated directly on a fresh whole-file run (independent of ref_parse)
    let run = drive(&file, &[file.len()]);
    if truncated_sig {
        if !run.events.is_empty() || run.final_kind != Kind::Unknown {
            case.violation("truncated-signature", format!("events for an undecided signature [{desc}]"));
        }
        return;
    }
    let mut got_cs = Vec::new();
    let mut got_aux: Vec<(BoxType, bool, bool, Vec<u8>)> = Vec::new();
    for e in &run.events {
        match e {
            Ev::Codestream(b) => got_cs.extend_from_slice(b),
            Ev::Start { ty, brob, last } => got_aux.push((*ty, *brob, *last, Vec::new())),
            Ev::Data { bytes, .. } => {
                if let Some(l) = got_aux.last_mut() {
                    l.3.extend_from_slice(bytes);
                }
            }
            _ => {}
        }
    }
    if got_cs != truth.codestream {
        case.violation("codestream-bytes", format!("delivered codestream ({} bytes) != concatenated payloads ({} bytes) [{desc}]", got_cs.len(), truth.codestream.len()));
    }
    let want_aux: Vec<(BoxType, bool, bool, Vec<u8>)> = truth.aux.iter().map(|a| (a.ty, a.brob, a.to_eof, a.stored.clone())).collect();
    if got_aux != want_aux {
        case.violation("aux-boxes", format!("delivered aux boxes differ from the written ones: got {} boxes, wrote {} [{desc}]", got_aux.len(), want_aux.len()));
    }
    if run.final_kind != truth.kind {
        case.violation("kind", format!("kind() {:?} expected {:?} [{desc}]", run.final_kind, truth.kind));
    }
    case.obs("codestream_bytes", truth.codestream.len() as u64);
    case.obs("aux_boxes", truth.aux.len() as u64);
    case.obs("brob_boxes", truth.aux.iter().filter(|a| a.brob).count() as u64);
    if let Some(k) = odd {
        case.obs_set("odd_kinds_accepted", format!("{k:?}"));
    }
}

// --- class B: ill-formed layouts ------------------------------------------------------------

fn case_ill(case: &mut Case, ctx: &Ctx) {
    let cs = junk_codestream(&mut case.rng);
    let kind = *case.rng.pick(&ALL_ILL);
    let mut opts = WrapOpts::default();
    opts.big_every = 400;
    let layout = ill_formed_layout(kind, &cs, &mut case.rng, &opts);
    let file = write_container(&layout);
    let model = ref_parse(&file);
    case.set_input(&file);
    let shape = shape_sig(&model);
    case.sig(format!("ill:{kind:?}|{shape}"), true);
    case.sample(format!("{{\"class\":\"ill\",\"kind\":\"{kind:?}\",\"bytes\":{},\"model\":{}}}", file.len(), json_str(&outcome_str(&model.outcome))));
    case.obs("files_ill", 1);
    let desc = format!("ill:{kind:?} {shape} len={}", file.len());
    if model.outcome == Outcome::Ok {
        // generator and reference reader disagree about ill-formedness: harness bug
        case.violation("HARNESS-MODEL-MISMATCH", format!("reference reader accepts a layout generated as ill-formed [{desc}]"));
        return;
    }
    case.obs_set("ill_kinds", format!("{kind:?}"));
    if let Outcome::Err { why, .. } = &model.outcome {
        case.obs_set("ill_reasons", *why);
    }
    if check_file(case, ctx, &file, &model, &desc) {
        case.obs("ill_rejected", 1);
    }
}

// --- class C: mutated / truncated files, reference reader as the only oracle -----------------

fn case_mut(case: &mut Case, ctx: &Ctx) {
    let cs = junk_codestream(&mut case.rng);
    let mut opts = WrapOpts::default();
    opts.big_every = 400;
    let layout = if case.rng.chance(1, 5) {
        let k = *case.rng.pick(&ALL_ILL);
        ill_formed_layout(k, &cs, &mut case.rng, &opts)
    } else {
        random_layout(&cs, &mut case.rng, &opts)
    };
    let mut file = write_container(&layout);
    let m0 = ref_parse(&file);
    let rng = &mut case.rng;
    let nmut = rng.urange(1, 3);
    let mut names: Vec<&str> = Vec::new();
    for _ in 0..nmut {
        if file.is_empty() {
            break;
        }
        // a position inside some header / index / brob type
        let hdr_pos = |rng: &mut Rng, file: &Vec<u8>| -> usize {
            if m0.marks.is_empty() || rng.chance(1, 10) {
                rng.urange(0, file.len() - 1)
            } else {
                (*rng.pick(&m0.marks) + rng.urange(0, 19)).min(file.len() - 1)
            }
        };
        match rng.below(9) {
            0 => {
                // truncate, preferably near structure
                let c = if !m0.marks.is_empty() && rng.chance(3, 4) {
                    (*rng.pick(&m0.marks) as i64 + rng.range(-3, 17)).clamp(0, file.len() as i64) as usize
                } else {
                    rng.urange(0, file.len())
                };
                file.truncate(c);
                names.push("trunc");
            }
            1 => {
                let p = hdr_pos(rng, &file);
                file[p] ^= 1 << rng.below(8);
                names.push("bitflip");
            }
            2 => {
                let p = hdr_pos(rng, &file);
                file[p] = *rng.pick(&[0u8, 1, 2, 4, 7, 8, 9, 12, 15, 16, 17, 0x80, 0xff, b'c', b'p', b'b', b'j']);
                names.push("setbyte");
            }
            3 => {
                // retype a box
                if !m0.marks.is_empty() {
                    let p = *rng.pick(&m0.marks);
                    if p + 8 <= file.len() {
                        let t: [u8; 4] = *rng.pick(&[*b"jxlc", *b"jxlp", *b"brob", *b"ftyp", *b"xml ", *b"jbrd", *b"jxll"]);
                        file[p + 4..p + 8].copy_from_slice(&t);
                    }
                }
                names.push("retype");
            }
            4 => {
                // rewrite a 32-bit size field
                if !m0.marks.is_empty() {
                    let p = *rng.pick(&m0.marks);
                    if p + 4 <= file.len() {
                        let v: u32 = match rng.below(5) {
                            0 => rng.below(20) as u32,
                            1 => 0,
                            2 => 1,
                            3 => rng.below(200) as u32,
                            _ => rng.next_u32(),
                        };
                        file[p..p + 4].copy_from_slice(&v.to_be_bytes());
                    }
                }
                names.push("resize");
            }
            5 => {
                let p = hdr_pos(rng, &file);
                file.remove(p);
                names.push("delbyte");
            }
            6 => {
                let p = hdr_pos(rng, &file);
                file.insert(p, rng.next_u64() as u8);
                names.push("insbyte");
            }
            7 => {
                // append a copy of an earlier box region (duplicate boxes)
                if m0.marks.len() >= 2 {
                    let a = *rng.pick(&m0.marks);
                    let b = *rng.pick(&m0.marks);
                    let (a, b) = (a.min(b).min(file.len()), a.max(b).min(file.len()));
                    if b - a <= 5000 {
                        let seg = file[a..b].to_vec();
                        file.extend_from_slice(&seg);
                    }
                }
                names.push("dupseg");
            }
            _ => {
                // append bytes
                let n = rng.urange(1, 24);
                let extra = random_bytes(rng, n);
                file.extend_from_slice(&extra);
                names.push("append");
            }
        }
    }
    let mut model = ref_parse(&file);
    {
        // A file that ends inside bytes 8..16 of a 64-bit box header: the pinned parser rejects
        // it (known defect, reported through XL_SIG); continue with the file cut in front of
        // the critical bytes so that the rest is still checked.
        let n = file.len();
        if let Some(&(s, _)) = model.xl_headers.iter().find(|&&(s, t)| n >= s + 8 && n < t) {
            if !ctx.avoid_xl {
                let run = drive(&file, &[n]);
                if is_xl_split_reject(&run, &model) {
                    case.input = Some(file.clone());
                    report_xl(
                        case,
                        ctx,
                        format!("file of {n} bytes ends inside bytes 8..16 of a 64-bit (size==1) box header at {s}: rejected with `{}` instead of waiting for more data (whole-file feed)", run.err.as_deref().unwrap_or("")),
                    );
                }
            }
            file.truncate(s + 7);
            model = ref_parse(&file);
        }
    }
    names.sort();
    names.dedup();
    case.set_input(&file);
    let shape = shape_sig(&model);
    let oc = outcome_str(&model.outcome);
    // coarser class than for generated layouts: mutation set x reference verdict x codestream form
    let cs_part = shape.split('|').next().unwrap_or("");
    case.sig(format!("mut:{}|{oc}|{:?}|{cs_part}", names.join("+"), model.kind), model.boxes.len() >= 2);
    case.sample(format!("{{\"class\":\"mut\",\"mutations\":{},\"bytes\":{},\"model\":{}}}", json_str(&names.join("+")), file.len(), json_str(&oc)));
    case.obs("files_mut", 1);
    case.obs_set("mut_outcomes", oc.clone());
    let desc = format!("mut:{} model={oc} {shape} len={}", names.join("+"), file.len());
    check_file(case, ctx, &file, &model, &desc);
}

// --- class D: jxl-oxide level ---------------------------------------------------------------

/// Smallest valid codestream prefix: signature, SizeHeader (small form) and an all-default
/// ImageMetadata.  Bits are LSB first: small=1, ysize/8-1 (5 bits), ratio (3 bits, 1..7),
/// ImageMetadata.all_default=1, default_m=1 (default transform data; read unconditionally).
/// Returns (bytes, width, height).
fn tiny_codestream(rng: &mut Rng) -> (Vec<u8>, u32, u32) {
    let h5 = rng.below(32) as u32;
    let ratio = rng.urange(1, 7) as u32;
    let bits: u32 = 1 | (h5 << 1) | (ratio << 6) | (1 << 9) | (1 << 10);
    let h = (h5 + 1) * 8;
    // fixed aspect ratios of the SizeHeader
    let w = match ratio {
        1 => h,
        2 => h * 12 / 10,
        3 => h * 4 / 3,
        4 => h * 3 / 2,
        5 => h * 16 / 9,
        6 => h * 5 / 4,
        _ => h * 2,
    };
    (vec![0xff, 0x0a, bits as u8, (bits >> 8) as u8], w, h)
}

enum Ox {
    U(jxl_oxide::UninitializedJxlImage),
    I(Box<JxlImage>),
    Gone,
}

fn load_cmyk() -> Option<CmykRef> {
    let file = std::fs::read(CMYK_PATH).ok()?;
    let (_, codestream, _) = extract(&file)?;
    let img = guarded(|| {
        JxlImage::builder().pool(JxlThreadPool::none()).read(std::io::Cursor::new(&codestream)).ok()
    })
    .ok()??;
    let frames = img.num_loaded_frames();
    Some(CmykRef {
        width: img.width(),
        height: img.height(),
        frames,
        keyframes: img.num_loaded_keyframes(),
        done: img.is_loading_done(),
        offsets: (0..frames + 1).map(|i| img.frame_offset(i)).collect(),
        codestream,
    })
}

/// Feed a complete, well-formed file through `build_uninit` / `feed_bytes` / `try_init` and then
/// `JxlImage::feed_bytes`, re-presenting unconsumed bytes like `JxlImage::read` does.
/// Err = (violation signature, detail, bytes available at that moment).
fn oxide_feed(file: &[u8], ends: &[usize]) -> Result<Box<JxlImage>, (&'static str, String, usize)> {
    let n = file.len();
    let mut st = Ox::U(JxlImage::builder().pool(JxlThreadPool::none()).build_uninit());
    let mut base = 0usize;
    for &end in ends {
        let end = end.min(n).max(base);
        let buf = &file[base..end];
        let r = match &mut st {
            Ox::U(u) => u.feed_bytes(buf),
            Ox::I(i) => i.feed_bytes(buf),
            Ox::Gone => break,
        };
        let c = match r {
            Ok(c) => c,
            Err(e) => return Err(("oxide-feed-error", format!("feed_bytes failed on a well-formed file with {end} of {n} bytes available: {e}"), end)),
        };
        if c > buf.len() {
            return Err(("oxide-consumed", format!("feed_bytes returned {c} for {} bytes", buf.len()), end));
        }
        base += c;
        st = match std::mem::replace(&mut st, Ox::Gone) {
            Ox::U(u) => match u.try_init() {
                Ok(InitializeResult::NeedMoreData(u)) => Ox::U(u),
                Ok(InitializeResult::Initialized(i)) => Ox::I(Box::new(i)),
                Err(e) => return Err(("oxide-init-error", format!("try_init failed on a valid codestream with {end} of {n} bytes available: {e}"), end)),
            },
            other => other,
        };
    }
    match st {
        Ox::I(i) => Ok(i),
        _ => Err(("oxide-no-init", "image did not initialise although the complete file was fed".to_string(), n)),
    }
}

fn case_oxide(case: &mut Case, ctx: &Ctx) {
    let use_cmyk = ctx.cmyk.is_some() && case.rng.chance(1, ctx.cmyk_every.max(1));
    let (cs, w, h) = if use_cmyk {
        let c = ctx.cmyk.as_ref().unwrap();
        (c.codestream.clone(), c.width, c.height)
    } else {
        tiny_codestream(&mut case.rng)
    };
    let mut opts = WrapOpts::default();
    opts.allow_jbrd = false; // a junk jbrd payload is (rightly) refused by the jbrd parser
    opts.big_every = 200;
    opts.exif_valid = !case.rng.chance(1, 8);
    opts.max_aux = 8;
    let layout = if case.rng.chance(1, 12) {
        odd_layout(Odd::Bare, &cs[2..], &mut case.rng, &opts)
    } else {
        random_layout(&cs, &mut case.rng, &opts)
    };
    let mut layout = layout;
    if layout.prologue == Prologue::Container && case.rng.chance(1, 300) {
        // Brotli meta-blocks with 5- and 6-nibble lengths (MLEN > 2^16 / > 2^20): one big stored
        // block, placed in front so that it is the first box of its type
        let n = if case.rng.chance(1, 4) { case.rng.urange((1 << 20) + 1, (1 << 20) + 5000) } else { case.rng.urange((1 << 16) + 1, 90_000) };
        let mut st = BrotliStored::random(&mut case.rng);
        st.max_block = 1 << 24;
        st.metadata_blocks = false;
        // max_block only bounds the random block length; force a single block
        let b = BoxSpec::new(T_XML, random_bytes(&mut case.rng, n)).wrapped(BrotliStored { max_block: usize::MAX, ..st });
        layout.boxes.insert(1.min(layout.boxes.len()), b);
    }
    if use_cmyk && layout.prologue == Prologue::Container && case.rng.chance(1, 2) {
        // a larger metadata box behind the codestream (legal; e.g. written by tools that append
        // metadata), raw or Brotli-compressed
        if let Some(l) = layout.boxes.last_mut() {
            if l.size_form == SizeForm::ToEof {
                l.size_form = SizeForm::S32;
            }
        }
        let n = case.rng.urange(3000, 20000);
        let mut b = if case.rng.bool() { BoxSpec::new(T_XML, random_bytes(&mut case.rng, n)) } else { BoxSpec::exif(0, &random_bytes(&mut case.rng, n)) };
        if case.rng.chance(1, 3) {
            b.brob = Some(BrotliStored::random(&mut case.rng));
        }
        if case.rng.chance(1, 3) {
            b.size_form = SizeForm::ToEof;
        }
        layout.boxes.push(b);
    }
    let file = write_container(&layout);
    let truth = truth_of(&layout);
    let model = ref_parse(&file);
    case.set_input(&file);
    let shape = shape_sig(&model);
    let exif_t = truth.first_of(&T_EXIF).cloned();
    let xml_t = truth.first_of(&T_XML).cloned();
    let cls = |a: &Option<AuxTruth>| match a {
        None => "none",
        Some(a) if a.brob => "brob",
        Some(_) => "raw",
    };
    case.sig(format!("oxide:{}|exif={}|xml={}|{shape}", if use_cmyk { "cmyk" } else { "tiny" }, cls(&exif_t), cls(&xml_t)), true);
    case.sample(format!(
        "{{\"class\":\"oxide\",\"codestream\":\"{}\",\"bytes\":{},\"exif\":\"{}\",\"xml\":\"{}\"}}",
        if use_cmyk { "cmyk_layers" } else { "tiny" },
        file.len(),
        cls(&exif_t),
        cls(&xml_t)
    ));
    case.obs("files_oxide", 1);
    let brief: Vec<String> = layout
        .boxes
        .iter()
        .map(|b| format!("{}{}{}:{}", if b.brob.is_some() { "brob/" } else { "" }, ty_str(&b.ty), match b.size_form { SizeForm::S32 => "", SizeForm::S64 => "+", SizeForm::ToEof => "~" }, b.payload.len()))
        .collect();
    let desc = format!("oxide {shape} len={} boxes=[{}]", file.len(), brief.join(" "));

    // coarse chunking for the big file (try_init re-parses the ICC profile on every call)
    let n = file.len();
    let mut ends: Vec<usize> = if use_cmyk {
        let mut e: Vec<usize> = Vec::new();
        for &m in &model.marks {
            if case.rng.chance(1, 2) {
                e.push((m + case.rng.urange(0, 17)).min(n));
            }
        }
        for _ in 0..case.rng.urange(0, 6) {
            e.push(case.rng.urange(0, n));
        }
        e.push(n);
        e.sort();
        e.dedup();
        // each feed before initialisation costs a full parse of the (large) ICC profile
        while e.len() > 10 {
            let k = case.rng.urange(0, e.len() - 2);
            e.remove(k);
        }
        e
    } else {
        let st = case.rng.below(CHUNK_NAMES.len() as u64 + 1) as usize;
        if st == CHUNK_NAMES.len() {
            vec![n]
        } else {
            make_chunking(&mut case.rng, n, &model, st)
        }
    };
    if ctx.avoid_xl {
        nudge(&mut ends, &model, n);
    }
    let mut img = match oxide_feed(&file, &ends) {
        Ok(i) => i,
        Err((_, detail, avail)) if in_xl_split(&model, avail) => {
            // known 64-bit-header defect: report, then retry with the cuts moved away
            report_xl(case, ctx, format!("{detail}; {avail} bytes available = inside bytes 8..16 of a 64-bit box header; chunk ends {} [{desc}]", ends_str(&ends)));
            nudge(&mut ends, &model, n);
            match oxide_feed(&file, &ends) {
                Ok(i) => i,
                Err((sig, detail, _)) => {
                    case.violation(sig, format!("{detail}; chunk ends {} [{desc}]", ends_str(&ends)));
                    return;
                }
            }
        }
        Err((sig, detail, _)) => {
            case.violation(sig, format!("{detail}; chunk ends {} [{desc}]", ends_str(&ends)));
            return;
        }
    };
    if let Err(e) = img.finalize() {
        case.violation("oxide-finalize", format!("finalize failed: {e} [{desc}]"));
        return;
    }
    case.obs("oxide_images", 1);
    if img.width() != w || img.height() != h {
        case.violation("oxide-size", format!("image size {}x{} expected {w}x{h} [{desc}]", img.width(), img.height()));
    }
    let want_kind = truth.kind;
    if conv_kind(img.reader().kind()) != want_kind {
        case.violation("oxide-kind", format!("reader().kind() {:?} expected {want_kind:?} [{desc}]", img.reader().kind()));
    }
    if use_cmyk {
        let c = ctx.cmyk.as_ref().unwrap();
        let offs: Vec<Option<usize>> = (0..c.frames + 1).map(|i| img.frame_offset(i)).collect();
        if img.num_loaded_frames() != c.frames || img.num_loaded_keyframes() != c.keyframes || img.is_loading_done() != c.done || offs != c.offsets {
            case.violation(
                "oxide-frames",
                format!(
                    "frames {}/{} keyframes {}/{} done {}/{} offsets {:?}/{:?} (got/expected) [{desc}]",
                    img.num_loaded_frames(),
                    c.frames,
                    img.num_loaded_keyframes(),
                    c.keyframes,
                    img.is_loading_done(),
                    c.done,
                    offs,
                    c.offsets
                ),
            );
        }
        case.obs("oxide_cmyk", 1);
    }
    let (bad, good) = aux_api_check(img.aux_boxes(), &exif_t, &xml_t);
    for (k, n) in good {
        case.obs(k, n);
    }
    let failed = !bad.is_empty();
    for (sig, detail, _) in bad {
        case.violation(sig, format!("{detail}; chunk ends {} [{desc}]", ends_str(&ends)));
    }
    if failed || !use_cmyk || ctx.skip_read_api {
        return;
    }
    // The same file through the convenience path JxlImage::read() (what `open()` uses).  Only
    // meaningful with a codestream that contains complete frames: read() stops pulling bytes
    // once the last frame is loaded.
    let img2 = match JxlImage::builder().pool(JxlThreadPool::none()).read(std::io::Cursor::new(&file)) {
        Ok(i) => i,
        Err(e) => {
            // with a 4096-byte read buffer the 64-bit-header defect is reachable here as well
            let hit = read_windows_hit_xl(&file, &model);
            // the last box that carries codestream bytes (empty jxlp parts may follow it)
            let last_cs = layout.boxes.iter().rposition(|b| b.is_codestream() && b.payload.len() > if b.ty == T_JXLP { 4 } else { 0 }).unwrap_or(usize::MAX);
            let trailing_brob = layout.boxes.iter().enumerate().any(|(i, b)| i > last_cs && i != usize::MAX && b.brob.is_some());
            if hit {
                report_xl(case, ctx, format!("JxlImage::read() failed on a well-formed file: {e} (file has 64-bit box headers; read() feeds 4096-byte windows) [{desc}]"));
            } else if trailing_brob && last_cs != usize::MAX {
                // read() stops pulling bytes when the last frame is complete, finalize() then
                // closes the half-read Brotli stream of a trailing brob box and fails
                case.obs("read_api_trailing_box_wrong", 1);
                if ctx.read_reported.get() < XL_REPORT_LIMIT {
                    ctx.read_reported.set(ctx.read_reported.get() + 1);
                    case.violation(READ_SIG, format!("JxlImage::read() fails with `{e}` on a well-formed file that has a Brotli-compressed box after the last codestream byte [{desc}]"));
                }
            } else {
                case.violation("read-api-error", format!("JxlImage::read() failed on a well-formed file: {e} [{desc}]"));
            }
            return;
        }
    };
    case.obs("read_api_images", 1);
    let (bad, _) = aux_api_check(img2.aux_boxes(), &exif_t, &xml_t);
    let last_cs = layout.boxes.iter().rposition(|b| b.is_codestream() && b.payload.len() > if b.ty == T_JXLP { 4 } else { 0 });
    for (sig, detail, ty) in bad {
        let first = layout.boxes.iter().position(|b| b.ty == ty && !b.is_codestream());
        let after_codestream = matches!((first, last_cs), (Some(f), Some(l)) if f > l);
        if after_codestream {
            // known defect candidate: read() stops at the end of the codestream and finalize()
            // closes whatever part of a trailing box happened to be in the last buffer
            case.obs("read_api_trailing_box_wrong", 1);
            if ctx.read_reported.get() < XL_REPORT_LIMIT {
                ctx.read_reported.set(ctx.read_reported.get() + 1);
                case.violation(READ_SIG, format!("JxlImage::read(): {detail}; the {} box follows the last codestream byte [{desc}]", ty_str(&ty)));
            }
        } else {
            case.violation(format!("read-api:{sig}"), format!("JxlImage::read(): {detail} [{desc}]"));
        }
    }
}

/// Compare the public aux box API with the written boxes.  Returns the disagreements as
/// (signature, detail, box type concerned) and the names of the agreeing observations.
fn aux_api_check(boxes: &jxl_oxide::AuxBoxList, exif_t: &Option<AuxTruth>, xml_t: &Option<AuxTruth>) -> (Vec<(&'static str, String, BoxType)>, Vec<(&'static str, u64)>) {
    let mut bad: Vec<(&'static str, String, BoxType)> = Vec::new();
    let mut good: Vec<(&'static str, u64)> = Vec::new();
    match exif_t {
        None => match boxes.first_exif() {
            Ok(AuxBoxData::NotFound) => good.push(("exif_notfound", 1)),
            Ok(o) => bad.push(("exif-phantom", format!("first_exif() = {o:?} but the file has no Exif box"), T_EXIF)),
            Err(e) => bad.push(("exif-phantom", format!("first_exif() error {e} but the file has no Exif box"), T_EXIF)),
        },
        Some(a) => {
            let p = &a.payload;
            // Exif box definition: u32be TIFF header offset, then the Exif payload; the offset
            // has to lie inside the payload
            let off = if p.len() >= 4 { u32::from_be_bytes([p[0], p[1], p[2], p[3]]) } else { 0 };
            let valid = p.len() >= 4 && (off as u64) < (p.len() - 4) as u64;
            match boxes.first_exif() {
                Ok(AuxBoxData::Data(x)) => {
                    if !valid {
                        bad.push(("exif-invalid-accepted", "Exif box with TIFF offset outside its payload (or shorter than the offset field) accepted".to_string(), T_EXIF));
                    } else if x.tiff_header_offset() != off || x.payload() != &p[4..] {
                        bad.push((
                            "exif-content",
                            format!("first_exif(): offset {} payload {} bytes; written offset {off} payload {} bytes (brob={})", x.tiff_header_offset(), x.payload().len(), p.len() - 4, a.brob),
                            T_EXIF,
                        ));
                    } else {
                        good.push((if a.brob { "exif_brob_ok" } else { "exif_raw_ok" }, 1));
                    }
                }
                Ok(o) => bad.push(("exif-missing", format!("first_exif() = {o:?} after finalize, Exif box was written (brob={})", a.brob), T_EXIF)),
                Err(e) => {
                    if valid {
                        bad.push(("exif-error", format!("first_exif() error {e} for a valid Exif box (brob={})", a.brob), T_EXIF));
                    } else {
                        good.push(("exif_invalid_rejected", 1));
                    }
                }
            }
        }
    }
    match (xml_t, boxes.first_xml()) {
        (None, AuxBoxData::NotFound) => good.push(("xml_notfound", 1)),
        (None, o) => bad.push(("xml-phantom", format!("first_xml() = {o:?} but the file has no xml box"), T_XML)),
        (Some(a), AuxBoxData::Data(d)) => {
            if d != &a.payload[..] {
                let k = d.iter().zip(a.payload.iter()).take_while(|(x, y)| x == y).count();
                bad.push(("xml-content", format!("first_xml(): {} bytes, written {} bytes, first difference at {k} (brob={})", d.len(), a.payload.len(), a.brob), T_XML));
            } else {
                good.push((if a.brob { "xml_brob_ok" } else { "xml_raw_ok" }, 1));
                if a.brob {
                    good.push(("brob_bytes_decompressed", d.len() as u64));
                    good.push((if d.len() > 1 << 20 { "brob_over_1m_ok" } else if d.len() > 1 << 16 { "brob_over_64k_ok" } else { "brob_upto_64k_ok" }, 1));
                }
            }
        }
        (Some(a), o) => bad.push(("xml-missing", format!("first_xml() = {o:?} after finalize, xml box was written (brob={})", a.brob), T_XML)),
    }
    (bad, good)
}

/// `JxlImage::read()` presents the container parser with windows of (unconsumed bytes + new
/// bytes) = 4096 bytes.  Does one of those windows end inside bytes 8..16 of a 64-bit box header
/// and make the parser fail there?
fn read_windows_hit_xl(file: &[u8], model: &RefParse) -> bool {
    let n = file.len();
    let mut p = ContainerParser::new();
    let mut base = 0usize;
    loop {
        let end = (base + 4096).min(n);
        if p.feed_bytes(&file[base..end]).any(|ev| ev.is_err()) {
            return in_xl_split(model, end);
        }
        let c = p.previous_consumed_bytes().min(end - base);
        base += c;
        if end == n || c == 0 {
            return false;
        }
    }
}

const READ_SIG: &str = "read-api:aux-box-after-codestream-truncated-or-lost";

/// Debug helpers (not used by the runner):
/// `--hex <file bytes> [--ends a,b,c]` replays one file through the parser and prints both the
/// parser's and the reference reader's view; `--demo xlsplit` shows the 64-bit header defect
/// through `JxlImage::builder().read()`.
fn debug_modes(args: &Args) -> Option<i32> {
    if let Some(h) = args.extra.get("hex") {
        let file = unhex(h);
        let ends: Vec<usize> = match args.extra.get("ends") {
            Some(e) => e.split(',').filter_map(|x| x.parse().ok()).chain(std::iter::once(file.len())).collect(),
            None => vec![file.len()],
        };
        let model = ref_parse(&file);
        let run = drive(&file, &ends);
        println!("chunk ends : {ends:?}");
        println!("parser     : [{}] err={:?} (when {} bytes available) consumed={} kind={:?} proto={:?}", evs_brief(&run.events), run.err, run.err_avail, run.consumed, run.final_kind, run.proto);
        println!("reference  : [{}] outcome={:?} consumed={} kind={:?} tail_optional={}", evs_brief(&model.events), model.outcome, model.consumed, model.kind, model.tail_optional);
        return Some(0);
    }
    if args.extra.get("demo").map(|s| s.as_str()) == Some("xlsplit") {
        // valid file: signature, ftyp, an `xml ` box padding the file so that the jxlc box header
        // (64-bit size form) starts at offset 4084; JxlImage::read() uses a 4096-byte buffer, so
        // the parser sees only the first 12 bytes of the 16-byte header
        let mut rng = Rng::new(1);
        let (cs, w, h) = tiny_codestream(&mut rng);
        for form in [SizeForm::S32, SizeForm::S64] {
            let pad = 4084 - 12 - 20 - 8;
            let l = Layout {
                prologue: Prologue::Container,
                boxes: vec![BoxSpec::ftyp(), BoxSpec::new(T_XML, vec![b' '; pad]), BoxSpec::jxlc(&cs).form(form)],
            };
            let (file, spans) = write_container_spans(&l);
            let r = JxlImage::builder().pool(JxlThreadPool::none()).read(std::io::Cursor::new(&file));
            println!(
                "jxlc header at {} in {form:?} form, file {} bytes: JxlImage::read -> {}",
                spans[2].start,
                file.len(),
                match r {
                    Ok(i) => format!("Ok {}x{} (expected {w}x{h})", i.width(), i.height()),
                    Err(e) => format!("Err({e})"),
                }
            );
        }
        return Some(0);
    }
    if args.extra.get("demo").map(|s| s.as_str()) == Some("readtail") {
        // xml box after the (complete) codestream, decoded through JxlImage::read()
        if let Some(c) = load_cmyk() {
            for after in [false, true] {
                let mut boxes = vec![BoxSpec::ftyp()];
                if !after {
                    boxes.push(BoxSpec::new(T_XML, b"<x/>".to_vec()));
                }
                boxes.push(BoxSpec::jxlc(&c.codestream));
                if after {
                    if args.extra.contains_key("brob") {
                        boxes.push(BoxSpec::new(*b"abcd", vec![b'B'; 20000]).wrapped(BrotliStored::simple()));
                    }
                    boxes.push(BoxSpec::new(T_XML, b"<x/>".to_vec()));
                    boxes.push(BoxSpec::exif(0, &vec![b'E'; 20000]));
                }
                let file = write_container(&Layout { prologue: Prologue::Container, boxes });
                let r = JxlImage::builder().pool(JxlThreadPool::none()).read(std::io::Cursor::new(&file));
                match r {
                    Ok(i) => println!(
                        "xml box {} the codestream: read() ok, done={}, first_xml() = {:?}, first_exif() = {:?}",
                        if after { "(and a 20000-byte Exif box) after" } else { "before" },
                        i.is_loading_done(),
                        i.aux_boxes().first_xml(),
                        i.aux_boxes().first_exif().map(|e| e.map(|x| x.payload().len()).unwrap_or(usize::MAX))
                    ),
                    Err(e) => println!("read failed: {e}"),
                }
            }
        }
        return Some(0);
    }
    None
}

pub fn run(args: &Args) -> i32 {
    if let Some(c) = debug_modes(args) {
        return c;
    }
    let mut mix = [55u64, 15, 20, 10];
    if let Some(m) = args.extra.get("mix") {
        for (i, p) in m.split(',').enumerate().take(4) {
            mix[i] = p.parse().unwrap_or(mix[i]);
        }
    }
    let ctx = Ctx {
        xl_reported: std::cell::Cell::new(0),
        read_reported: std::cell::Cell::new(0),
        cmyk_every: args.extra_u64("cmyk-every", 600),
        skip_read_api: args.extra.get("readapi").map(|s| s == "skip").unwrap_or(false),
        avoid_xl: args.extra.get("xlsplit").map(|s| s == "avoid").unwrap_or(false),
        mix,
        cmyk: load_cmyk(),
    };
    run_cases(args, SALT, |case| {
        if ctx.cmyk.is_none() {
            case.inconclusive("cmyk_layers.jxl reference unavailable: jxl-oxide sub-check uses the minimal codestream only");
        }
        let total: u64 = ctx.mix.iter().sum::<u64>().max(1);
        let r = case.rng.below(total);
        if r < ctx.mix[0] {
            case_well(case, &ctx)
        } else if r < ctx.mix[0] + ctx.mix[1] {
            case_ill(case, &ctx)
        } else if r < ctx.mix[0] + ctx.mix[1] + ctx.mix[2] {
            case_mut(case, &ctx)
        } else {
            case_oxide(case, &ctx)
        }
    })
}
