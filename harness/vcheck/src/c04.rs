//! C04: entropy decoding inverts the specified coding.
//!
//! Oracle: values returned == encoded sequence; bits consumed == bits written; finalize() Ok;
//! corrupted final state => finalize() Err; permutations decode to the same permutation.

use crate::common::*;
use jxl_bitstream::Bitstream;
use jxlgen::bits::BitWriter;
use jxlgen::entropy::*;
use jxlgen::rng::Rng;

fn gen_values(rng: &mut Rng, n: usize, num_dist: u32) -> (Vec<Read>, &'static str) {
    let style = rng.below(8);
    let name;
    let mut reads: Vec<Read> = Vec::with_capacity(n);
    let maxbits = match rng.below(4) {
        0 => 3,
        1 => 8,
        2 => 16,
        _ => 32,
    };
    let ctx_style = rng.below(3);
    let mut prev = 0u32;
    let period = rng.urange(1, 40);
    for i in 0..n {
        let v: u32 = match style {
            0 => {
                // small geometric
                let mut v = 0;
                while rng.chance(2, 3) && v < 40 {
                    v += 1;
                }
                v
            }
            1 => rng.bits_loguniform(maxbits) as u32,
            2 => (rng.next_u64() & ((1u64 << maxbits) - 1)) as u32,
            3 => {
                // runs
                if rng.chance(1, 10) {
                    prev = rng.bits_loguniform(maxbits) as u32;
                }
                prev
            }
            4 => {
                // periodic (LZ77 friendly)
                if i >= period && !rng.chance(1, 30) {
                    reads[i - period].value
                } else {
                    rng.bits_loguniform(maxbits) as u32
                }
            }
            5 => {
                // extremes
                *rng.pick(&[0u32, 1, 2, 255, 256, 65535, 65536, u32::MAX, u32::MAX - 1, 1 << 31, (1 << 31) - 1])
            }
            6 => 0,
            _ => (i as u32).wrapping_mul(2654435761) >> (32 - maxbits.min(31)),
        };
        let ctx = match ctx_style {
            0 => rng.below(num_dist as u64) as u32,
            1 => (i as u32) % num_dist,
            _ => (v.count_ones() + prev) % num_dist,
        };
        reads.push(Read { ctx, value: v });
    }
    name = ["geom", "loguni", "uniform", "runs", "periodic", "extremes", "zeros", "hash"][style as usize];
    (reads, name)
}

fn describe_code(code: &EntropyCode) -> String {
    let mut forms = std::collections::BTreeSet::new();
    for h in &code.hists {
        match h {
            Hist::Prefix(p) => {
                forms.insert(match &p.form {
                    PrefixForm::Implicit => "p-implicit".to_string(),
                    PrefixForm::Simple { syms, tree_select } => {
                        format!("p-simple{}{}", syms.len(), if *tree_select { "t" } else { "" })
                    }
                    PrefixForm::Complex { .. } => {
                        let maxl = p.lengths.iter().copied().max().unwrap_or(0);
                        format!("p-complex-l{}", if maxl > 10 { ">10" } else { "<=10" })
                    }
                });
            }
            Hist::Ans(a) => {
                forms.insert(match &a.form {
                    AnsForm::Single => "a-single".to_string(),
                    AnsForm::Binary { .. } => "a-binary".to_string(),
                    AnsForm::Flat => "a-flat".to_string(),
                    AnsForm::General { shift, rle } => {
                        format!("a-gen-s{}{}", shift / 5, if *rle { "r" } else { "" })
                    }
                });
            }
        }
    }
    let nclusters = code.hists.len();
    let cl = match nclusters {
        1 => "1",
        2..=8 => "2-8",
        9..=64 => "9-64",
        _ => ">64",
    };
    let cc = match code.cluster_coding {
        ClusterCoding::Simple { .. } => "cs",
        ClusterCoding::Coded { mtf: true } => "cm",
        ClusterCoding::Coded { mtf: false } => "cc",
    };
    let cfgc: std::collections::BTreeSet<String> = code
        .cfgs
        .iter()
        .map(|c| {
            format!(
                "{}{}{}",
                if c.split_exp == 0 { "0" } else if c.split_exp == code.log_alpha { "F" } else { "m" },
                if c.msb > 0 { "M" } else { "-" },
                if c.lsb > 0 { "L" } else { "-" }
            )
        })
        .collect();
    format!(
        "{}{}|{}|{}{}|{}|{}",
        if code.use_prefix { "prefix" } else { "ans" },
        code.log_alpha,
        forms.into_iter().collect::<Vec<_>>().join(","),
        cl,
        cc,
        cfgc.into_iter().collect::<Vec<_>>().join(","),
        match &code.lz77 {
            None => "nolz".to_string(),
            Some(lz) => format!("lz{}", if lz.min_symbol < 224 { "s" } else { "b" }),
        }
    )
}

fn stream_case(case: &mut Case, big: bool) {
    let rng = &mut case.rng.fork();
    let num_dist: u32 = match rng.below(6) {
        0 => 1,
        1 => 2,
        2 => rng.u32range(3, 8),
        3 => rng.u32range(9, 64),
        4 => rng.u32range(65, 300),
        _ => rng.u32range(1, 20),
    };
    let n = if big {
        rng.urange(5_000, 50_000)
    } else {
        match rng.below(5) {
            0 => rng.urange(0, 4),
            1 => rng.urange(5, 60),
            _ => rng.urange(61, 3000),
        }
    };
    let (reads, vname) = gen_values(rng, n, num_dist);
    let max_lit = reads.iter().map(|r| r.value).max().unwrap_or(0);
    let use_prefix = rng.bool();
    let want_lz = rng.chance(2, 5);
    let multiplier = if rng.bool() { 0 } else { *rng.pick(&[1u32, 2, 3, 7, 8, 64, 255, 256, 1000, 65535, 65536]) };
    let rle_mode = want_lz && multiplier != 0 && rng.chance(1, 4);
    let mut opts = BuildOpts {
        use_prefix: Some(use_prefix),
        spurious: rng.chance(1, 4),
        ..Default::default()
    };
    let mut items;
    let mut tries = 0;
    let code = loop {
        tries += 1;
        if tries > 20 {
            // fall back to no lz77
            opts.lz77 = None;
            opts.cfgs = None;
            opts.cluster_map = None;
            opts.force_single = None;
            opts.log_alpha = None;
            items = lits(&reads);
            break EntropyCode::try_build(rng, num_dist, &items, &opts).expect("plain build");
        }
        if want_lz {
            let lz = if rle_mode {
                let mut lz = random_lz77_params(rng, use_prefix, max_lit);
                lz.min_length = lz.min_length.min(12);
                lz
            } else {
                random_lz77_params(rng, use_prefix, max_lit)
            };
            let limit = if use_prefix { 1 << 15 } else { 256 };
            if rle_mode {
                // copies only with dist_value 1 (distance 1 under a non-zero multiplier); the
                // distance context gets its own cluster with config (0,0,0)
                let mut it = Vec::new();
                let mut p = 0;
                while p < reads.len() {
                    let mut run = 0;
                    if p > 0 {
                        while p + run < reads.len() && reads[p + run].value == reads[p - 1].value {
                            run += 1;
                        }
                    }
                    let mut len = run;
                    while len >= lz.min_length as usize
                        && lz.min_symbol + lz.len_cfg.encode(len as u32 - lz.min_length).0 >= limit
                    {
                        len /= 2;
                    }
                    if len >= lz.min_length as usize && rng.chance(4, 5) {
                        it.push(Item::Copy { ctx: reads[p].ctx, len: len as u32, dist_value: 1 });
                        p += len;
                    } else {
                        it.push(Item::Lit { ctx: reads[p].ctx, value: reads[p].value });
                        p += 1;
                    }
                }
                items = it;
                // cluster map: ordinary contexts random over k clusters, dist ctx alone
                let k = rng.urange(1, 6.min(num_dist as usize));
                let mut m = random_cluster_map(rng, num_dist as usize, k);
                let kk = *m.iter().max().unwrap() + 1;
                m.push(kk);
                opts.cluster_map = Some(m);
                opts.force_single = Some((kk, 1));
                // force config of the last cluster
                opts.cfgs = None;
                opts.lz77 = Some(lz);
                // build once to get random configs, then force the dist cluster config
                if let Some(mut c) = EntropyCode::try_build(rng, num_dist, &items, &opts) {
                    let mut cfgs = c.cfgs.clone();
                    *cfgs.last_mut().unwrap() = UintCfg::new(0, 0, 0);
                    opts.cfgs = Some(cfgs);
                    opts.log_alpha = Some(c.log_alpha);
                    if let Some(c2) = EntropyCode::try_build(rng, num_dist, &items, &opts) {
                        c = c2;
                        break c;
                    }
                    opts.log_alpha = None;
                }
                continue;
            }
            let pct = rng.u32range(1, 60);
            items = plan_lz77(rng, &reads, &lz, multiplier, pct, limit);
            opts.lz77 = Some(lz);
        } else {
            items = lits(&reads);
        }
        if let Some(c) = EntropyCode::try_build(rng, num_dist, &items, &opts) {
            break c;
        }
    };
    let rle_mode = rle_mode && code.lz77.is_some();
    let corrupt_final = !code.use_prefix && !reads.is_empty() && rng.chance(1, 10);
    let mut bw = if rng.bool() {
        BitWriter::with_random_selectors(rng.fork())
    } else {
        BitWriter::new()
    };
    // random bit offset so streams do not start byte aligned
    let lead = rng.below(17) as u32;
    bw.write(lead, rng.next_u64());
    code.write_header(&mut bw, rng);
    let header_bits = bw.bits_written();
    if corrupt_final {
        let fs = loop {
            let x = 0x130000u32 ^ (1 << rng.below(32));
            if x >= 1 << 16 {
                break x;
            }
        };
        code.write_items_final_state(&mut bw, &items, fs);
    } else {
        code.write_items(&mut bw, &items);
    }
    let total_bits = bw.bits_written();
    // trailing junk so the reader never starves
    bw.write(64, rng.next_u64());
    bw.write(64, rng.next_u64());
    let bytes = bw.finish();
    case.set_input(&bytes);
    let ncopies = items.iter().filter(|i| matches!(i, Item::Copy { .. })).count();
    let desc = describe_code(&code);
    let nontrivial = reads.len() >= 8;
    case.sig(
        format!("{desc}|{}|{}", if rle_mode { "rle" } else if ncopies > 0 { "copies" } else { "lits" }, if corrupt_final { "badfinal" } else { "ok" }),
        nontrivial,
    );
    case.sample(format!(
        "{{\"kind\":\"stream\",\"num_dist\":{},\"reads\":{},\"values\":{},\"code\":{},\"copies\":{},\"multiplier\":{},\"header_bits\":{},\"total_bits\":{},\"corrupt_final\":{}}}",
        num_dist, reads.len(), json_str(vname), json_str(&desc), ncopies, multiplier, header_bits - lead as usize, total_bits - lead as usize, corrupt_final
    ));
    case.obs("symbols_decoded", reads.len() as u64);
    case.obs("copies", ncopies as u64);

    if std::env::var("VCHECK_DEBUG").is_ok() {
        eprintln!("lz={:?} mult={} cfgs={:?} map={:?}", code.lz77, multiplier, code.cfgs, code.cluster_map);
        eprintln!("items={:?}", &items[..items.len().min(40)]);
        eprintln!("reads={:?}", &reads[..reads.len().min(40)].iter().map(|r| (r.ctx, r.value)).collect::<Vec<_>>());
    }
    // ---- decode with the real decoder
    let mut bs = Bitstream::new(&bytes);
    bs.skip_bits(lead as usize).unwrap();
    let mut dec = match jxl_coding::Decoder::parse(&mut bs, num_dist) {
        Ok(d) => d,
        Err(e) => {
            case.violation("parse-err", format!("Decoder::parse failed on valid code: {e} ({desc})"));
            return;
        }
    };
    if bs.num_read_bits() != header_bits {
        case.violation(
            "header-bits",
            format!("header consumed {} bits, written {} ({desc})", bs.num_read_bits(), header_bits),
        );
        return;
    }
    if dec.cluster_map() != &code.cluster_map[..] {
        case.violation("cluster-map", format!("cluster map differs ({desc})"));
        return;
    }
    let api = if rle_mode { 3 } else { rng.below(3) };
    if reads.is_empty() || rng.bool() {
        if let Err(e) = dec.begin(&mut bs) {
            case.violation("begin-err", format!("{e}"));
            return;
        }
    }
    let mut out: Vec<u32> = Vec::with_capacity(reads.len());
    let r: Result<(), String> = (|| {
        match api {
            0 => {
                for r in &reads {
                    out.push(
                        dec.read_varint_with_multiplier(&mut bs, r.ctx, multiplier)
                            .map_err(|e| e.to_string())?,
                    );
                }
            }
            1 | 2 => {
                let map = dec.cluster_map().to_vec();
                if let Some(mut d) = dec.as_with_lz77() {
                    for r in &reads {
                        out.push(
                            d.read_varint_with_multiplier_clustered(&mut bs, map[r.ctx as usize], multiplier)
                                .map_err(|e| e.to_string())?,
                        );
                    }
                } else if let Some(mut d) = dec.as_no_lz77() {
                    for r in &reads {
                        // single_token fast path knowledge must agree with what is decoded
                        let cl = map[r.ctx as usize];
                        let st = d.single_token(cl);
                        let v = d.read_varint_clustered(&mut bs, cl).map_err(|e| e.to_string())?;
                        if let Some(t) = st {
                            if t != v {
                                return Err(format!("single_token({cl}) = {t} but decoded {v}"));
                            }
                        }
                        out.push(v);
                    }
                } else {
                    return Err("neither lz77 nor no-lz77 view available".into());
                }
            }
            _ => {
                let map = dec.cluster_map().to_vec();
                let Some(mut d) = dec.as_rle() else {
                    return Err("as_rle() returned None for an RLE-configured code".into());
                };
                let mut i = 0;
                while i < reads.len() {
                    let cl = map[reads[i].ctx as usize];
                    match d.read_varint_clustered(&mut bs, cl).map_err(|e| e.to_string())? {
                        jxl_coding::RleToken::Value(v) => {
                            out.push(v);
                            i += 1;
                        }
                        jxl_coding::RleToken::Repeat(n) => {
                            let Some(&p) = out.last() else {
                                return Err("repeat before any value".into());
                            };
                            for _ in 0..n {
                                out.push(p);
                            }
                            i += n as usize;
                        }
                    }
                }
            }
        }
        Ok(())
    })();
    if let Err(e) = r {
        case.violation("read-err", format!("read failed on valid stream: {e} ({desc})"));
        return;
    }
    if out.len() != reads.len() || out.iter().zip(&reads).any(|(a, b)| *a != b.value) {
        let pos = out.iter().zip(&reads).position(|(a, b)| *a != b.value);
        case.violation(
            "value-mismatch",
            format!("decoded sequence differs at {:?} (api {api}, {desc})", pos),
        );
        return;
    }
    if bs.num_read_bits() != total_bits {
        case.violation(
            "data-bits",
            format!("consumed {} bits, written {} (api {api}, {desc})", bs.num_read_bits(), total_bits),
        );
        return;
    }
    let fin = dec.finalize();
    if corrupt_final {
        if fin.is_ok() {
            case.violation("final-state-accepted", format!("corrupted final ANS state accepted ({desc})"));
        }
        case.obs("badfinal_rejected", 1);
    } else if let Err(e) = fin {
        case.violation("finalize-err", format!("finalize failed on valid stream: {e} ({desc})"));
    }
}

fn perm_context(x: u32) -> u32 {
    // min(ceil(log2(x+1)), 7)
    jxlgen::bits::ceil_log2_plus1(x).min(7)
}

fn perm_case(case: &mut Case) {
    let rng = &mut case.rng.fork();
    let size: u32 = match rng.below(5) {
        0 => rng.u32range(1, 4),
        1 => rng.u32range(5, 64),
        2 => rng.u32range(65, 1024),
        _ => rng.u32range(1, 4096),
    };
    let skip = match rng.below(3) {
        0 => 0,
        1 => rng.u32range(0, size.min(64)),
        _ => rng.u32range(0, size),
    };
    // permutation fixing 0..skip
    let mut perm: Vec<usize> = (0..size as usize).collect();
    let style = rng.below(5);
    {
        let tail = &mut perm[skip as usize..];
        match style {
            0 => {}                       // identity
            1 => tail.reverse(),          // reversal
            2 => rng.shuffle(tail),       // random
            3 => {
                // few swaps
                if tail.len() >= 2 {
                    for _ in 0..rng.urange(1, 4) {
                        let a = rng.below(tail.len() as u64) as usize;
                        let b = rng.below(tail.len() as u64) as usize;
                        tail.swap(a, b);
                    }
                }
            }
            _ => {
                // rotate prefix
                if tail.len() >= 2 {
                    let k = rng.urange(1, tail.len() - 1);
                    tail[..=k].rotate_left(1);
                }
            }
        }
    }
    // Lehmer code
    let mut temp: Vec<usize> = (skip as usize..size as usize).collect();
    let mut lehmer: Vec<u32> = Vec::new();
    for &p in &perm[skip as usize..] {
        let idx = temp.iter().position(|&t| t == p).unwrap();
        lehmer.push(idx as u32);
        temp.remove(idx);
    }
    let mut end = lehmer.len();
    while end > 0 && lehmer[end - 1] == 0 {
        end -= 1;
    }
    // non-minimal end allowed
    if rng.chance(1, 4) {
        end = rng.urange(end, lehmer.len());
    }
    let mut reads = vec![Read { ctx: perm_context(size), value: end as u32 }];
    let mut prev = 0u32;
    for &l in &lehmer[..end] {
        reads.push(Read { ctx: perm_context(prev), value: l });
        prev = l;
    }
    let use_prefix = rng.bool();
    let mut opts = BuildOpts { use_prefix: Some(use_prefix), ..Default::default() };
    let maxv = reads.iter().map(|r| r.value).max().unwrap();
    let items = if rng.chance(1, 3) {
        let lz = random_lz77_params(rng, use_prefix, maxv);
        let it = plan_lz77(rng, &reads, &lz, 0, 40, if use_prefix { 1 << 15 } else { 256 });
        opts.lz77 = Some(lz);
        it
    } else {
        lits(&reads)
    };
    let code = match EntropyCode::try_build(rng, 8, &items, &opts) {
        Some(c) => c,
        None => {
            opts.lz77 = None;
            EntropyCode::build(rng, 8, &lits(&reads), &opts)
        }
    };
    let items = if code.lz77.is_some() { items } else { lits(&reads) };
    let mut bw = BitWriter::new();
    code.write_header(&mut bw, rng);
    code.write_items(&mut bw, &items);
    let total_bits = bw.bits_written();
    bw.write(64, rng.next_u64());
    bw.write(64, rng.next_u64());
    let bytes = bw.finish();
    case.set_input(&bytes);
    case.sig(
        format!(
            "perm|{}|size{}|skip{}|style{}|end{}",
            if use_prefix { "prefix" } else { "ans" },
            32 - size.leading_zeros(),
            if skip == 0 { 0 } else { 1 },
            style,
            if end == 0 { "0" } else if end == lehmer.len() { "full" } else { "part" }
        ),
        size >= 3,
    );
    case.sample(format!(
        "{{\"kind\":\"permutation\",\"size\":{size},\"skip\":{skip},\"style\":{style},\"lehmer_len\":{end}}}"
    ));
    case.obs("permutations", 1);
    let mut bs = Bitstream::new(&bytes);
    let mut dec = match jxl_coding::Decoder::parse(&mut bs, 8) {
        Ok(d) => d,
        Err(e) => {
            case.violation("perm-parse-err", format!("{e}"));
            return;
        }
    };
    if let Err(e) = dec.begin(&mut bs) {
        case.violation("perm-begin-err", format!("{e}"));
        return;
    }
    match jxl_coding::read_permutation(&mut bs, &mut dec, size, skip) {
        Ok(p) => {
            if p != perm {
                case.violation("perm-mismatch", format!("size {size} skip {skip} style {style}"));
                return;
            }
        }
        Err(e) => {
            case.violation("perm-err", format!("{e}"));
            return;
        }
    }
    if bs.num_read_bits() != total_bits {
        case.violation("perm-bits", format!("consumed {} written {}", bs.num_read_bits(), total_bits));
        return;
    }
    if let Err(e) = dec.finalize() {
        case.violation("perm-finalize", format!("{e}"));
    }
}

pub fn run(args: &Args) -> i32 {
    run_cases(args, 0xC04, |case| {
        let k = case.rng.below(100);
        if k < 12 {
            perm_case(case);
        } else if k < 14 {
            stream_case(case, true);
        } else {
            stream_case(case, false);
        }
    })
}
