//! C05: frames are composed onto the canvas exactly as the blend rules define.

use crate::common::*;
use crate::dec::*;
use jxlgen::anim::*;

pub fn float_planes(image: &jxl_oxide::JxlImage, k: usize) -> Result<Vec<(usize, usize, Vec<f32>)>, String> {
    let r = image.render_frame(k).map_err(|e| format!("{e}"))?;
    Ok(r.image_planar().iter().map(|fb| (fb.width(), fb.height(), fb.buf().to_vec())).collect())
}

pub fn run(args: &Args) -> i32 {
    let thorough = args.thorough();
    run_cases(args, 0xC05, |case| {
        let mut rng = case.rng.fork();
        if rng.chance(1, 5) {
            crate::c05p::run_case(case, &mut rng);
            return;
        }
        let opts = AnimOpts { multi_group: thorough && rng.chance(1, 6), max_dim: if thorough { 300 } else { 48 }, ..Default::default() };
        let mut img = None;
        for _ in 0..20 {
            if let Some(i) = gen_animation(&mut rng, &opts) {
                img = Some(i);
                break;
            }
        }
        let Some(img) = img else {
            case.inconclusive("generator gave up");
            return;
        };
        case.set_input(&img.bytes);
        if std::env::var("C05_DEBUG").is_ok() {
            eprintln!("ec_info: {:?}", img.ih.metadata.ec_info);
            for (i, f) in img.frames.iter().enumerate() {
                eprintln!("frame {i}: type {:?} crop {} {}x{}@{},{} dur {} last {} save {} before_ct {} blend {:?} ec {:?}", f.fh.frame_type, f.fh.have_crop, f.fh.width, f.fh.height, f.fh.x0, f.fh.y0, f.fh.duration, f.fh.is_last, f.fh.save_as_reference, f.fh.save_before_ct, f.fh.blending_info, f.fh.ec_blending_info);
            }
        }
        let expected = compose(&img);
        // signature
        let types: String = img.frames.iter().map(|f| match f.fh.frame_type { jxlgen::headers::FrameType::Regular => 'R', jxlgen::headers::FrameType::ReferenceOnly => 'F', jxlgen::headers::FrameType::SkipProgressive => 'S', _ => 'L' }).collect();
        let mut modes = std::collections::BTreeSet::new();
        let mut crops = std::collections::BTreeSet::new();
        let mut nontrivial_blend = false;
        for f in &img.frames {
            if f.fh.frame_type.is_normal() {
                modes.insert(format!("{:?}", f.fh.blending_info.mode));
                for e in &f.fh.ec_blending_info {
                    modes.insert(format!("e{:?}", e.mode));
                }
                if f.fh.blending_info.mode != jxlgen::headers::BlendMode::Replace || f.fh.have_crop {
                    nontrivial_blend = true;
                }
                let (cw, ch) = (img.ih.size.width as i64, img.ih.size.height as i64);
                let c = if !f.fh.have_crop { "full" } else if f.fh.x0 as i64 >= cw || f.fh.y0 as i64 >= ch || (f.fh.x0 as i64 + f.fh.width as i64) <= 0 || (f.fh.y0 as i64 + f.fh.height as i64) <= 0 { "outside" } else if f.fh.full_frame(&img.ih) { "cover" } else if f.fh.x0 < 0 || f.fh.y0 < 0 || f.fh.x0 as i64 + f.fh.width as i64 > cw || f.fh.y0 as i64 + f.fh.height as i64 > ch { "partial" } else { "inside" };
                crops.insert(c);
            }
        }
        let alpha_cfg = img.ih.metadata.ec_info.iter().map(|e| match e.ty { jxlgen::headers::EcType::Alpha { associated: true } => 'P', jxlgen::headers::EcType::Alpha { associated: false } => 'A', _ => 'x' }).collect::<String>();
        case.sig(
            format!("{}|{}|{}|{}", if types.len() > 5 { format!("{}+", &types[..5]) } else { types.clone() }, modes.iter().cloned().collect::<Vec<_>>().join(","), crops.iter().cloned().collect::<Vec<_>>().join(","), alpha_cfg),
            nontrivial_blend && img.frames.len() >= 2,
        );
        case.sample(format!("{{\"anim\":{},\"keyframes\":{}}}", json_str(&img.desc), expected.len()));
        let pool = if rng.chance(1, 4) { Pool::Rayon(3) } else { Pool::None };
        let image = match open_image(&img.bytes, pool, false) {
            Ok(i) => i,
            Err(e) => {
                case.violation("open-err", format!("valid multi-frame image rejected: {e} [{}]", img.desc));
                return;
            }
        };
        if image.num_loaded_keyframes() != expected.len() || image.num_loaded_frames() != img.frames.len() {
            case.violation("frame-count", format!("keyframes {} (want {}), frames {} (want {}) [{}]", image.num_loaded_keyframes(), expected.len(), image.num_loaded_frames(), img.frames.len(), img.desc));
            return;
        }
        // request order: random permutation with repeats
        let mut order: Vec<usize> = (0..expected.len()).collect();
        rng.shuffle(&mut order);
        let extra = rng.urange(0, 2);
        for _ in 0..extra {
            order.push(rng.below(expected.len() as u64) as usize);
        }
        let mut first_seen: Vec<Option<Vec<Vec<u32>>>> = vec![None; expected.len()];
        for &k in &order {
            let planes = match float_planes(&image, k) {
                Ok(p) => p,
                Err(e) => {
                    case.violation("render-err", format!("keyframe {k}: {e} [{}]", img.desc));
                    return;
                }
            };
            let exp = &expected[k];
            if planes.len() != exp.planes.len() {
                case.violation("channels", format!("keyframe {k}: {} planes, want {} [{}]", planes.len(), exp.planes.len(), img.desc));
                return;
            }
            for (c, (w, h, data)) in planes.iter().enumerate() {
                if (*w, *h) != (exp.w, exp.h) {
                    case.violation("dims", format!("keyframe {k} plane {c}: {}x{} want {}x{} [{}]", w, h, exp.w, exp.h, img.desc));
                    return;
                }
                for (i, (&got, &want)) in data.iter().zip(&exp.planes[c]).enumerate() {
                    // 1e-5 relative slack for f32 evaluation order, plus the modelled error bound
                    // of ill-conditioned steps (straight-alpha division) and its propagation
                    let tol = 1e-5 * want.abs().max(1.0) + 2.0 * exp.errs[c][i];
                    if !tol.is_finite() {
                        case.obs("samples_unbounded_skipped", 1);
                        continue;
                    }
                    if !((got as f64 - want).abs() <= tol) {
                        case.violation(
                            "blend-mismatch",
                            format!("keyframe {k} channel {c} at ({},{}): got {got} want {want} [{}]", i % exp.w, i / exp.w, img.desc),
                        );
                        return;
                    }
                }
            }
            let bits: Vec<Vec<u32>> = planes.iter().map(|p| p.2.iter().map(|v| v.to_bits()).collect()).collect();
            match &first_seen[k] {
                None => first_seen[k] = Some(bits),
                Some(b) => {
                    if *b != bits {
                        case.violation("order-dependence", format!("keyframe {k} rendered twice gives different bits [{}]", img.desc));
                        return;
                    }
                    case.obs("repeat_renders_identical", 1);
                }
            }
            case.obs("keyframes_compared", 1);
            case.obs("samples_compared", (exp.w * exp.h * exp.planes.len()) as u64);
        }
    })
}
