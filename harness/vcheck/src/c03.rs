//! C03: lossless Modular images decode to exactly the encoded samples.

use crate::common::*;
use crate::dec::*;
use jxlgen::imggen::*;

fn compare_planes(img: &ModularImage, got: &[(usize, usize, Vec<i32>)], what: &str) -> Result<(), String> {
    if got.len() != img.truth.len() {
        return Err(format!("{what}: {} channels decoded, {} encoded", got.len(), img.truth.len()));
    }
    for (c, (t, g)) in img.truth.iter().zip(got).enumerate() {
        if (t.w, t.h) != (g.0, g.1) {
            return Err(format!("{what}: channel {c} size {}x{} != {}x{}", g.0, g.1, t.w, t.h));
        }
        if let Some(p) = t.data.iter().zip(&g.2).position(|(a, b)| a != b) {
            return Err(format!(
                "{what}: channel {c} differs at ({},{}): decoded {} != encoded {}",
                p % t.w.max(1),
                p / t.w.max(1),
                g.2[p],
                t.data[p]
            ));
        }
    }
    Ok(())
}

pub fn check_image(case: &mut Case, img: &ModularImage, thorough: bool) {
    case.set_input(&img.bytes);
    if std::env::var("VCHECK_DEBUG").is_ok() {
        eprintln!("{} | {} | {:?}", img.desc, img.enc_desc, img.transforms);
    }
    let narrow = img.ih.metadata.modular_16bit_buffers;
    // ---- frame-level decode (all channels at native resolution), both sample widths
    let image = match open_image(&img.bytes, Pool::None, false) {
        Ok(i) => i,
        Err(e) => {
            // known finding: the preview frame is sized from the image header
            let sig = if matches!(img.preview, Some((_, _, true))) { "dev:preview-frame-size" } else { "open-err" };
            case.violation(sig, format!("valid image rejected: {e} [{} | {} | preview {:?}]", img.desc, img.enc_desc, img.preview));
            return;
        }
    };
    if img.preview.is_some() {
        case.obs("images_with_preview_frame", 1);
    }
    if image.num_loaded_frames() != 1 || !image.is_loading_done() {
        let sig = if matches!(img.preview, Some((_, _, true))) { "dev:preview-frame-size" } else { "frames" };
        case.violation(sig, format!("loaded_frames={} done={} [{} | preview {:?}]", image.num_loaded_frames(), image.is_loading_done(), img.desc, img.preview));
        return;
    }
    // With a preview frame that the decoder sizes differently (known finding) the first frame is
    // parsed from the wrong offset: whatever goes wrong first belongs to that finding.
    let pv_dev = matches!(img.preview, Some((_, _, true)));
    match frame_level_modular::<i32>(&image, 0) {
        Ok(p) => {
            if let Err(e) = compare_planes(img, &p, "frame-level i32") {
                case.violation(if pv_dev { "dev:preview-frame-size" } else { "mismatch-i32" }, format!("{e} [{} | {} | preview {:?}]", img.desc, img.enc_desc, img.preview));
                return;
            }
        }
        Err(e) => {
            case.violation(if pv_dev { "dev:preview-frame-size" } else { "decode-err-i32" }, format!("{e} [{} | {} | preview {:?}]", img.desc, img.enc_desc, img.preview));
            return;
        }
    }
    case.obs("frame_level_i32", 1);
    if narrow {
        match frame_level_modular::<i16>(&image, 0) {
            Ok(p) => {
                if let Err(e) = compare_planes(img, &p, "frame-level i16") {
                    case.violation("mismatch-i16", format!("{e} [{} | {}]", img.desc, img.enc_desc));
                    return;
                }
            }
            Err(e) => {
                case.violation("decode-err-i16", format!("{e} [{} | {}]", img.desc, img.enc_desc));
                return;
            }
        }
        case.obs("frame_level_i16", 1);
    }
    // ---- full render path for channels without subsampling
    // (under Miri no thread pool: rayon's crossbeam-epoch trips Stacked Borrows in third-party code,
    // which would mask everything else; races are TSan's job in the C02 plan)
    let configs: Vec<(Pool, bool)> = if cfg!(miri) {
        vec![(Pool::None, false), (Pool::None, true)]
    } else if thorough {
        vec![(Pool::None, false), (Pool::None, true), (Pool::Rayon(4), false)]
    } else {
        let k = case.rng.below(3);
        vec![[(Pool::None, false), (Pool::None, true), (Pool::Rayon(3), false)][k as usize]]
    };
    for (pool, wide) in configs {
        let image = match open_image(&img.bytes, pool, wide) {
            Ok(i) => i,
            Err(e) => {
                case.violation("open-err", format!("{e}"));
                return;
            }
        };
        let planes = match render_planes(&image, 0) {
            Ok(p) => p,
            Err(e) => {
                case.violation("render-err", format!("render failed: {e} [{} | {}] pool={pool:?} wide={wide}", img.desc, img.enc_desc));
                return;
            }
        };
        if planes.len() != img.truth.len() {
            case.violation("render-channels", format!("{} planes, {} channels", planes.len(), img.truth.len()));
            return;
        }
        for (c, (t, p)) in img.truth.iter().zip(&planes).enumerate() {
            let shift = img.infos[c].hshift;
            if shift != 0 {
                continue; // subsampled extra channels are interpolated by the renderer
            }
            let bits = if c < img.num_color { img.ih.metadata.bit_depth } else { img.ih.metadata.ec_info[c - img.num_color].bit_depth };
            match p {
                Plane::Int { w, h, data, .. } => {
                    case.obs("render_int_planes", 1);
                    if (*w, *h) != (t.w, t.h) {
                        case.violation("render-size", format!("channel {c} {}x{} != {}x{}", w, h, t.w, t.h));
                        return;
                    }
                    if let Some(pz) = data.iter().zip(&t.data).position(|(a, b)| a != b) {
                        case.violation(
                            "render-mismatch-int",
                            format!("render channel {c} differs at {} : {} != {} pool={pool:?} wide={wide} [{} | {}]", pz, data[pz], t.data[pz], img.desc, img.enc_desc),
                        );
                        return;
                    }
                }
                Plane::Float { w, h, data } => {
                    case.obs("render_float_planes", 1);
                    if (*w, *h) != (t.w, t.h) {
                        case.violation("render-size", format!("channel {c} {}x{} != {}x{}", w, h, t.w, t.h));
                        return;
                    }
                    if let jxlgen::headers::BitDepth::Int { bits } = bits {
                        if bits <= 22 {
                            let div = ((1u64 << bits) - 1) as f64;
                            for (i, (&f, &v)) in data.iter().zip(&t.data).enumerate() {
                                let back = (f as f64 * div).round() as i64;
                                if back != v as i64 {
                                    case.violation(
                                        "render-mismatch-float",
                                        format!("render channel {c} at {i}: {f} ~ {back} != {v} pool={pool:?} wide={wide} [{} | {}]", img.desc, img.enc_desc),
                                    );
                                    return;
                                }
                            }
                        }
                    }
                }
            }
        }
        case.obs("renders", 1);
    }
}

fn size_class(w: u32, h: u32, g: u32) -> &'static str {
    let m = w.max(h);
    if m <= 8 {
        "tiny"
    } else if m <= g {
        "1group"
    } else {
        "multi"
    }
}

pub fn describe(img: &ModularImage) -> String {
    // signature: (channels, depth class, transforms, tree styles, group layout class)
    let d = match img.ih.metadata.bit_depth {
        jxlgen::headers::BitDepth::Int { bits } => match bits {
            1..=7 => "d<8",
            8 => "d8",
            9..=12 => "d9-12",
            13..=16 => "d13-16",
            17..=24 => "d17-24",
            _ => "d25+",
        },
        _ => "float",
    };
    let enc = &img.enc_desc;
    let tr = enc.split("tr=[").nth(1).and_then(|s| s.split(']').next()).unwrap_or("");
    // collapse rct types to a class
    let trc: Vec<String> = tr
        .split(',')
        .filter(|s| !s.is_empty())
        .map(|s| if s.starts_with("rct") { let t: u32 = s[3..].parse().unwrap_or(0); format!("rct{}p{}", t % 7, t / 7) } else { s.to_string() })
        .collect();
    let gt = enc.split("gtree=").nth(1).and_then(|s| s.split(' ').next()).unwrap_or("");
    format!(
        "{}|ch{}|{}|{}|{}|{}|p{}|n{}",
        size_class(img.ih.size.width, img.ih.size.height, img.fh.group_dim()),
        img.truth.len(),
        d,
        trc.join("+"),
        gt,
        if enc.contains("local_trees={}") { "g" } else { "L" },
        img.fh.passes.num_passes,
        img.ih.metadata.modular_16bit_buffers as u32
    )
}

pub fn run(args: &Args) -> i32 {
    let thorough = args.thorough();
    let tiny = args.extra.contains_key("tiny");
    // 2: any preview (incl. the known-finding class), 1: only previews both sizings agree on (used when
    // this workload runs as a stage of C02, which judges memory safety only)
    let preview_mode = args.extra_u64("preview-mode", 2) as u32;
    run_cases(args, 0xC03, |case| {
        let mut rng = case.rng.fork();
        let opts = if tiny {
            // Miri: keep images tiny (the interpreter is ~10^4 times slower)
            ImgOpts { size_class: 0, max_dim: 8, max_extra: 1, allow_local: false, ..Default::default() }
        } else { ImgOpts {
            size_class: match rng.below(10) {
                0 => 0,
                1..=5 => 1,
                6 | 7 => 2,
                8 => 3,
                _ => 4,
            },
            max_dim: if thorough { 1100 } else { 300 },
            preview: preview_mode,
            ..Default::default()
        } };
        let mut img = None;
        for _ in 0..30 {
            if let Some(i) = gen_modular_image(&mut rng, &opts) {
                img = Some(i);
                break;
            }
        }
        let Some(img) = img else {
            case.inconclusive("generator gave up");
            return;
        };
        let nontrivial = img.num_samples >= 16 && img.nonzero_residuals > 0;
        case.sig(describe(&img), nontrivial);
        case.sample(format!("{{\"image\":{},\"encoding\":{},\"bytes\":{}}}", json_str(&img.desc), json_str(&img.enc_desc), img.bytes.len()));
        case.obs("samples_compared", img.num_samples as u64);
        check_image(case, &img, thorough);
    })
}
