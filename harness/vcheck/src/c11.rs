//! C11: every prefix of a valid stream means "need more data", never corruption.
//!
//! Workload: the streams of C09 (feedutil): generated lossless Modular images, bare and in random
//! valid container layouts, single-section and multi-section (multi-group, multi-pass, permuted
//! TOC) frames, mostly small so that EVERY byte position can be used as a cut; the real
//! multi-frame CMYK/ICC file for a small share of cases with cuts at structural boundaries;
//! generated multi-frame streams (`jxlgen::anim`: layers, animation, reference-only and
//! skip-progressive frames, crops, blend modes).
//!
//! For every cut position c (every byte for short streams, otherwise every structural boundary
//! +-2 plus random positions):
//!  (a) a fresh decoder is fed the prefix `file[..c]` (one call, or random chunks), `try_init`;
//!      if it initialises: metadata queries, `render_loading_frame` (sometimes twice); then the
//!      remaining bytes are fed, `finalize`, and everything the API reports plus the samples of
//!      every keyframe are compared with the uninterrupted decode.
//!  (b) long-lived decoders are fed the stream in order, stopping at a random subset of the cuts
//!      and attempting `render_loading_frame` at a random subset of those; then completed and
//!      compared with the uninterrupted decode.
//!
//! Oracle (exact):
//!  * `feed_bytes` on a prefix never fails and never claims more bytes than offered; `try_init`
//!    is NeedMoreData or Initialized, never Err;
//!  * `render_loading_frame` returns Ok with `image_all_channels()` of exactly the width / height
//!    / channel count of the complete render, or an error of the need-more-data class:
//!    `jxl_render::Error::IncompleteFrame`, or an error whose `source()` chain ends in an
//!    `io::Error` of kind UnexpectedEof.  Anything else (or a panic) is a violation;
//!  * on a prefix: `is_loading_done()` iff every codestream byte is inside the prefix,
//!    `num_loaded_frames()` / `num_loaded_keyframes()` == number of frames / keyframes that lie
//!    completely inside the prefix (all known from the writer), `frame_offset(i)` of every reported frame equals the final value;
//!  * after the rest was supplied: headers, counts, offsets, aux boxes, completion flag and samples
//!    bit-identical to the uninterrupted decode.

use crate::common::*;
use crate::feedutil::*;
use jxlgen::rng::Rng;
use std::collections::BTreeMap;

struct Ctx {
    real: Option<RealFile>,
    real_loaded: bool,
    real_every: u64,
}

#[derive(Default)]
struct Tally {
    /// region -> set of outcomes
    seen: BTreeMap<String, std::collections::BTreeSet<&'static str>>,
}

impl Tally {
    fn add(&mut self, region: String, outcome: &'static str) {
        self.seen.entry(region).or_default().insert(outcome);
    }
    fn sig(&self) -> String {
        let mut v = Vec::new();
        for (r, o) in &self.seen {
            let o: Vec<&str> = o.iter().copied().collect();
            v.push(format!("{r}={}", o.join("/")));
        }
        v.join(",")
    }
}

struct RefInfo {
    snap: Snapshot,
    /// (width, height, channels) of image_all_channels() of the complete render of the LAST keyframe
    shape: Option<(usize, usize, usize)>,
}

fn ctx_str(st: &TestStream) -> String {
    format!("[{} | {} | {}]", st.layout_class, st.struct_class, st.desc)
}

/// Queries + loading render on a decoder that has seen `file[..c]`. Returns the outcome label.
fn probe(f: &mut Feeder, st: &TestStream, refi: &RefInfo, c: usize, twice: bool) -> Result<&'static str, Fail> {
    let n = st.file.len();
    let fail = |kind: &str, detail: String| Fail { kind: kind.to_string(), detail, at: c };
    let want_done = st.cs_avail(c) >= st.cs_len;
    let want_frames = st.frames_complete(c);
    let Some(image) = f.image() else { return Ok("uninit") };
    // ---- metadata on a prefix
    if image.is_loading_done() != want_done {
        return Err(fail("prefix-done-flag", format!("is_loading_done() = {} with {c} of {n} bytes ({} of {} codestream bytes)", image.is_loading_done(), st.cs_avail(c), st.cs_len)));
    }
    let lf = image.num_loaded_frames();
    if lf != want_frames {
        return Err(fail("prefix-frame-count", format!("num_loaded_frames() = {lf} with {c} of {n} bytes; {want_frames} frames are complete at that point")));
    }
    if let Some(k) = st.keyframes_complete(c) {
        if image.num_loaded_keyframes() != k {
            return Err(fail("prefix-keyframe-count", format!("num_loaded_keyframes() = {} with {c} of {n} bytes; {k} keyframes are complete at that point", image.num_loaded_keyframes())));
        }
    }
    if image.num_loaded_keyframes() > refi.snap.loaded_keyframes {
        return Err(fail("prefix-keyframe-count", format!("num_loaded_keyframes() = {} on a prefix, {} in the complete image", image.num_loaded_keyframes(), refi.snap.loaded_keyframes)));
    }
    for i in 0..=lf {
        if let Some(o) = image.frame_offset(i) {
            if refi.snap.offsets.get(i).copied().flatten() != Some(o) {
                return Err(fail("prefix-frame-offset", format!("frame_offset({i}) = {o} on the prefix of {c} bytes, {:?} in the complete image", refi.snap.offsets.get(i))));
            }
        }
    }
    let hdr = format!("{:?}", image.image_header());
    if hdr != refi.snap.header {
        return Err(fail("prefix-header", format!("image_header on the prefix of {c} bytes differs from the complete decode")));
    }
    // ---- loading render
    let mut label = "uninit";
    for round in 0..(if twice { 2 } else { 1 }) {
        let this = match image.render_loading_frame() {
            Ok(r) => {
                let fb = r.image_all_channels();
                let got = (fb.width(), fb.height(), fb.channels());
                if let Some(want) = refi.shape {
                    if got != want {
                        return Err(fail(
                            "loading-render-shape",
                            format!("render_loading_frame() with {c} of {n} bytes returned {}x{} with {} channels, the complete render is {}x{} with {} channels", got.0, got.1, got.2, want.0, want.1, want.2),
                        ));
                    }
                }
                "ok"
            }
            Err(e) => match need_more_data_class(&*e) {
                Some(l) => l,
                None => {
                    let dbg = format!("{e:?}");
                    let short: String = dbg.chars().take(60).collect();
                    let cls: String = short.split(|ch: char| !(ch.is_alphanumeric() || ch == '(' || ch == ':')).next().unwrap_or("").to_string();
                    return Err(fail(
                        &format!("loading-render-error:{cls}"),
                        format!("render_loading_frame() with {c} of {n} bytes (call {}) failed with an error that is not of the need-more-data class: {e} ({short})", round + 1),
                    ));
                }
            },
        };
        if round == 0 {
            label = this;
        }
    }
    Ok(label)
}

/// (a): fresh decoder, prefix, probe, rest, compare.
fn cut_fresh(st: &TestStream, refi: &RefInfo, c: usize, chunked: bool, twice: bool, seed: u64) -> Result<(&'static str, u64), Fail> {
    guard_fail(c, || {
        let mut f = Feeder::new(&st.file);
        if c > 0 {
            if chunked {
                let mut rng = Rng::new(seed);
                let mut p = 0usize;
                while p < c {
                    p = (p + rng.urange(1, 1 + c / 2)).min(c);
                    f.offer_to(p)?;
                    if rng.bool() {
                        f.try_init()?;
                    }
                }
            } else {
                f.offer_to(c)?;
            }
        }
        f.try_init()?;
        let label = probe(&mut f, st, refi, c, twice)?;
        f.complete()?;
        let feeds = f.feeds;
        let snap = snapshot(f.image().unwrap(), false);
        if let Some((field, d)) = diff(&refi.snap, &snap) {
            return Err(Fail {
                kind: format!("final-{field}"),
                detail: format!("after a stop at {c} of {} bytes (loading render there: {label}) the completed decode differs from the uninterrupted one: {d}", st.file.len()),
                at: c,
            });
        }
        Ok((label, feeds))
    })
}

/// (b): one decoder fed in order, loading renders at a subset of the stops.
fn long_lived(st: &TestStream, refi: &RefInfo, stops: &[(usize, bool)], tally: &mut Vec<(usize, &'static str)>) -> Result<u64, Fail> {
    let mut out = Vec::new();
    let r = guard_fail(0, || {
        let mut f = Feeder::new(&st.file);
        for &(c, render) in stops {
            f.offer_to(c)?;
            f.try_init()?;
            if render {
                let l = probe(&mut f, st, refi, c, false)?;
                out.push((c, l));
            }
        }
        f.complete()?;
        let snap = snapshot(f.image().unwrap(), false);
        if let Some((field, d)) = diff(&refi.snap, &snap) {
            let hist: Vec<String> = out.iter().map(|(c, l)| format!("{c}:{l}")).collect();
            return Err(Fail {
                kind: format!("final-{field}"),
                detail: format!("one decoder fed in order with loading renders at [{}] (of {} bytes): the completed decode differs from the uninterrupted one: {d}", hist.join(" "), st.file.len()),
                at: st.file.len(),
            });
        }
        Ok(f.feeds)
    });
    tally.extend(out);
    r
}

fn check_stream(case: &mut Case, st: &mut TestStream, generated: bool, every_byte_limit: usize, n_random: usize, n_long: usize, max_cuts: usize) -> Option<Tally> {
    case.set_input(&st.file);
    let n = st.file.len();
    let mut rng = case.rng.fork();
    // ---- uninterrupted decode
    let file = st.file.clone();
    let reference = guard_fail(n, || {
        let mut f = run_plan(&file, &Plan::Ends { ends: vec![n], init_every: 1 })?;
        let image = f.image().unwrap();
        Ok((snapshot(image, true), f))
    });
    let (snap, mut reff) = match reference {
        Ok(x) => x,
        Err(e) => {
            case.violation(format!("whole:{}", e.kind), format!("uninterrupted decode of a valid stream failed: {} {}", e.detail, ctx_str(st)));
            return None;
        }
    };
    if let Err(e) = &snap.renders {
        case.violation("whole:render-error", format!("uninterrupted decode: render failed: {e} {}", ctx_str(st)));
        return None;
    }
    if !snap.done || snap.loaded_frames != st.frames.len() {
        case.violation("whole:incomplete", format!("complete stream: done={} frames={} (stream has {}) {}", snap.done, snap.loaded_frames, st.frames.len(), ctx_str(st)));
        return None;
    }
    if generated {
        // decoder-independent truth: frame offsets as written by the generator
        let want: Vec<Option<usize>> = st.frames.iter().map(|f| Some(f.offset)).chain(std::iter::once(None)).collect();
        if snap.offsets != want {
            case.violation("whole:frame-offset", format!("frame_offset reports {:?}, written {:?} {}", snap.offsets, want, ctx_str(st)));
            return None;
        }
        if let Err(e) = st.label_sections(reff.image().unwrap()) {
            case.violation("whole:toc", format!("{e} {}", ctx_str(st)));
            return None;
        }
    }
    drop(reff);
    let shape = snap.renders.as_ref().ok().and_then(|v| v.last()).and_then(|k| k.all_channels);
    let refi = RefInfo { snap, shape };
    let st: &TestStream = st;
    // ---- cut positions
    let mut cuts: Vec<usize> = if st.real {
        let mut v = around_marks(st, 1);
        rng.shuffle(&mut v);
        v.truncate(max_cuts);
        v
    } else if n <= every_byte_limit {
        (0..=n).collect()
    } else {
        let mut v = around_marks(st, 2);
        if v.len() > max_cuts {
            rng.shuffle(&mut v);
            v.truncate(max_cuts);
        }
        for _ in 0..n_random {
            v.push(rng.urange(0, n));
        }
        v
    };
    cuts.sort();
    cuts.dedup();
    // Cost bound: every cut costs about two decodes of the stream (loading render + final render).
    // Keep the bytes decoded per case below ~2 x 16 MB so that a case stays within a few seconds
    // (large streams get fewer cuts, never fewer than 12).
    let cut_budget = (16_000_000 / n.max(1)).max(12);
    if cuts.len() > cut_budget {
        rng.shuffle(&mut cuts);
        cuts.truncate(cut_budget);
        cuts.sort();
    }
    case.obs(if n <= every_byte_limit && !st.real { "streams_cut_at_every_byte" } else { "streams_cut_at_boundaries_and_random" }, 1);
    let mut tally = Tally::default();
    // ---- (a)
    for &c in &cuts {
        let chunked = c > 1 && rng.chance(1, 3);
        let twice = rng.chance(1, 6);
        match cut_fresh(st, &refi, c, chunked, twice, rng.next_u64()) {
            Ok((label, feeds)) => {
                let region = st.region(c);
                case.obs("cuts_fresh_decoder", 1);
                case.obs(&format!("loading_render_{label}"), 1);
                case.obs("feed_calls", feeds);
                case.obs_set("cut_region_and_outcome", format!("{region}:{label}"));
                tally.add(region, label);
            }
            Err(e) => {
                let region = st.region(e.at);
                case.violation(format!("fresh:{}:{}", e.kind, region), format!("{} (cut in `{region}`; prefix fed {}) {}", e.detail, if chunked { "in random chunks" } else { "in one call" }, ctx_str(st)));
                return Some(tally);
            }
        }
    }
    // ---- (b)
    for _ in 0..n_long {
        let m = rng.urange(2, 40.min(cuts.len().max(2)).min((cut_budget / 8).max(2)));
        let mut stops: Vec<usize> = (0..m).map(|_| *rng.pick(&cuts)).collect();
        stops.sort();
        stops.dedup();
        let dense = rng.chance(1, 3);
        let stops: Vec<(usize, bool)> = stops.into_iter().map(|c| (c, dense || rng.bool())).collect();
        let mut seen = Vec::new();
        let r = long_lived(st, &refi, &stops, &mut seen);
        for (c, l) in &seen {
            let region = st.region(*c);
            case.obs("loading_renders_long_lived", 1);
            case.obs_set("cut_region_and_outcome", format!("{region}:{l}"));
            tally.add(region, l);
        }
        match r {
            Ok(feeds) => {
                case.obs("long_lived_decoders", 1);
                case.obs("feed_calls", feeds);
            }
            Err(e) => {
                let region = st.region(e.at);
                let plan: Vec<String> = stops.iter().map(|(c, r)| format!("{c}{}", if *r { "r" } else { "" })).collect();
                case.violation(format!("long:{}:{}", e.kind, region), format!("{} (stops [{}], r = loading render) {}", e.detail, plan.join(" "), ctx_str(st)));
                return Some(tally);
            }
        }
    }
    Some(tally)
}

pub fn run(args: &Args) -> i32 {
    let thorough = args.thorough();
    let every_byte_limit = args.extra_u64("every-byte", if thorough { 4096 } else { 1536 }) as usize;
    let mut ctx = Ctx { real: None, real_loaded: false, real_every: args.extra_u64("real-every", if thorough { 60 } else { 50 }) };
    run_cases(args, 0xC11, |case| {
        let mut rng = case.rng.fork();
        let use_real = ctx.real_every != 0 && rng.chance(1, ctx.real_every);
        if use_real && !ctx.real_loaded {
            ctx.real = load_real();
            ctx.real_loaded = true;
        }
        if use_real {
            let Some(real) = ctx.real.as_ref() else {
                case.inconclusive("real file not available");
                return;
            };
            let mut st = real_stream(real, &mut rng);
            case.sample(format!("{{\"stream\":{},\"layout\":{},\"bytes\":{}}}", json_str(&st.desc), json_str(&st.layout_class), st.file.len()));
            case.obs("real_file_cases", 1);
            let t = check_stream(case, &mut st, false, 0, 0, 1, if thorough { 10 } else { 5 });
            let layout = if st.container { "container" } else { "bare" };
            case.sig(format!("{layout}|{}|{}", st.struct_class, t.map(|t| t.sig()).unwrap_or_default()), true);
            return;
        }
        if rng.chance(1, 6) {
            // generated multi-frame stream (layers / animation / reference frames)
            let mg = thorough && rng.chance(1, 5);
            let Some((mut st, img)) = gen_anim_stream(&mut rng, if thorough { 120 } else { 40 }, mg, 35, 400) else {
                case.inconclusive("generator gave up");
                return;
            };
            case.sample(format!(
                "{{\"image\":{},\"layout\":{},\"structure\":{},\"bytes\":{},\"every_byte\":{}}}",
                json_str(&img.desc),
                json_str(&st.layout_class),
                json_str(&st.struct_class),
                st.file.len(),
                st.file.len() <= every_byte_limit
            ));
            case.obs("streams", 1);
            case.obs("multi_frame_streams", 1);
            case.obs("frames_in_multi_frame_streams", st.frames.len() as u64);
            case.obs("stream_bytes", st.file.len() as u64);
            case.obs(if st.container { "container_streams" } else { "bare_streams" }, 1);
            let t = check_stream(case, &mut st, true, every_byte_limit, if thorough { 200 } else { 80 }, if thorough { 6 } else { 3 }, if thorough { 1500 } else { 500 });
            let layout = if st.container { if st.layout_class.starts_with("jxlc") { "jxlc" } else { "jxlp" } } else { "bare" };
            case.sig(format!("{layout}|{}|{}", st.struct_class, t.map(|t| t.sig()).unwrap_or_default()), st.file.len() > 24);
            return;
        }
        // mostly streams short enough for a cut at every byte; a share of larger multi-section ones
        let big = rng.chance(1, 5);
        let p = GenParams {
            size_weights: if big { [0, 20, 20, 55, 5] } else { [30, 55, 10, 5, 0] },
            max_dim: if big { if thorough { 400 } else { 260 } } else { 64 },
            bare_pct: 35,
            big_every: 400,
            prefer_max_len: if big { None } else { Some(every_byte_limit) },
            want_multi_section: big && rng.chance(1, 2),
        };
        let Some((mut st, img)) = gen_stream(&mut rng, &p) else {
            case.inconclusive("generator gave up");
            return;
        };
        case.sample(format!(
            "{{\"image\":{},\"layout\":{},\"structure\":{},\"bytes\":{},\"every_byte\":{}}}",
            json_str(&img.desc),
            json_str(&st.layout_class),
            json_str(&st.struct_class),
            st.file.len(),
            st.file.len() <= every_byte_limit
        ));
        case.obs("streams", 1);
        case.obs("stream_bytes", st.file.len() as u64);
        case.obs(if st.container { "container_streams" } else { "bare_streams" }, 1);
        if st.frames[0].sections.len() > 1 {
            case.obs("multi_section_streams", 1);
        }
        let t = check_stream(case, &mut st, true, every_byte_limit, if thorough { 200 } else { 80 }, if thorough { 6 } else { 3 }, if thorough { 1500 } else { 500 });
        let nontrivial = img.num_samples >= 16 && st.file.len() > 24;
        // signature: stream class x (region of the cut -> what the loading render returned)
        let layout = if st.container { if st.layout_class.starts_with("jxlc") { "jxlc" } else { "jxlp" } } else { "bare" };
        case.sig(format!("{layout}|{}|{}", st.struct_class, t.map(|t| t.sig()).unwrap_or_default()), nontrivial);
    })
}
