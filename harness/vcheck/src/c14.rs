//! C14: headers and metadata are reported exactly as encoded; parsing stops at the exact bit.

use crate::common::*;
use jxl_bitstream::Bitstream;
use jxl_oxide_common::Bundle;
use jxlgen::bits::{f16_to_f32, BitWriter};
use jxlgen::headers as h;
use jxlgen::hgen;
use jxlgen::rng::Rng;
use std::sync::Arc;

fn f32eq(dec: f32, bits: u16) -> bool {
    dec.to_bits() == f16_to_f32(bits).to_bits()
}

macro_rules! chk {
    ($cond:expr, $($fmt:tt)*) => {
        if !($cond) {
            return Err(format!($($fmt)*));
        }
    };
}

fn cmp_bit_depth(d: &jxl_image::BitDepth, m: &h::BitDepth, what: &str) -> Result<(), String> {
    match (d, m) {
        (jxl_image::BitDepth::IntegerSample { bits_per_sample }, h::BitDepth::Int { bits }) => {
            chk!(bits_per_sample == bits, "{what}: int bits {bits_per_sample} != {bits}");
        }
        (
            jxl_image::BitDepth::FloatSample { bits_per_sample, exp_bits },
            h::BitDepth::Float { bits, exp_bits: e },
        ) => {
            chk!(bits_per_sample == bits && exp_bits == e, "{what}: float depth {bits_per_sample}/{exp_bits} != {bits}/{e}");
        }
        _ => return Err(format!("{what}: bit depth kind differs: {d:?} vs {m:?}")),
    }
    chk!(d.bits_per_sample() == m.bits(), "{what}: bits_per_sample()");
    Ok(())
}

fn cmp_xy(d: &jxl_image::color::Customxy, m: &h::Xy, what: &str) -> Result<(), String> {
    chk!(d.x == m.x && d.y == m.y, "{what}: xy ({},{}) != ({},{})", d.x, d.y, m.x, m.y);
    Ok(())
}

fn cmp_colour(d: &jxl_image::color::ColourEncoding, m: &h::ColourEncoding) -> Result<(), String> {
    use jxl_image::color as c;
    let cs = match d.colour_space() {
        c::ColourSpace::Rgb => 0,
        c::ColourSpace::Grey => 1,
        c::ColourSpace::Xyb => 2,
        c::ColourSpace::Unknown => 3,
    };
    chk!(cs == m.colour_space, "colour space {cs} != {}", m.colour_space);
    chk!(d.want_icc() == m.want_icc, "want_icc");
    match d {
        c::ColourEncoding::IccProfile(_) => {}
        c::ColourEncoding::Enum(e) => {
            match (&e.white_point, &m.white_point) {
                (c::WhitePoint::D65, h::WhitePoint::D65) => {}
                (c::WhitePoint::E, h::WhitePoint::E) => {}
                (c::WhitePoint::Dci, h::WhitePoint::Dci) => {}
                (c::WhitePoint::Custom(x), h::WhitePoint::Custom(y)) => cmp_xy(x, y, "white point")?,
                (a, b) => return Err(format!("white point {a:?} != {b:?}")),
            }
            match (&e.primaries, &m.primaries) {
                (c::Primaries::Srgb, h::Primaries::Srgb) => {}
                (c::Primaries::Bt2100, h::Primaries::Bt2100) => {}
                (c::Primaries::P3, h::Primaries::P3) => {}
                (c::Primaries::Custom { red, green, blue }, h::Primaries::Custom(p)) => {
                    cmp_xy(red, &p[0], "red")?;
                    cmp_xy(green, &p[1], "green")?;
                    cmp_xy(blue, &p[2], "blue")?;
                }
                (a, b) => return Err(format!("primaries {a:?} != {b:?}")),
            }
            match (&e.tf, &m.tf) {
                (c::TransferFunction::Gamma { g, inverted }, h::Tf::Gamma(mg)) => {
                    chk!(g == mg, "gamma {g} != {mg}");
                    chk!(*inverted, "bitstream gamma must be reported as inverted (exponent < 1 form)");
                }
                (c::TransferFunction::Bt709, h::Tf::Bt709)
                | (c::TransferFunction::Unknown, h::Tf::Unknown)
                | (c::TransferFunction::Linear, h::Tf::Linear)
                | (c::TransferFunction::Srgb, h::Tf::Srgb)
                | (c::TransferFunction::Pq, h::Tf::Pq)
                | (c::TransferFunction::Dci, h::Tf::Dci)
                | (c::TransferFunction::Hlg, h::Tf::Hlg) => {}
                (a, b) => return Err(format!("tf {a:?} != {b:?}")),
            }
            let ri = match e.rendering_intent {
                c::RenderingIntent::Perceptual => 0,
                c::RenderingIntent::Relative => 1,
                c::RenderingIntent::Saturation => 2,
                c::RenderingIntent::Absolute => 3,
            };
            chk!(ri == m.rendering_intent, "rendering intent {ri} != {}", m.rendering_intent);
        }
    }
    Ok(())
}

const D_UP2_FIRST: f32 = -0.01716200;

pub fn cmp_image_header(d: &jxl_image::ImageHeader, m: &h::ImageHeader) -> Result<(), String> {
    chk!(d.size.width == m.size.width, "width {} != {}", d.size.width, m.size.width);
    chk!(d.size.height == m.size.height, "height {} != {}", d.size.height, m.size.height);
    let dm = &d.metadata;
    let mm = &m.metadata;
    chk!(dm.orientation == mm.orientation, "orientation {} != {}", dm.orientation, mm.orientation);
    // oriented dims
    let (ow, oh) = if mm.orientation >= 5 { (m.size.height, m.size.width) } else { (m.size.width, m.size.height) };
    chk!(d.width_with_orientation() == ow && d.height_with_orientation() == oh, "oriented dims");
    match (&dm.intrinsic_size, &mm.intrinsic_size) {
        (None, None) => {}
        (Some(a), Some(b)) => chk!(a.width == b.width && a.height == b.height, "intrinsic size {}x{} != {}x{}", a.width, a.height, b.width, b.height),
        _ => return Err("intrinsic size presence".into()),
    }
    match (&dm.preview, &mm.preview) {
        (None, None) => {}
        (Some(a), Some(b)) => chk!(a.width == b.width && a.height == b.height, "preview size {}x{} != {}x{} (div8={} ratio={})", a.width, a.height, b.width, b.height, b.div8, b.ratio),
        _ => return Err("preview presence".into()),
    }
    match (&dm.animation, &mm.animation) {
        (None, None) => {}
        (Some(a), Some(b)) => {
            chk!(a.tps_numerator == b.tps_numerator, "tps_numerator");
            chk!(a.tps_denominator == b.tps_denominator, "tps_denominator");
            chk!(a.num_loops == b.num_loops, "num_loops");
            chk!(a.have_timecodes == b.have_timecodes, "have_timecodes");
        }
        _ => return Err("animation presence".into()),
    }
    cmp_bit_depth(&dm.bit_depth, &mm.bit_depth, "image")?;
    chk!(dm.modular_16bit_buffers == mm.modular_16bit_buffers, "modular_16bit_buffers");
    chk!(dm.ec_info.len() == mm.ec_info.len(), "num_extra {} != {}", dm.ec_info.len(), mm.ec_info.len());
    for (i, (a, b)) in dm.ec_info.iter().zip(&mm.ec_info).enumerate() {
        use jxl_image::ExtraChannelType as T;
        let what = format!("ec[{i}]");
        cmp_bit_depth(&a.bit_depth, &b.bit_depth, &what)?;
        chk!(a.dim_shift == b.dim_shift, "{what}: dim_shift {} != {}", a.dim_shift, b.dim_shift);
        chk!(a.name.as_str() == b.name, "{what}: name {:?} != {:?}", a.name.as_str(), b.name);
        match (&a.ty, &b.ty) {
            (T::Alpha { alpha_associated }, h::EcType::Alpha { associated }) => {
                chk!(alpha_associated == associated, "{what}: alpha_associated");
                chk!(a.is_alpha() && a.alpha_associated() == Some(*associated), "{what}: alpha accessors");
            }
            (T::Depth, h::EcType::Depth)
            | (T::SelectionMask, h::EcType::SelectionMask)
            | (T::Thermal, h::EcType::Thermal)
            | (T::NonOptional, h::EcType::NonOptional)
            | (T::Optional, h::EcType::Optional) => {}
            (T::Black, h::EcType::Black) => chk!(a.is_black(), "{what}: is_black"),
            (T::SpotColour { red, green, blue, solidity }, h::EcType::Spot { rgbs }) => {
                chk!(f32eq(*red, rgbs[0]) && f32eq(*green, rgbs[1]) && f32eq(*blue, rgbs[2]) && f32eq(*solidity, rgbs[3]), "{what}: spot colour values");
            }
            (T::Cfa { cfa_channel }, h::EcType::Cfa { channel }) => chk!(cfa_channel == channel, "{what}: cfa {cfa_channel} != {channel}"),
            (x, y) => return Err(format!("{what}: type {x:?} != {y:?}")),
        }
    }
    let alpha = mm.ec_info.iter().position(|e| matches!(e.ty, h::EcType::Alpha { .. }));
    chk!(dm.alpha() == alpha, "alpha() {:?} != {:?}", dm.alpha(), alpha);
    chk!(dm.xyb_encoded == mm.xyb_encoded, "xyb_encoded");
    cmp_colour(&dm.colour_encoding, &mm.colour_encoding)?;
    chk!(dm.grayscale() == (mm.colour_encoding.colour_space == 1), "grayscale()");
    let t = &dm.tone_mapping;
    let mt = &mm.tone_mapping;
    chk!(f32eq(t.intensity_target, mt.intensity_target), "intensity_target {} vs {:#x}", t.intensity_target, mt.intensity_target);
    chk!(f32eq(t.min_nits, mt.min_nits), "min_nits");
    chk!(t.relative_to_max_display == mt.relative_to_max_display, "relative_to_max_display");
    chk!(f32eq(t.linear_below, mt.linear_below), "linear_below");
    chk!(format!("{:?}", dm.extensions).contains(&format!("extension_bits: {} ", mm.extensions.bits)) || format!("{:?}", dm.extensions).contains(&format!("extension_bits: {}}}", mm.extensions.bits)) || format!("{:?}", dm.extensions).contains(&format!("extension_bits: {} }}", mm.extensions.bits)), "extensions {:?} != {}", dm.extensions, mm.extensions.bits);
    if let Some(o) = &mm.opsin_inverse {
        if !o.all_default {
            let om = &dm.opsin_inverse_matrix;
            for r in 0..3 {
                for c in 0..3 {
                    chk!(f32eq(om.inv_mat[r][c], o.inv_mat[r * 3 + c]), "inv_mat[{r}][{c}]");
                }
            }
            for i in 0..3 {
                chk!(f32eq(om.opsin_bias[i], o.opsin_bias[i]), "opsin_bias[{i}]");
                chk!(f32eq(om.quant_bias[i], o.quant_bias[i]), "quant_bias[{i}]");
            }
            chk!(f32eq(om.quant_bias_numerator, o.quant_bias_numerator), "quant_bias_numerator");
        }
    }
    if mm.opsin_inverse.as_ref().map_or(true, |o| o.all_default) {
        chk!((dm.opsin_inverse_matrix.quant_bias_numerator - 0.145).abs() < 1e-6, "default quant_bias_numerator");
    }
    match &mm.up2 {
        Some(w) => {
            for i in 0..15 {
                chk!(f32eq(dm.up2_weight[i], w[i]), "up2[{i}]");
            }
        }
        None => chk!(dm.up2_weight[0] == D_UP2_FIRST, "default up2 weights"),
    }
    if let Some(w) = &mm.up4 {
        for i in 0..55 {
            chk!(f32eq(dm.up4_weight[i], w[i]), "up4[{i}]");
        }
    }
    if let Some(w) = &mm.up8 {
        for i in 0..210 {
            chk!(f32eq(dm.up8_weight[i], w[i]), "up8[{i}]");
        }
    }
    Ok(())
}

fn cmp_blending(d: &jxl_frame::header::BlendingInfo, m: &h::BlendingInfo, what: &str) -> Result<(), String> {
    use jxl_frame::header::BlendMode as B;
    let dm = match d.mode {
        B::Replace => 0,
        B::Add => 1,
        B::Blend => 2,
        B::MulAdd => 3,
        B::Mul => 4,
    };
    chk!(dm == m.mode as u32, "{what}: mode {dm} != {}", m.mode as u32);
    chk!(d.alpha_channel == m.alpha_channel, "{what}: alpha_channel {} != {}", d.alpha_channel, m.alpha_channel);
    chk!(d.clamp == m.clamp, "{what}: clamp");
    chk!(d.source == m.source, "{what}: source {} != {}", d.source, m.source);
    Ok(())
}

pub fn cmp_frame_header(d: &jxl_frame::FrameHeader, m: &h::FrameHeader, ih: &h::ImageHeader) -> Result<(), String> {
    use jxl_frame::header::{Encoding, FrameType};
    let ft = match d.frame_type {
        FrameType::RegularFrame => 0,
        FrameType::LfFrame => 1,
        FrameType::ReferenceOnly => 2,
        FrameType::SkipProgressive => 3,
    };
    chk!(ft == m.frame_type as u32, "frame_type {ft} != {}", m.frame_type as u32);
    chk!((d.encoding == Encoding::Modular) == m.modular, "encoding");
    chk!(format!("{:?}", d.flags) == format!("FrameFlags({})", m.flags), "flags {:?} != {}", d.flags, m.flags);
    chk!(d.flags.noise() == (m.flags & h::FLAG_NOISE != 0), "noise flag");
    chk!(d.flags.patches() == (m.flags & h::FLAG_PATCHES != 0), "patches flag");
    chk!(d.flags.splines() == (m.flags & h::FLAG_SPLINES != 0), "splines flag");
    chk!(d.flags.use_lf_frame() == m.use_lf_frame(), "use_lf_frame flag");
    chk!(d.flags.skip_adaptive_lf_smoothing() == (m.flags & h::FLAG_SKIP_ADAPTIVE_LF_SMOOTHING != 0), "skip_adaptive flag");
    chk!(d.do_ycbcr == m.do_ycbcr, "do_ycbcr");
    chk!(d.encoded_color_channels() == m.encoded_color_channels(ih), "encoded_color_channels {} != {}", d.encoded_color_channels(), m.encoded_color_channels(ih));
    if m.do_ycbcr && !m.use_lf_frame() {
        chk!(d.jpeg_upsampling == m.jpeg_upsampling, "jpeg_upsampling {:?} != {:?}", d.jpeg_upsampling, m.jpeg_upsampling);
    }
    chk!(d.upsampling == m.upsampling, "upsampling {} != {}", d.upsampling, m.upsampling);
    chk!(d.ec_upsampling == m.ec_upsampling, "ec_upsampling {:?} != {:?}", d.ec_upsampling, m.ec_upsampling);
    chk!(d.group_size_shift == m.group_size_shift, "group_size_shift {} != {}", d.group_size_shift, m.group_size_shift);
    chk!(d.x_qm_scale == m.x_qm_scale, "x_qm_scale {} != {}", d.x_qm_scale, m.x_qm_scale);
    chk!(d.b_qm_scale == m.b_qm_scale, "b_qm_scale {} != {}", d.b_qm_scale, m.b_qm_scale);
    chk!(d.passes.num_passes == m.passes.num_passes, "num_passes");
    chk!(d.passes.shift == m.passes.shift, "passes.shift {:?} != {:?}", d.passes.shift, m.passes.shift);
    chk!(d.passes.downsample == m.passes.downsample, "passes.downsample");
    chk!(d.passes.last_pass == m.passes.last_pass, "passes.last_pass");
    chk!(d.passes.num_ds as usize == m.passes.downsample.len(), "passes.num_ds");
    chk!(d.lf_level == m.lf_level, "lf_level {} != {}", d.lf_level, m.lf_level);
    chk!(d.have_crop == m.have_crop, "have_crop");
    chk!(d.x0 == m.x0 && d.y0 == m.y0, "crop origin ({},{}) != ({},{})", d.x0, d.y0, m.x0, m.y0);
    chk!(d.width == m.width && d.height == m.height, "frame size {}x{} != {}x{}", d.width, d.height, m.width, m.height);
    if m.frame_type.is_normal() {
        cmp_blending(&d.blending_info, &m.blending_info, "blending_info")?;
        if m.all_default {
            // representation detail: nothing is coded; an empty list stands for all-default
            chk!(d.ec_blending_info.is_empty() || d.ec_blending_info.len() == m.ec_blending_info.len(), "ec_blending_info len (all_default)");
        } else {
            chk!(d.ec_blending_info.len() == m.ec_blending_info.len(), "ec_blending_info len");
        }
        for (i, (a, b)) in d.ec_blending_info.iter().zip(&m.ec_blending_info).enumerate() {
            cmp_blending(a, b, &format!("ec_blending_info[{i}]"))?;
        }
    }
    chk!(d.duration == m.duration, "duration {} != {}", d.duration, m.duration);
    chk!(d.timecode == m.timecode, "timecode");
    chk!(d.is_last == m.is_last, "is_last {} != {}", d.is_last, m.is_last);
    chk!(d.save_as_reference == m.save_as_reference, "save_as_reference {} != {}", d.save_as_reference, m.save_as_reference);
    if m.frame_type.is_normal() {
        chk!(d.resets_canvas == m.resets_canvas(ih), "resets_canvas {} != {}", d.resets_canvas, m.resets_canvas(ih));
    }
    chk!(d.save_before_ct == m.save_before_ct, "save_before_ct {} != {} (coded={})", d.save_before_ct, m.save_before_ct, m.save_before_ct_coded(ih));
    chk!(d.is_keyframe() == m.is_keyframe(), "is_keyframe");
    chk!(d.can_reference() == m.can_reference(), "can_reference");
    chk!(d.name.as_str() == m.name, "name {:?} != {:?}", d.name.as_str(), m.name);
    // restoration filter
    let rf = &m.restoration_filter;
    match (&d.restoration_filter.gab, rf.gab.enabled) {
        (jxl_frame::filter::Gabor::Disabled, false) => {}
        (jxl_frame::filter::Gabor::Enabled(w), true) => {
            if let Some(c) = &rf.gab.custom {
                for ch in 0..3 {
                    chk!(f32eq(w[ch][0], c[2 * ch]) && f32eq(w[ch][1], c[2 * ch + 1]), "gabor weights ch{ch}");
                }
            } else {
                chk!((w[0][0] - 0.115169525).abs() < 1e-9 && (w[2][1] - 0.061248592).abs() < 1e-9, "default gabor weights");
            }
        }
        _ => return Err("gabor enabled flag".into()),
    }
    match (&d.restoration_filter.epf, rf.epf.iters) {
        (jxl_frame::filter::EdgePreservingFilter::Disabled, 0) => {}
        (jxl_frame::filter::EdgePreservingFilter::Enabled(p), it) if it > 0 => {
            chk!(p.iters == it, "epf iters {} != {it}", p.iters);
            if !m.modular {
                if let Some(l) = &rf.epf.sharp_lut {
                    for i in 0..8 {
                        chk!(f32eq(p.sharp_lut[i], l[i]), "epf sharp_lut[{i}]");
                    }
                }
            }
            if m.modular || rf.epf.sharp_lut.is_none() {
                chk!((p.sharp_lut[7] - 1.0).abs() < 1e-9 && p.sharp_lut[0] == 0.0, "default sharp lut");
            }
            match &rf.epf.channel_scale {
                Some((cs, _)) => {
                    for i in 0..3 {
                        chk!(f32eq(p.channel_scale[i], cs[i]), "epf channel_scale[{i}]");
                    }
                }
                None => chk!(p.channel_scale == [40.0, 5.0, 3.5], "default channel scale"),
            }
            match &rf.epf.sigma {
                Some(s) => {
                    if !m.modular {
                        chk!(f32eq(p.sigma.quant_mul, s[0]), "epf quant_mul");
                    } else {
                        chk!(p.sigma.quant_mul == 0.46, "epf quant_mul default for modular");
                    }
                    chk!(f32eq(p.sigma.pass0_sigma_scale, s[1]), "epf pass0");
                    chk!(f32eq(p.sigma.pass2_sigma_scale, s[2]), "epf pass2");
                    chk!(f32eq(p.sigma.border_sad_mul, s[3]), "epf border_sad_mul");
                }
                None => chk!(p.sigma.quant_mul == 0.46 && p.sigma.pass0_sigma_scale == 0.9 && p.sigma.pass2_sigma_scale == 6.5, "default epf sigma"),
            }
            if m.modular {
                chk!(f32eq(p.sigma_for_modular, rf.epf.sigma_for_modular), "sigma_for_modular");
            } else {
                chk!(p.sigma_for_modular == 1.0, "sigma_for_modular default");
            }
        }
        (a, b) => return Err(format!("epf {a:?} vs iters {b}")),
    }
    // derived geometry
    chk!(d.group_dim() == m.group_dim(), "group_dim");
    let (cw, chh) = m.color_sample_size();
    chk!(d.color_sample_width() == cw && d.color_sample_height() == chh, "color sample size");
    chk!(d.num_groups() == m.num_groups(), "num_groups {} != {}", d.num_groups(), m.num_groups());
    chk!(d.num_lf_groups() == m.num_lf_groups(), "num_lf_groups");
    cmp_bit_depth(&d.bit_depth, &ih.metadata.bit_depth, "frame bit depth")?;
    Ok(())
}

fn branch_bits_image(m: &h::ImageHeader) -> u64 {
    let md = &m.metadata;
    let mut b = 0u64;
    let mut set = |i: u32, c: bool| {
        if c {
            b |= 1 << i
        }
    };
    set(0, m.size.div8);
    set(1, m.size.ratio != 0);
    set(2, md.all_default);
    set(3, md.extra_fields);
    set(4, md.orientation != 1);
    set(5, md.intrinsic_size.is_some());
    set(6, md.preview.is_some());
    set(7, md.preview.as_ref().map_or(false, |p| p.div8));
    set(8, md.preview.as_ref().map_or(false, |p| p.ratio != 0));
    set(9, md.animation.is_some());
    set(10, md.animation.as_ref().map_or(false, |a| a.have_timecodes));
    set(11, matches!(md.bit_depth, h::BitDepth::Float { .. }));
    set(12, md.modular_16bit_buffers);
    set(13, !md.ec_info.is_empty());
    set(14, md.ec_info.len() > 17);
    set(15, md.ec_info.iter().any(|e| e.d_alpha));
    set(16, md.ec_info.iter().any(|e| matches!(e.ty, h::EcType::Spot { .. })));
    set(17, md.ec_info.iter().any(|e| matches!(e.ty, h::EcType::Cfa { .. })));
    set(18, md.ec_info.iter().any(|e| e.name.len() >= 48));
    set(19, md.xyb_encoded);
    set(20, md.colour_encoding.all_default);
    set(21, md.colour_encoding.want_icc);
    set(22, matches!(md.colour_encoding.white_point, h::WhitePoint::Custom(_)));
    set(23, matches!(md.colour_encoding.primaries, h::Primaries::Custom(_)));
    set(24, matches!(md.colour_encoding.tf, h::Tf::Gamma(_)));
    set(25, !md.tone_mapping.all_default);
    set(26, md.extensions.bits != 0);
    set(27, md.default_m);
    set(28, md.opsin_inverse.as_ref().map_or(false, |o| !o.all_default));
    set(29, md.cw_mask & 1 != 0);
    set(30, md.cw_mask & 2 != 0);
    set(31, md.cw_mask & 4 != 0);
    set(32, md.colour_encoding.colour_space == 1);
    set(33, md.colour_encoding.colour_space == 2);
    b
}

fn branch_bits_frame(f: &h::FrameHeader, ih: &h::ImageHeader) -> u64 {
    let mut b = 0u64;
    let mut set = |i: u32, c: bool| {
        if c {
            b |= 1 << i
        }
    };
    set(0, f.all_default);
    set(1, f.frame_type == h::FrameType::LfFrame);
    set(2, f.frame_type == h::FrameType::ReferenceOnly);
    set(3, f.frame_type == h::FrameType::SkipProgressive);
    set(4, f.modular);
    set(5, f.flags != 0);
    set(6, f.flags > 272);
    set(7, f.do_ycbcr);
    set(8, f.use_lf_frame());
    set(9, f.upsampling != 1);
    set(10, f.ec_upsampling.iter().any(|&u| u != 1));
    set(11, f.passes.num_passes > 1);
    set(12, !f.passes.downsample.is_empty());
    set(13, f.have_crop);
    set(14, f.x0 < 0 || f.y0 < 0);
    set(15, f.blending_info.mode != h::BlendMode::Replace);
    set(16, f.ec_blending_info.iter().any(|e| e.mode != h::BlendMode::Replace));
    set(17, f.duration != 0);
    set(18, f.is_last);
    set(19, f.save_as_reference != 0);
    set(20, f.save_before_ct_coded(ih));
    set(21, f.save_before_ct);
    set(22, !f.name.is_empty());
    set(23, f.restoration_filter.all_default);
    set(24, f.restoration_filter.gab.enabled);
    set(25, f.restoration_filter.gab.custom.is_some());
    set(26, f.restoration_filter.epf.iters > 0);
    set(27, f.restoration_filter.epf.sharp_lut.is_some());
    set(28, f.restoration_filter.epf.channel_scale.is_some());
    set(29, f.restoration_filter.epf.sigma.is_some());
    set(30, f.extensions.bits != 0);
    set(31, f.resets_canvas(ih));
    set(32, f.toc_entries() > 1);
    set(33, f.blending_info.mode as u32 >= 2);
    b
}

fn toc_kind(f: &h::FrameHeader, i: u32) -> String {
    if f.toc_entries() == 1 {
        return "All".into();
    }
    let l = f.num_lf_groups();
    let g = f.num_groups();
    if i == 0 {
        "LfGlobal".into()
    } else if i < 1 + l {
        format!("LfGroup({})", i - 1)
    } else if i == 1 + l {
        "HfGlobal".into()
    } else {
        let k = i - 2 - l;
        format!("GroupPass {{ pass_idx: {}, group_idx: {} }}", k / g, k % g)
    }
}

fn header_case(case: &mut Case) {
    let rng = &mut case.rng.fork();
    let opts = hgen::HeaderOpts { allow_icc: true, max_extra: 256 };
    let ih = hgen::random_image_header(rng, &opts);
    let random_sel = rng.chance(2, 3);
    let mut bw = if random_sel { BitWriter::with_random_selectors(rng.fork()) } else { BitWriter::new() };
    ih.write(&mut bw);
    let ih_bits = bw.bits_written();
    // the frame follows byte aligned (ICC would sit in between in a real file; not here)
    bw.zero_pad_to_byte();
    let lead_bytes = bw.bits_written() / 8;
    let max_entries = match rng.below(10) {
        0 => 20000,
        1 | 2 => 2000,
        _ => 200,
    };
    if ih.metadata.ec_info.iter().any(|e| e.dim_shift > 6) {
        // no frame can legally follow (cumulative upsampling limit): image header only
        bw.write(64, rng.next_u64());
        bw.write(64, rng.next_u64());
        let bytes = bw.finish();
        case.set_input(&bytes);
        let bi = branch_bits_image(&ih);
        case.sig(format!("i{:x}|noframe", bi & ((1 << 2) | (1 << 3) | (1 << 6) | (1 << 9) | (1 << 13) | (1 << 19) | (1 << 21) | (1 << 27))), true);
        let mut bs = Bitstream::new(&bytes);
        match jxl_image::ImageHeader::parse(&mut bs, ()) {
            Ok(d) => {
                if bs.num_read_bits() != ih_bits {
                    case.violation("image-header-bits", format!("image header consumed {} bits, written {}", bs.num_read_bits(), ih_bits));
                } else if let Err(e) = cmp_image_header(&d, &ih) {
                    case.violation(format!("image-header-field:{}", e.split(|c: char| c == ' ' || c == '[' || c == ':').next().unwrap_or("?")), e);
                }
            }
            Err(e) => case.violation("image-header-parse-err", format!("valid image header rejected: {e}")),
        }
        return;
    }
    let fh = hgen::random_frame_header(rng, &ih, max_entries);
    fh.write(&mut bw, &ih);
    let fh_bits = bw.bits_written();
    // TOC
    let n = fh.toc_entries() as usize;
    let permuted = rng.chance(1, 3);
    let perm: Option<Vec<usize>> = if permuted {
        let mut p: Vec<usize> = (0..n).collect();
        match rng.below(4) {
            0 => {}
            1 => p.reverse(),
            2 => rng.shuffle(&mut p),
            _ => {
                if n >= 2 {
                    let a = rng.below(n as u64) as usize;
                    let b = rng.below(n as u64) as usize;
                    p.swap(a, b);
                }
            }
        }
        Some(p)
    } else {
        None
    };
    let sizes: Vec<u32> = (0..n)
        .map(|_| match rng.below(if n > 500 { 3 } else { 6 }) {
            0 => 0,
            1 => rng.u32range(0, 1023),
            2 => rng.u32range(0, 60),
            3 => rng.u32range(1024, 17407),
            4 => rng.u32range(17408, 4211711),
            _ => rng.u32range(4211712, 4211712 + (1 << 26)),
        })
        .collect();
    h::write_toc(&mut bw, rng, &sizes, perm.as_deref());
    let toc_end_bits = bw.bits_written();
    bw.write(64, rng.next_u64());
    bw.write(64, rng.next_u64());
    let bytes = bw.finish();
    case.set_input(&bytes);

    let bi = branch_bits_image(&ih);
    let bf = branch_bits_frame(&fh, &ih);
    case.obs_set("image_branch_bits_seen_true", format!("{:x}", bi));
    // signature: a fixed subset of the branch bits (full masks are almost always unique)
    const IMASK: u64 = (1 << 2) | (1 << 3) | (1 << 6) | (1 << 9) | (1 << 13) | (1 << 19) | (1 << 21) | (1 << 27);
    const FMASK: u64 = 0b11111 | (1 << 13) | (1 << 15) | (1 << 32);
    case.sig(format!("i{:x}|f{:x}|toc{}{}", bi & IMASK, bf & FMASK, if n == 1 { "1" } else if n < 50 { "s" } else { "L" }, if permuted { "p" } else { "" }), true);
    for i in 0..34 {
        case.obs(&format!("ib{:02}_{}", i, (bi >> i) & 1), 1);
        case.obs(&format!("fb{:02}_{}", i, (bf >> i) & 1), 1);
    }
    case.sample(format!(
        "{{\"size\":\"{}x{}\",\"div8\":{},\"ratio\":{},\"all_default\":{},\"num_extra\":{},\"frame_type\":{},\"modular\":{},\"crop\":{},\"toc_entries\":{},\"permuted\":{},\"random_selectors\":{},\"header_bits\":{},\"frame_header_bits\":{}}}",
        ih.size.width, ih.size.height, ih.size.div8, ih.size.ratio, ih.metadata.all_default, ih.metadata.ec_info.len(),
        fh.frame_type as u32, fh.modular, fh.have_crop, n, permuted, random_sel, ih_bits, fh_bits - lead_bytes * 8
    ));

    // ---- decoder
    let mut bs = Bitstream::new(&bytes);
    let dih = match jxl_image::ImageHeader::parse(&mut bs, ()) {
        Ok(x) => x,
        Err(e) => {
            case.violation("image-header-parse-err", format!("valid image header rejected: {e}; {:?}", ih.size));
            return;
        }
    };
    if bs.num_read_bits() != ih_bits {
        case.violation("image-header-bits", format!("image header consumed {} bits, written {}", bs.num_read_bits(), ih_bits));
        return;
    }
    if let Err(e) = cmp_image_header(&dih, &ih) {
        case.violation(format!("image-header-field:{}", e.split(|c: char| c == ' ' || c == '[' || c == ':').next().unwrap_or("?")), e);
        return;
    }
    let dih = Arc::new(dih);
    let frame = match jxl_frame::Frame::parse(
        &mut bs,
        jxl_frame::FrameContext { image_header: dih.clone(), tracker: None, pool: jxl_threadpool::JxlThreadPool::none() },
    ) {
        Ok(f) => f,
        Err(e) => {
            case.violation("frame-parse-err", format!("valid frame header/TOC rejected: {e}"));
            return;
        }
    };
    if bs.num_read_bits() != toc_end_bits {
        case.violation("frame-toc-bits", format!("frame header + TOC consumed up to bit {}, written {}", bs.num_read_bits(), toc_end_bits));
        return;
    }
    if let Err(e) = cmp_frame_header(frame.header(), &fh, &ih) {
        case.violation(format!("frame-header-field:{}", e.split(|c: char| c == ' ' || c == '[' || c == ':').next().unwrap_or("?")), e);
        return;
    }
    // TOC
    let toc = frame.toc();
    let total: usize = sizes.iter().map(|&s| s as usize).sum();
    if toc.total_byte_size() != total {
        case.violation("toc-total", format!("total_byte_size {} != {}", toc.total_byte_size(), total));
        return;
    }
    if toc.is_single_entry() != (n == 1) {
        case.violation("toc-single", "is_single_entry".to_string());
        return;
    }
    // offsets relative to frame start
    let data_start = toc_end_bits / 8 - lead_bytes;
    let mut off = Vec::with_capacity(n);
    let mut acc = data_start;
    for &s in &sizes {
        off.push(acc);
        acc += s as usize;
    }
    // position k holds logical section inv[k]
    let mut inv = vec![0usize; n];
    match &perm {
        Some(p) => {
            for (i, &k) in p.iter().enumerate() {
                inv[k] = i;
            }
        }
        None => {
            for (i, v) in inv.iter_mut().enumerate() {
                *v = i;
            }
        }
    }
    let groups: Vec<_> = toc.iter_bitstream_order().collect();
    if groups.len() != n {
        case.violation("toc-len", format!("{} entries != {}", groups.len(), n));
        return;
    }
    for (k, g) in groups.iter().enumerate() {
        let want_kind = toc_kind(&fh, inv[k] as u32);
        if format!("{:?}", g.kind) != want_kind || g.offset != off[k] || g.size != sizes[k] {
            case.violation(
                "toc-entry",
                format!("bitstream position {k}: got {:?} off {} size {}, want {} off {} size {}", g.kind, g.offset, g.size, want_kind, off[k], sizes[k]),
            );
            return;
        }
    }
    if toc.bookmark() != data_start {
        case.violation("toc-bookmark", format!("bookmark {} != {}", toc.bookmark(), data_start));
        return;
    }
    // group_index_bitstream_order for a few logical sections
    for _ in 0..8.min(n) {
        let i = rng.below(n as u64) as usize;
        let kind = &groups[match &perm { Some(p) => p[i], None => i }].kind;
        let got = toc.group_index_bitstream_order(*kind);
        let want = match &perm { Some(p) => p[i], None => i };
        if got != want {
            case.violation("toc-index", format!("group_index_bitstream_order({kind:?}) = {got}, want {want}"));
            return;
        }
    }
    case.obs("toc_entries_checked", n as u64);
}

pub fn run(args: &Args) -> i32 {
    let _ = Rng::new(0);
    run_cases(args, 0xC14, header_case)
}
