//! C05, patch part: "patches copied from reference frames follow the same arithmetic".
//!
//! Image = one ReferenceOnly frame (own size, random content) + one regular full-canvas frame with a
//! patch dictionary. The expected picture is the frame's own samples with every patch target applied
//! in dictionary order, per channel, by the patch blend rule (none / replace / add / multiply with
//! optional clamp of the patch sample). Alpha-weighted patch modes are not generated (the coding of
//! their alpha channel index is beyond what can be settled offline); frame-level alpha blending is
//! covered by the main C05 workload.

use crate::common::*;
use crate::dec::*;
use jxlgen::bits::{pack_signed, BitWriter};
use jxlgen::codestream::*;
use jxlgen::entropy::{lits, BuildOpts, EntropyCode, Read};
use jxlgen::headers::*;
use jxlgen::modmodel::Channel;
use jxlgen::modular::*;
use jxlgen::rng::Rng;

#[derive(Clone, Debug)]
struct Target {
    x: u32,
    y: u32,
    /// per channel class (colour, ec0, ec1, ...): (mode 0..3, clamp)
    modes: Vec<(u32, bool)>,
}

#[derive(Clone, Debug)]
struct PatchRef {
    x0: u32,
    y0: u32,
    w: u32,
    h: u32,
    targets: Vec<Target>,
}

fn encode_frame(rng: &mut Rng, ih: &ImageHeader, fh: &FrameHeader, prefix: &BitWriter, out: &mut Vec<u8>) -> Option<Vec<Channel>> {
    let infos = modular_channel_infos(ih, fh);
    let layout = group_layout(fh);
    if layout.num_groups() > 64 {
        return None;
    }
    let bits = ih.metadata.bit_depth.bits();
    let hi = (1i64 << bits) - 1;
    let mopts = ModularOpts {
        bit_depth: bits,
        range_lo: -hi,
        range_hi: 2 * hi,
        sample_lo: 0,
        sample_hi: hi,
        allow_wp: true,
        allow_lz77: true,
        plain_entropy: false,
        local_tree_pct: 10,
        local_transform_pct: 0,
        transforms: None,
        max_transforms: 2,
        force_tree: None,
        palette_special: false,
        force_gens: None,
    };
    let enc = encode_modular(rng, &infos, &layout, &mopts)?;
    let sections = modular_frame_sections(fh, &enc, prefix);
    let permute = rng.chance(1, 5);
    write_frame(out, rng, ih, fh, sections, permute, false);
    Some(enc.channels.clone())
}

pub fn run_case(case: &mut Case, rng: &mut Rng) {
    // ---- image
    let grey = rng.chance(1, 4);
    let bits = *rng.pick(&[8u32, 8, 10, 12, 16]);
    let n_ec = rng.urange(0, 2);
    let ec: Vec<ExtraChannelInfo> = (0..n_ec)
        .map(|_| ExtraChannelInfo::new(if rng.bool() { EcType::Depth } else { EcType::Alpha { associated: rng.bool() } }, BitDepth::Int { bits: *rng.pick(&[8u32, 12, 16]) }, 0, ""))
        .collect();
    let (w, h) = (rng.u32range(1, 160), rng.u32range(1, 160));
    let mut md = ImageMetadata::plain(BitDepth::Int { bits }, grey, ec);
    md.modular_16bit_buffers = false;
    let ih = ImageHeader { size: SizeHeader::new(w, h), metadata: md };
    let mut out = write_codestream_header(&ih, rng, false, None);
    // ---- reference-only frame
    let slot = rng.u32range(0, 3);
    let mut rfh = FrameHeader::modular(&ih);
    rfh.frame_type = FrameType::ReferenceOnly;
    rfh.is_last = false;
    rfh.save_as_reference = slot;
    rfh.save_before_ct = true;
    if rng.chance(3, 4) {
        rfh.have_crop = true;
        rfh.width = rng.u32range(1, 120);
        rfh.height = rng.u32range(1, 120);
    }
    let (rw, rh) = (rfh.width, rfh.height);
    let mut plain_prefix = BitWriter::new();
    plain_prefix.bool(true); // LF dequantisation all_default
    let Some(ref_channels) = encode_frame(rng, &ih, &rfh, &plain_prefix, &mut out) else {
        case.inconclusive("generator gave up");
        return;
    };
    // ---- patch dictionary
    let nclass = n_ec + 1;
    let max_refs = ((w as u64 * h as u64) / 16).min(1 << 24) as u32;
    if max_refs == 0 {
        case.inconclusive("frame too small for a patch dictionary");
        return;
    }
    let nrefs = rng.u32range(1, 4).min(max_refs);
    let mut reads: Vec<Read> = Vec::new();
    let mut push = |ctx: u32, value: u32| reads.push(Read { ctx, value });
    push(0, nrefs);
    let mut dict = Vec::new();
    let mut total = 0u32;
    for i in 0..nrefs {
        let pw = rng.u32range(1, rw.min(w).min(48));
        let ph = rng.u32range(1, rh.min(h).min(48));
        let x0 = rng.u32range(0, rw - pw);
        let y0 = rng.u32range(0, rh - ph);
        let count = rng.u32range(1, 5).min(max_refs * 4 - total - (nrefs - i - 1)).max(1);
        total += count;
        push(1, slot);
        push(3, x0);
        push(3, y0);
        push(2, pw - 1);
        push(2, ph - 1);
        push(7, count - 1);
        let mut prev: Option<(i64, i64)> = None;
        let mut targets = Vec::new();
        for _ in 0..count {
            let x = rng.u32range(0, w - pw);
            let y = rng.u32range(0, h - ph);
            match prev {
                None => {
                    push(4, x);
                    push(4, y);
                }
                Some((px, py)) => {
                    push(6, pack_signed((x as i64 - px) as i32));
                    push(6, pack_signed((y as i64 - py) as i32));
                }
            }
            prev = Some((x as i64, y as i64));
            let mut modes = Vec::new();
            for _ in 0..nclass {
                let mode = rng.u32range(0, 3);
                push(5, mode);
                let mut clamp = false;
                if mode >= 3 {
                    clamp = rng.bool();
                    push(9, clamp as u32);
                }
                modes.push((mode, clamp));
            }
            targets.push(Target { x, y, modes });
        }
        dict.push(PatchRef { x0, y0, w: pw, h: ph, targets });
    }
    // ---- the frame carrying the patches
    let mut fh = FrameHeader::modular(&ih);
    fh.flags |= FLAG_PATCHES;
    let mut prefix = BitWriter::new();
    {
        let items = lits(&reads);
        let code = EntropyCode::build(rng, 10, &items, &BuildOpts::default());
        code.write_header(&mut prefix, rng);
        code.write_items(&mut prefix, &items);
    }
    prefix.bool(true); // LF dequantisation all_default
    let Some(frame_channels) = encode_frame(rng, &ih, &fh, &prefix, &mut out) else {
        case.inconclusive("generator gave up");
        return;
    };
    case.set_input(&out);
    // ---- expected picture (f64)
    let ncol = if grey { 1 } else { 3 };
    let scale = |c: usize| -> f64 {
        let b = if c < ncol { bits } else { ih.metadata.ec_info[c - ncol].bit_depth.bits() };
        ((1u64 << b) - 1) as f64
    };
    let to_f = |chs: &Vec<Channel>| -> Vec<Vec<f64>> { chs.iter().enumerate().map(|(c, ch)| ch.data.iter().map(|&v| v as f64 / scale(c)).collect()).collect() };
    let refp = to_f(&ref_channels);
    let mut canvas = to_f(&frame_channels);
    // error bound of the decoder's f32 evaluation, propagated through every operation (sums of large
    // out-of-range samples cancel): EPS per rounding, relative to the magnitude of the result
    const EPS: f64 = 1.5e-7;
    let mut errs: Vec<Vec<f64>> = canvas.iter().map(|c| c.iter().map(|v| EPS * v.abs()).collect()).collect();
    let mut touched = 0u64;
    let selftest = std::env::var("C05P_SELFTEST").is_ok();
    let mut modes_used = std::collections::BTreeSet::new();
    for p in &dict {
        for t in &p.targets {
            for c in 0..ncol + n_ec {
                let (mode, clamp) = t.modes[if c < ncol { 0 } else { 1 + c - ncol }];
                modes_used.insert(format!("{}{}", ["none", "replace", "add", "mul"][mode as usize], if clamp { "-clamp" } else { "" }));
                if mode == 0 {
                    continue;
                }
                for dy in 0..p.h {
                    for dx in 0..p.w {
                        let s = refp[c][((p.y0 + dy) * rw + p.x0 + dx) as usize];
                        let es = EPS * s.abs();
                        let di = ((t.y + dy) * w + t.x + dx) as usize;
                        let d = &mut canvas[c][di];
                        let e = &mut errs[c][di];
                        match mode {
                            1 => {
                                *d = s;
                                *e = es;
                            }
                            2 => {
                                *d += s;
                                *e = *e + es + EPS * d.abs();
                            }
                            _ => {
                                // (C05P_SELFTEST inverts the clamp rule in the model: the monitor must then fire)
                                let m = if clamp != selftest { s.clamp(0.0, 1.0) } else { s };
                                *e = *e * m.abs() + d.abs() * es + EPS * (*d * m).abs();
                                *d *= m;
                            }
                        }
                        touched += 1;
                    }
                }
            }
        }
    }
    case.obs("patch_samples_applied", touched);
    case.obs("patch_targets", dict.iter().map(|p| p.targets.len() as u64).sum());
    case.sig(
        format!("patches|{}|ec{}|ref{}|{}", if grey { "grey" } else { "rgb" }, n_ec, if rfh.have_crop { "own-size" } else { "canvas-size" }, modes_used.iter().cloned().collect::<Vec<_>>().join(",")),
        touched > 0,
    );
    let desc = format!("{w}x{h} {} bits={bits} ec={n_ec} ref={rw}x{rh} slot={slot} dict={:?}", if grey { "grey" } else { "rgb" }, dict);
    // ---- decoder
    let pool = if rng.chance(1, 4) { Pool::Rayon(3) } else { Pool::None };
    let image = match open_image(&out, pool, false) {
        Ok(i) => i,
        Err(e) => {
            case.violation("open-err", format!("valid image with patches rejected: {e} [{desc}]"));
            return;
        }
    };
    let got = match crate::c05::float_planes(&image, 0) {
        Ok(p) => p,
        Err(e) => {
            case.violation("render-err", format!("{e} [{desc}]"));
            return;
        }
    };
    if got.len() != ncol + n_ec {
        case.violation("plane-count", format!("{} planes, expected {} [{desc}]", got.len(), ncol + n_ec));
        return;
    }
    for (c, (gw, gh, data)) in got.iter().enumerate() {
        if (*gw, *gh) != (w as usize, h as usize) {
            case.violation("plane-size", format!("plane {c} is {gw}x{gh}, expected {w}x{h} [{desc}]"));
            return;
        }
        for (i, (&g, &e)) in data.iter().zip(&canvas[c]).enumerate() {
            let tol = 2.0 * errs[c][i] + 2e-7 * e.abs().max(1.0);
            if (g as f64 - e).abs() > tol {
                if std::env::var("C05P_DEBUG").is_ok() {
                    let (px, py) = ((i % w as usize) as u32, (i / w as usize) as u32);
                    eprintln!("base int {} scale {}", frame_channels[c].data[i], scale(c));
                    for p in &dict {
                        for t in &p.targets {
                            if px >= t.x && px < t.x + p.w && py >= t.y && py < t.y + p.h {
                                let (mode, clamp) = t.modes[if c < ncol { 0 } else { 1 + c - ncol }];
                                let si = ref_channels[c].data[((p.y0 + py - t.y) * rw + p.x0 + px - t.x) as usize];
                                eprintln!("  mode {mode} clamp {clamp} src int {si}");
                            }
                        }
                    }
                }
                case.violation(
                    "patch-mismatch",
                    format!("channel {c} at ({},{}): got {g} want {e} [{desc}]", i % w as usize, i / w as usize),
                );
                return;
            }
        }
        case.obs("samples_compared", data.len() as u64);
    }
    case.obs("keyframes_compared", 1);
}
