//! C08: a failed render never wedges or corrupts the image.
//!
//! Fault enumeration over the tracked allocation points of decode + render (hook H1), wedge
//! detection through the render-handle protocol monitor (hook H2).

use crate::common::*;
use crate::monitor::Monitor;
use jxl_grid::AllocTracker;
use jxl_oxide::{CropInfo, JxlImage, JxlThreadPool};
use std::sync::{Arc, Mutex};

const BIG: usize = 1 << 40;

fn planes_bits(image: &JxlImage, k: usize) -> Result<Vec<Vec<u32>>, String> {
    let r = image.render_frame(k).map_err(|e| format!("{e}"))?;
    Ok(r.image_planar().iter().map(|fb| fb.buf().iter().map(|v| v.to_bits()).collect()).collect())
}

#[derive(Default, Debug, Clone)]
struct ScenarioLog {
    calls: Vec<String>,
    violation: Option<(String, String)>,
    finished: bool,
    read_failed: bool,
    renders_failed: u32,
    renders_ok_after_fault: u32,
    renders_ok_after_lift: u32,
    renders_err_after_lift: u32,
    quiescent_checks: u32,
}

fn scenario(bytes: Arc<Vec<u8>>, reference: Arc<Vec<Vec<Vec<u32>>>>, k: usize, script_seed: u64, mon: Monitor, log: Arc<Mutex<ScenarioLog>>) {
    let mut rng = jxlgen::rng::Rng::new(script_seed);
    let tracker = AllocTracker::with_limit(BIG);
    tracker.verif_set_fail_from(k);
    let note = |s: String| log.lock().unwrap().calls.push(s);
    let fail = |sig: &str, d: String| {
        let mut l = log.lock().unwrap();
        if l.violation.is_none() {
            l.violation = Some((sig.to_string(), d));
        }
    };
    // Quiescent-point invariant (hook H5): the pool is JxlThreadPool::none(), so when a public call has
    // returned nobody is rendering; a handle still in state Rendering can never be completed and the
    // next caller that needs it waits forever.
    let quiescent = |image: &JxlImage, after: &str| {
        let stuck: Vec<usize> = image.verif_render_states().into_iter().filter(|(_, t)| *t == "Rendering").map(|(i, _)| i).collect();
        if !stuck.is_empty() {
            fail("wedge:handle-left-rendering", format!("after {after}: frame handles {stuck:?} are in state Rendering although no call is in progress"));
        }
        log.lock().unwrap().quiescent_checks += 1;
    };
    let image = JxlImage::builder().pool(JxlThreadPool::none()).alloc_tracker(tracker.clone()).read(std::io::Cursor::new(&bytes[..]));
    mon.api_return();
    let mut image = match image {
        Ok(i) => i,
        Err(e) => {
            note(format!("read -> Err({e})"));
            let mut l = log.lock().unwrap();
            l.read_failed = true;
            l.finished = true;
            return;
        }
    };
    note("read -> Ok".into());
    let nk = image.num_loaded_keyframes();
    if nk != reference.len() {
        fail("keyframes", format!("{} keyframes loaded under fault, {} without", nk, reference.len()));
    }
    let check_ok = |what: &str, kf: usize, got: &Vec<Vec<u32>>, full: bool| {
        if full && kf < reference.len() && *got != reference[kf] {
            fail("corrupt-after-failure", format!("{what}: keyframe {kf} rendered Ok but differs from the never-failed render"));
        }
    };
    // script A: render every keyframe under the fault
    for kf in 0..nk {
        let r = planes_bits(&image, kf);
        mon.api_return();
        quiescent(&image, "A render");
        match &r {
            Ok(b) => {
                note(format!("A render({kf}) -> Ok"));
                log.lock().unwrap().renders_ok_after_fault += 1;
                check_ok("under fault", kf, b, true);
            }
            Err(e) => {
                note(format!("A render({kf}) -> Err({e})"));
                log.lock().unwrap().renders_failed += 1;
            }
        }
    }
    // script B: more calls while still failing
    let mut full_region = true;
    for _ in 0..rng.urange(1, 3) {
        match rng.below(4) {
            0 | 1 => {
                let kf = rng.below(nk.max(1) as u64) as usize;
                let r = planes_bits(&image, kf);
                mon.api_return();
                quiescent(&image, "B render");
                match &r {
                    Ok(b) => {
                        note(format!("B render({kf}) -> Ok"));
                        check_ok("under fault (repeat)", kf, b, full_region);
                    }
                    Err(e) => note(format!("B render({kf}) -> Err({e})")),
                }
            }
            2 => {
                let (w, h) = (image.width(), image.height());
                let region = if rng.bool() {
                    full_region = true;
                    CropInfo { left: 0, top: 0, width: w, height: h }
                } else {
                    full_region = false;
                    let l = rng.below(w as u64) as u32;
                    let t = rng.below(h as u64) as u32;
                    CropInfo { left: l, top: t, width: rng.u32range(1, w - l), height: rng.u32range(1, h - t) }
                };
                image.set_image_region(region);
                mon.api_return();
                note(format!("B set_image_region({region:?})"));
            }
            _ => {
                let r = image.render_loading_frame().map(|_| ());
                mon.api_return();
                quiescent(&image, "B render_loading_frame");
                note(format!("B render_loading_frame -> {}", if r.is_ok() { "Ok" } else { "Err" }));
            }
        }
    }
    // lift the fault
    tracker.verif_set_fail_from(usize::MAX);
    note("fault lifted".into());
    // script C
    let variant = rng.below(3);
    if variant == 1 || !full_region {
        let (w, h) = (image.width(), image.height());
        image.set_image_region(CropInfo { left: 0, top: 0, width: w, height: h });
        mon.api_return();
        note("C set_image_region(full)".into());
    }
    for round in 0..2 {
        for kf in 0..nk {
            let r = planes_bits(&image, kf);
            mon.api_return();
            quiescent(&image, "C render");
            match &r {
                Ok(b) => {
                    note(format!("C{round} render({kf}) -> Ok"));
                    log.lock().unwrap().renders_ok_after_lift += 1;
                    check_ok("after the fault was lifted", kf, b, true);
                }
                Err(e) => {
                    note(format!("C{round} render({kf}) -> Err({e})"));
                    log.lock().unwrap().renders_err_after_lift += 1;
                }
            }
        }
        if round == 0 && variant == 2 {
            let (w, h) = (image.width(), image.height());
            image.set_image_region(CropInfo { left: 0, top: 0, width: w, height: h });
            mon.api_return();
            note("C set_image_region(full) between rounds".into());
        }
    }
    drop(image);
    if tracker.verif_outstanding() != 0 {
        fail("leak-after-drop", format!("{} tracked bytes outstanding after dropping the image", tracker.verif_outstanding()));
    }
    log.lock().unwrap().finished = true;
}

pub fn run(args: &Args) -> i32 {
    let thorough = args.thorough();
    run_cases(args, 0xC08, |case| {
        let mut rng = case.rng.fork();
        // image: multi-frame with references/blending (2/3) or single frame
        let (bytes, desc, class) = if rng.chance(2, 3) {
            let opts = jxlgen::anim::AnimOpts { max_frames: 5, max_dim: 24, ..Default::default() };
            let mut got = None;
            for _ in 0..20 {
                if let Some(a) = jxlgen::anim::gen_animation(&mut rng, &opts) {
                    got = Some(a);
                    break;
                }
            }
            let Some(a) = got else {
                case.inconclusive("generator gave up");
                return;
            };
            let refs = a.frames.iter().filter(|f| f.fh.frame_type == jxlgen::headers::FrameType::ReferenceOnly).count();
            let blends = a.frames.iter().filter(|f| f.fh.frame_type.is_normal() && !f.fh.resets_canvas(&a.ih)).count();
            (a.bytes.clone(), a.desc.clone(), format!("anim:f{}r{}b{}", a.frames.len().min(4), refs.min(2), blends.min(3)))
        } else {
            let opts = jxlgen::imggen::ImgOpts { size_class: 1, max_dim: 40, max_extra: 2, ..Default::default() };
            let mut got = None;
            for _ in 0..20 {
                if let Some(i) = jxlgen::imggen::gen_modular_image(&mut rng, &opts) {
                    got = Some(i);
                    break;
                }
            }
            let Some(i) = got else {
                case.inconclusive("generator gave up");
                return;
            };
            (i.bytes.clone(), format!("{} | {}", i.desc, i.enc_desc), "single".to_string())
        };
        case.set_input(&bytes);
        // ---- reference run, counts allocation points
        let tracker = AllocTracker::with_limit(BIG);
        let image = match JxlImage::builder().pool(JxlThreadPool::none()).alloc_tracker(tracker.clone()).read(std::io::Cursor::new(&bytes[..])) {
            Ok(i) => i,
            Err(e) => {
                case.violation("open-err", format!("{e} [{desc}]"));
                return;
            }
        };
        let n_read = tracker.verif_alloc_count();
        let mut reference = Vec::new();
        for kf in 0..image.num_loaded_keyframes() {
            match planes_bits(&image, kf) {
                Ok(b) => reference.push(b),
                Err(e) => {
                    case.violation("reference-render-err", format!("{e} [{desc}]"));
                    return;
                }
            }
        }
        let n_total = tracker.verif_alloc_count();
        drop(image);
        let reference = Arc::new(reference);
        let bytes = Arc::new(bytes);
        // ---- fault points
        let cap = if thorough { 400 } else { 60 };
        let points: Vec<usize> = if n_total <= cap {
            (0..n_total).collect()
        } else {
            let mut p: Vec<usize> = (0..cap).map(|i| i * n_total / cap).collect();
            p.dedup();
            p
        };
        let exhaustive = points.len() == n_total;
        case.sig(format!("{class}|n{}", if n_total < 20 { "<20" } else if n_total < 60 { "<60" } else if n_total < 200 { "<200" } else { ">=200" }), n_total >= 4);
        case.sample(format!("{{\"image\":{},\"alloc_points\":{},\"alloc_points_in_read\":{},\"fault_points_run\":{},\"all_points\":{}}}", json_str(&desc), n_total, n_read, points.len(), exhaustive));
        case.obs("alloc_points_total", n_total as u64);
        case.obs("fault_points_run", points.len() as u64);
        if exhaustive {
            case.obs("images_all_points_enumerated", 1);
        }
        let mut events_total = 0u64;
        let mut waits_total = 0u64;
        for &k in &points {
            let mon = Monitor::install();
            let log = Arc::new(Mutex::new(ScenarioLog::default()));
            let (b, r, m, l) = (bytes.clone(), reference.clone(), mon.clone(), log.clone());
            let seed = rng.next_u64();
            let h = std::thread::spawn(move || {
                let res = std::panic::catch_unwind(std::panic::AssertUnwindSafe(|| scenario(b, r, k, seed, m, l.clone())));
                if res.is_err() {
                    let mut g = l.lock().unwrap();
                    g.finished = true;
                    if g.violation.is_none() {
                        let p = take_panic().unwrap_or(("?".into(), "?".into()));
                        g.violation = Some((format!("panic@{}", p.0.trim_start_matches("/repo/")), format!("panic at {}: {}", p.0, p.1)));
                    }
                }
            });
            let outcome = mon.wait_outcome(&|| log.lock().unwrap().finished, 60.0);
            let l = log.lock().unwrap().clone();
            match outcome {
                "done" => {
                    let _ = h.join();
                }
                "deadlock" => {
                    // the scenario thread is blocked for good: leak it
                    let d = mon.deadlock().unwrap_or_default();
                    let (_, _, _, _, trace) = mon.snapshot();
                    case.violation(
                        "wedge:caller-waits-on-abandoned-render",
                        format!("fail_from={k}: {d}; calls so far: {:?}; protocol trace tail: {:?} [{desc}]", l.calls, &trace[trace.len().saturating_sub(12)..]),
                    );
                    case.obs("wedges", 1);
                    Monitor::uninstall();
                    return;
                }
                _ => {
                    case.inconclusive("wall-clock watchdog fired");
                    Monitor::uninstall();
                    return;
                }
            }
            if let Some((sig, d)) = l.violation {
                case.violation(sig, format!("fail_from={k}: {d}; calls: {:?} [{desc}]", l.calls));
                Monitor::uninstall();
                return;
            }
            // frames left in Rendering by a returned call = latent wedge even if nobody waited yet
            let orphans = mon.orphaned_frames();
            if !orphans.is_empty() {
                case.violation(
                    "wedge:render-state-abandoned",
                    format!("fail_from={k}: frames {orphans:?} left in state Rendering after the failing call returned; calls: {:?} [{desc}]", l.calls),
                );
                Monitor::uninstall();
                return;
            }
            case.obs("scenarios", 1);
            case.obs("scenario_read_failed", l.read_failed as u64);
            case.obs("renders_failed_under_fault", l.renders_failed as u64);
            case.obs("renders_ok_after_lift", l.renders_ok_after_lift as u64);
            case.obs("renders_err_after_lift", l.renders_err_after_lift as u64);
            case.obs("quiescent_state_checks", l.quiescent_checks as u64);
            let (events, waits, _, _, _) = mon.snapshot();
            events_total += events;
            waits_total += waits;
        }
        case.obs("protocol_events", events_total);
        case.obs("cond_waits", waits_total);
        Monitor::uninstall();
    })
}
