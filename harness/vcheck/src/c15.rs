//! C15: output buffers agree with each other and honour orientation.
//!
//! Workload: single-frame lossless Modular images with exactly known samples (jxlgen), either from
//! `imggen::gen_modular_image` or from the builder below (which adds Black / SpotColour / Cfa /
//! NonOptional extra channels, an ICC-declared CMYK colour space and frames that do not cover the
//! canvas). Every extra channel is at full resolution, so the unoriented truth of every channel is
//! known per pixel.
//!
//! Oracle (all written here, nothing taken from the decoder):
//!  * orientation: the EXIF table "where is the 0th row / 0th column shown" (`EXIF`), applied as a
//!    forward scatter source -> display. Neither of the decoder's two coordinate maps is used.
//!  * region: `set_image_region` takes a rectangle in ORIENTED image coordinates (the decoder maps
//!    it back with `Region::apply_orientation(inverse)`); output sample (x, y) of a region
//!    (left, top, w, h) is the oriented picture's pixel (left + x, top + y). Pixels of the region
//!    that lie outside the image read as 0 in every output (assumption, stated in props); when the
//!    frame itself has samples beyond the canvas the decoder shows those instead, which nothing
//!    specifies: such pixels are only checked for agreement between the buffers.
//!  * float of an integer sample v of depth d: v / (2^d - 1) correctly rounded to f32 (the decoder
//!    divides two exactly representable f32 numbers, IEEE division is correctly rounded, and
//!    rounding the f64 quotient to f32 is the same value because 53 >= 2*24+2). Exact equality is
//!    required when d <= 24 and |v| <= 2^24; otherwise (operands not representable) 2.5e-7 relative.
//!  * float samples: 32-bit = the bit pattern; narrower custom floats = IEEE-style value including
//!    zero / subnormals (exponent field 0); exponent field all-ones is not judged. Mismatches of the
//!    exponent-field-0 class are reported under their own signature `subfloat-exp0` (one root cause
//!    in `BitDepth::parse_integer_sample`) and do not stop the remaining checks of the case;
//!    `--subfloat skip` leaves that class unjudged.
//!  * integer streams: clamp(floor(f * max + 0.5)); pass-through of the integer at depth 16 (u16)
//!    and depth 8 (u8). The decoder evaluates f*max+0.5 in f32: two roundings of at most half an
//!    ulp of a value < 65536 (2^-9 each) plus the 2^-24 relative error of f itself (65535*2^-24)
//!    give < 0.008 absolute for u16 and < 5e-5 for u8; values whose fractional part is within
//!    EPS16 = 0.01 (0.03 for the inexact float class) / EPS8 = 1e-3 of the rounding boundary
//!    accept either neighbour.
//!  * channel order of the streams: colour, then the first Black channel iff the colour space is
//!    ICC-declared CMYK, then the first Alpha channel (`stream_no_alpha`: without it).
//!  * spot colours (RGB only, `render_spot_color`): each colour sample of the streams is
//!    s <- colour_c * mix + s * (1 - mix), mix = spot sample * solidity, in extra-channel order;
//!    evaluated in f64 with an error bound of 8e-7 x (sum of magnitudes) per step (5 f32 roundings).

use crate::common::*;
use crate::dec::*;
use jxl_oxide::{CropInfo, FrameBuffer, ImageStream, JxlImage, PixelFormat, Render};
use jxlgen::bits::BitWriter;
use jxlgen::codestream::*;
use jxlgen::headers::*;
use jxlgen::imggen::*;
use jxlgen::modular::*;
use jxlgen::rng::Rng;

// ---------------------------------------------------------------------------------------------
// orientation model (EXIF definition)

#[derive(Clone, Copy, PartialEq, Eq, Debug)]
enum Side {
    Top,
    Bottom,
    Left,
    Right,
}

/// EXIF / TIFF Orientation tag: (visual side on which the 0th row is shown, visual side on which
/// the 0th column is shown) for values 1..8.
const EXIF: [(Side, Side); 8] = [
    (Side::Top, Side::Left),     // 1 identity
    (Side::Top, Side::Right),    // 2 mirrored horizontally
    (Side::Bottom, Side::Right), // 3 rotated 180
    (Side::Bottom, Side::Left),  // 4 mirrored vertically
    (Side::Left, Side::Top),     // 5 transposed
    (Side::Right, Side::Top),    // 6 rotate 90 CW to display
    (Side::Right, Side::Bottom), // 7 transverse
    (Side::Left, Side::Bottom),  // 8 rotate 270 CW to display
];

/// Where the stored pixel (column sx, row sy) of a w x h image is displayed.
fn exif_place(o: u32, w: usize, h: usize, sx: usize, sy: usize) -> (usize, usize) {
    let (row0, col0) = EXIF[((o.clamp(1, 8)) - 1) as usize];
    let (mut dx, mut dy) = (0usize, 0usize);
    // the row index runs away from the side where row 0 is shown
    match row0 {
        Side::Top => dy = sy,
        Side::Bottom => dy = h - 1 - sy,
        Side::Left => dx = sy,
        Side::Right => dx = h - 1 - sy,
    }
    match col0 {
        Side::Left => dx = sx,
        Side::Right => dx = w - 1 - sx,
        Side::Top => dy = sx,
        Side::Bottom => dy = w - 1 - sx,
    }
    (dx, dy)
}

fn oriented_dims(o: u32, w: usize, h: usize) -> (usize, usize) {
    let (row0, _) = EXIF[((o.clamp(1, 8)) - 1) as usize];
    match row0 {
        Side::Top | Side::Bottom => (w, h),
        _ => (h, w),
    }
}

// ---------------------------------------------------------------------------------------------
// sample value model

#[derive(Clone, Copy, Debug)]
enum Exp {
    /// exactly this f32 (compared by bits; NaN matches NaN)
    Exact(f32),
    /// real value and absolute tolerance
    Approx(f64, f64),
    /// custom float narrower than 32 bits with exponent field 0 (zero / subnormal), IEEE value
    Exp0(f32),
    /// not judged by value (only agreement between buffers)
    Any,
}

impl Exp {
    fn value(&self) -> Option<f64> {
        match *self {
            Exp::Exact(f) | Exp::Exp0(f) => Some(f as f64),
            Exp::Approx(v, _) => Some(v),
            Exp::Any => None,
        }
    }
    fn tol(&self) -> f64 {
        match *self {
            Exp::Approx(_, t) => t,
            _ => 0.0,
        }
    }
}

/// `--subfloat skip` turns the zero / subnormal class of narrow custom floats into "not judged".
static SUBFLOAT_SKIP: std::sync::atomic::AtomicBool = std::sync::atomic::AtomicBool::new(false);

fn subfloat(e: Exp) -> Exp {
    if SUBFLOAT_SKIP.load(std::sync::atomic::Ordering::Relaxed) {
        Exp::Any
    } else {
        e
    }
}

fn narrow_float(d: BitDepth) -> bool {
    matches!(d, BitDepth::Float { bits, .. } if bits < 32)
}

fn exp_float(depth: BitDepth, v: i32) -> Exp {
    match depth {
        BitDepth::Int { bits } => {
            let div = ((1u64 << bits.min(32)) - 1).max(1) as f64;
            let q = v as f64 / div;
            if bits <= 24 && v.unsigned_abs() <= (1 << 24) {
                Exp::Exact(q as f32)
            } else {
                Exp::Approx(q, q.abs() * 2.5e-7)
            }
        }
        BitDepth::Float { bits: 32, exp_bits: 8 } => Exp::Exact(f32::from_bits(v as u32)),
        BitDepth::Float { bits, exp_bits } => {
            if bits >= 32 || exp_bits + 1 >= bits || v < 0 || (v as i64) >= (1i64 << bits) {
                return Exp::Any;
            }
            let mb = bits - exp_bits - 1;
            let u = v as u32;
            let sign = if (u >> (bits - 1)) & 1 == 1 { -1.0f64 } else { 1.0 };
            let e = ((u >> mb) & ((1 << exp_bits) - 1)) as i32;
            let m = (u & ((1 << mb) - 1)) as f64;
            let bias = (1i32 << (exp_bits - 1)) - 1;
            if e == (1 << exp_bits) - 1 {
                return Exp::Any; // inf / NaN codes: reading not fixed by this check
            }
            if e == 0 {
                let val = sign * m * 2f64.powi(1 - bias - mb as i32);
                subfloat(Exp::Exp0(val as f32))
            } else {
                let val = sign * (1.0 + m / (1u64 << mb) as f64) * 2f64.powi(e - bias);
                Exp::Exact(val as f32)
            }
        }
    }
}

/// IEEE binary16 -> f32 (spot colour parameters are F16 fields of the image header).
fn f16_to_f32(b: u16) -> f32 {
    let sign = if b >> 15 == 1 { -1.0f64 } else { 1.0 };
    let e = ((b >> 10) & 31) as i32;
    let m = (b & 1023) as f64;
    let v = if e == 0 { m * 2f64.powi(-24) } else { (1.0 + m / 1024.0) * 2f64.powi(e - 15) };
    (sign * v) as f32
}

#[derive(Clone, Copy, Debug, PartialEq, Eq)]
enum Verdict {
    Ok,
    Bad,
    /// mismatch on a zero / subnormal sample of a narrow custom float
    Exp0Bad,
}

fn same_f32(a: f32, b: f32) -> bool {
    a.to_bits() == b.to_bits() || (a.is_nan() && b.is_nan())
}

fn judge_f32(e: &Exp, got: f32) -> Verdict {
    match *e {
        Exp::Exact(f) => {
            if same_f32(f, got) {
                Verdict::Ok
            } else {
                Verdict::Bad
            }
        }
        Exp::Exp0(f) => {
            if same_f32(f, got) {
                Verdict::Ok
            } else {
                Verdict::Exp0Bad
            }
        }
        Exp::Approx(v, t) => {
            if (got as f64 - v).abs() <= t || (v.is_nan() && got.is_nan()) {
                Verdict::Ok
            } else {
                Verdict::Bad
            }
        }
        Exp::Any => Verdict::Ok,
    }
}

/// Interval of acceptable integer outputs for the real value `f` (+- `ftol`), maximum `maxv`.
fn int_interval(f: f64, ftol: f64, maxv: f64, eps: f64) -> Option<(i64, i64)> {
    if f.is_nan() {
        return None;
    }
    let lo = ((f - ftol) * maxv + 0.5 - eps).floor().clamp(0.0, maxv);
    let hi = ((f + ftol) * maxv + 0.5 + eps).floor().clamp(0.0, maxv);
    Some((lo as i64, hi as i64))
}

/// Which integer type a stream writes.
#[derive(Clone, Copy, Debug, PartialEq, Eq)]
enum Kind {
    F32,
    U16,
    U8,
}

impl Kind {
    fn name(&self) -> &'static str {
        match self {
            Kind::F32 => "f32",
            Kind::U16 => "u16",
            Kind::U8 => "u8",
        }
    }
    fn maxv(&self) -> f64 {
        match self {
            Kind::U16 => 65535.0,
            _ => 255.0,
        }
    }
}

fn judge_int(depth: BitDepth, v: i32, kind: Kind, got: i64) -> Verdict {
    // exact pass-through
    match (depth, kind) {
        (BitDepth::Int { bits: 16 }, Kind::U16) => {
            return if got == (v as i64).clamp(0, 65535) { Verdict::Ok } else { Verdict::Bad };
        }
        (BitDepth::Int { bits: 8 }, Kind::U8) => {
            return if got == (v as i64).clamp(0, 255) { Verdict::Ok } else { Verdict::Bad };
        }
        _ => {}
    }
    let e = exp_float(depth, v);
    let Some(f) = e.value() else { return Verdict::Ok };
    let inexact = matches!(e, Exp::Approx(..));
    let eps = match kind {
        Kind::U16 => {
            if inexact {
                0.03
            } else {
                0.01
            }
        }
        _ => 1e-3,
    };
    match int_interval(f, 0.0, kind.maxv(), eps) {
        None => Verdict::Ok,
        Some((lo, hi)) => {
            if got >= lo && got <= hi {
                Verdict::Ok
            } else if matches!(e, Exp::Exp0(_)) {
                Verdict::Exp0Bad
            } else {
                Verdict::Bad
            }
        }
    }
}

// ---------------------------------------------------------------------------------------------
// image under test

pub struct Img {
    pub m: ModularImage,
    /// the colour space is declared CMYK by the embedded ICC profile
    pub cmyk: bool,
    /// frame rectangle on the canvas
    pub frame_rect: (i32, i32, u32, u32),
    pub builder: &'static str,
}

fn depth_for_c15(rng: &mut Rng) -> BitDepth {
    match rng.below(100) {
        0..=24 => BitDepth::Int { bits: 8 },
        25..=39 => BitDepth::Int { bits: 16 },
        40..=54 => BitDepth::Int { bits: rng.u32range(1, 7) },
        55..=69 => BitDepth::Int { bits: rng.u32range(9, 15) },
        70..=75 => BitDepth::Int { bits: 24 },
        76..=80 => BitDepth::Int { bits: rng.u32range(17, 23) },
        81..=83 => BitDepth::Int { bits: rng.u32range(25, 31) },
        84..=91 => BitDepth::Float { bits: 32, exp_bits: 8 },
        92..=95 => BitDepth::Float { bits: 16, exp_bits: 5 },
        _ => BitDepth::Float { bits: 24, exp_bits: 7 },
    }
}

fn random_f16_unit(rng: &mut Rng) -> u16 {
    match rng.below(6) {
        0 => 0x0000,                                               // 0
        1 => 0x3c00,                                               // 1
        2 => 0x3800,                                               // 0.5
        _ => ((rng.u32range(8, 14) << 10) | rng.below(1024) as u32) as u16, // [2^-7, 1)
    }
}

fn cmyk_profile(rng: &mut Rng) -> Vec<u8> {
    // 128-byte header + tag table; only the fields a reader needs to classify the colour space
    let with_tag = rng.bool();
    let mut p = vec![0u8; 132];
    p[4..8].copy_from_slice(b"jxl ");
    p[8] = 4;
    p[9] = 0x40;
    p[12..16].copy_from_slice(b"prtr");
    p[16..20].copy_from_slice(b"CMYK");
    p[20..24].copy_from_slice(b"Lab ");
    p[36..40].copy_from_slice(b"acsp");
    p[67] = rng.below(4) as u8; // rendering intent
    p[68..80].copy_from_slice(&[0, 0, 0xf6, 0xd6, 0, 1, 0, 0, 0, 0, 0xd3, 0x2d]);
    if with_tag {
        // one A2B0 tag with an opaque payload
        let payload_len = 4 * rng.urange(3, 12);
        p[128..132].copy_from_slice(&1u32.to_be_bytes());
        p.extend_from_slice(b"A2B0");
        p.extend_from_slice(&144u32.to_be_bytes());
        p.extend_from_slice(&(payload_len as u32).to_be_bytes());
        p.extend_from_slice(b"mft2");
        for _ in 4..payload_len {
            p.push(rng.below(256) as u8);
        }
    }
    let n = p.len() as u32;
    p[0..4].copy_from_slice(&n.to_be_bytes());
    p
}

/// Builder following `imggen::gen_modular_image`, with the extra channel types, the CMYK
/// declaration and the frame crops C15 needs.
fn gen_special(rng: &mut Rng, max_dim: u32) -> Option<Img> {
    let gss = *rng.pick(&[0u32, 0, 0, 1, 2, 3]);
    let gdim = 128u32 << gss;
    let class = match rng.below(20) {
        0..=4 => 0,
        5..=15 => 1,
        16 | 17 => 2,
        _ => 3,
    };
    let (w, h) = random_dims(rng, class, max_dim, gdim);
    let grey = rng.chance(1, 4);
    let cmyk = !grey && rng.chance(1, 3);
    let depth = depth_for_c15(rng);
    let n_ec = match rng.below(6) {
        0 => 0,
        1 | 2 => 1,
        3 => 2,
        _ => rng.urange(2, 5),
    };
    let mut ec_info = Vec::new();
    let black_at = if cmyk { Some(rng.below(n_ec.max(1) as u64) as usize) } else { None };
    let n_ec = if cmyk { n_ec.max(1) } else { n_ec };
    for i in 0..n_ec {
        let ty = if Some(i) == black_at {
            EcType::Black
        } else {
            match rng.below(12) {
                0..=2 => EcType::Alpha { associated: rng.bool() },
                3 | 4 => EcType::Spot { rgbs: [random_f16_unit(rng), random_f16_unit(rng), random_f16_unit(rng), random_f16_unit(rng)] },
                5 => EcType::Black,
                6 => EcType::Depth,
                7 => EcType::SelectionMask,
                8 => EcType::Thermal,
                9 => EcType::Cfa { channel: rng.u32range(0, 40) },
                10 => EcType::NonOptional,
                _ => EcType::Optional,
            }
        };
        let bd = if rng.chance(1, 2) {
            depth
        } else {
            loop {
                let d = depth_for_c15(rng);
                if matches!(d, BitDepth::Int { .. }) {
                    break d;
                }
            }
        };
        let name = if rng.chance(1, 4) { format!("c{i}") } else { String::new() };
        ec_info.push(if matches!(ty, EcType::Alpha { associated: false }) && bd == BitDepth::default() && name.is_empty() && rng.bool() {
            ExtraChannelInfo::default_alpha()
        } else {
            ExtraChannelInfo::new(ty, bd, 0, &name)
        });
    }
    let mut md = ImageMetadata::plain(depth, grey, ec_info);
    let max_bits = std::iter::once(depth.bits()).chain(md.ec_info.iter().map(|e| e.bit_depth.bits())).max().unwrap_or(8);
    let narrow = max_bits <= 12 && rng.chance(1, 2);
    md.modular_16bit_buffers = narrow;
    md.orientation = rng.u32range(1, 8);
    md.extra_fields = md.orientation != 1 || rng.bool();
    if cmyk {
        md.colour_encoding = ColourEncoding { all_default: false, want_icc: true, colour_space: 0, ..Default::default() };
    }
    let ih = ImageHeader { size: SizeHeader::with_random_repr(w, h, rng), metadata: md };
    let mut fh = FrameHeader::modular(&ih);
    fh.group_size_shift = gss;
    if rng.chance(1, 6) {
        fh.passes = jxlgen::hgen::random_passes(rng);
    }
    // a frame that does not coincide with the canvas (Replace blending onto the zero canvas)
    let mut frame_rect = (0i32, 0i32, w, h);
    if rng.chance(1, 5) {
        let fw = rng.u32range(1, w + 6).min(max_dim.max(1));
        let fhh = rng.u32range(1, h + 6).min(max_dim.max(1));
        // keep an overlap with the canvas
        let x0 = rng.range(-(fw as i64) + 1, w as i64 - 1) as i32;
        let y0 = rng.range(-(fhh as i64) + 1, h as i64 - 1) as i32;
        fh.have_crop = true;
        fh.x0 = x0;
        fh.y0 = y0;
        fh.width = fw;
        fh.height = fhh;
        frame_rect = (x0, y0, fw, fhh);
    }
    let infos = modular_channel_infos(&ih, &fh);
    let layout = group_layout(&fh);
    if layout.num_groups() as u64 * layout.num_passes() as u64 > 200 {
        return None;
    }
    let is_float = matches!(depth, BitDepth::Float { .. });
    let bits = depth.bits();
    let (sample_lo, sample_hi) = if is_float && bits >= 32 { (i32::MIN as i64 / 2, i32::MAX as i64 / 2) } else { (0, (1i64 << bits) - 1) };
    let (range_lo, range_hi) = if narrow {
        (-4095i64, 4095i64)
    } else {
        let m = (sample_hi - sample_lo).max(1);
        ((sample_lo - m).max(i32::MIN as i64 + 1), (sample_hi + m).min(i32::MAX as i64))
    };
    let wide_values = bits > 24 || is_float;
    let mopts = ModularOpts {
        bit_depth: bits,
        range_lo,
        range_hi,
        sample_lo,
        sample_hi,
        allow_wp: true,
        allow_lz77: true,
        plain_entropy: false,
        local_tree_pct: 10,
        local_transform_pct: if wide_values { 0 } else { 5 },
        transforms: None,
        max_transforms: if wide_values { 0 } else { 2 },
        force_tree: None,
        palette_special: true,
        force_gens: None,
    };
    let enc = encode_modular(rng, &infos, &layout, &mopts)?;
    let rs1 = rng.bool();
    let profile = if cmyk { cmyk_profile(rng) } else { Vec::new() };
    let icc_writer = |bw: &mut BitWriter, rng: &mut Rng| {
        let opts = jxlgen::icc::IccWriteOpts { style: jxlgen::icc::IccStyle::simplest(), entropy: jxlgen::icc::IccEntropyOpts::default() };
        jxlgen::icc::write_icc(bw, &profile, rng, &opts);
    };
    let mut out = write_codestream_header(&ih, rng, rs1, if cmyk { Some(&icc_writer) } else { None });
    let sections = modular_frame_sections(&fh, &enc, &plain_lf_global_prefix());
    let permute = rng.chance(1, 6);
    let rs2 = rng.bool();
    let fl = write_frame(&mut out, rng, &ih, &fh, sections, permute, rs2);
    let num_color = fh.encoded_color_channels(&ih);
    let desc = format!(
        "{}x{} {} bd={:?} ec=[{}] gss={} passes={} narrow={} orient={} frame={:?}",
        w,
        h,
        if grey { "grey" } else if cmyk { "cmyk" } else { "rgb" },
        depth,
        ih.metadata.ec_info.iter().map(|e| format!("{}:{}", ec_tag(&e.ty), e.bit_depth.bits())).collect::<Vec<_>>().join(","),
        gss,
        fh.passes.num_passes,
        narrow,
        ih.metadata.orientation,
        if fh.have_crop { Some(frame_rect) } else { None }
    );
    Some(Img {
        m: ModularImage {
            bytes: out,
            ih,
            fh,
            infos,
            truth: enc.channels.clone(),
            desc,
            enc_desc: enc.desc.clone(),
            frame_layout: fl,
            preview: None,
            num_color,
            hard_range: (range_lo, range_hi),
            track: enc.track,
            nonzero_residuals: enc.nonzero_residuals,
            num_samples: enc.num_samples,
            transforms: enc.transforms.clone(),
        },
        cmyk,
        frame_rect,
        builder: "special",
    })
}

fn ec_tag(t: &EcType) -> &'static str {
    match t {
        EcType::Alpha { associated: false } => "A",
        EcType::Alpha { associated: true } => "Aa",
        EcType::Depth => "D",
        EcType::Spot { .. } => "S",
        EcType::SelectionMask => "M",
        EcType::Black => "K",
        EcType::Cfa { .. } => "C",
        EcType::Thermal => "T",
        EcType::NonOptional => "N",
        EcType::Optional => "O",
    }
}

// ---------------------------------------------------------------------------------------------
// truth in oriented space

struct ChanTruth {
    depth: BitDepth,
    /// canvas samples (image width x height, unoriented); 0 where the frame does not cover
    vals: Vec<i32>,
}

struct Truth {
    ow: usize,
    oh: usize,
    /// oriented position -> canvas index
    src_index: Vec<u32>,
    chans: Vec<ChanTruth>,
    num_color: usize,
    /// (ec index, rgb, solidity) of spot colour channels, in order
    spots: Vec<(usize, [f32; 3], f32)>,
    /// channel indices of stream() and stream_no_alpha()
    stream_ch: Vec<usize>,
    stream_ch_na: Vec<usize>,
    /// region pixels outside the image are expected to read 0. Not claimed when the frame has
    /// samples beyond the canvas (the decoder shows those through an oversized region; what such
    /// pixels hold is not specified anywhere, only agreement between the outputs is checked).
    outside_zero: bool,
}

fn build_truth(img: &Img) -> Option<Truth> {
    let m = &img.m;
    let w = m.ih.size.width as usize;
    let h = m.ih.size.height as usize;
    let o = m.ih.metadata.orientation;
    let (ow, oh) = oriented_dims(o, w, h);
    let mut src_index = vec![0u32; w * h];
    for sy in 0..h {
        for sx in 0..w {
            let (dx, dy) = exif_place(o, w, h, sx, sy);
            if dx >= ow || dy >= oh {
                return None;
            }
            src_index[dy * ow + dx] = (sy * w + sx) as u32;
        }
    }
    let (x0, y0, fw, fhh) = img.frame_rect;
    let mut chans = Vec::new();
    for (c, t) in m.truth.iter().enumerate() {
        if (t.w, t.h) != (fw as usize, fhh as usize) || t.data.len() != t.w * t.h {
            return None;
        }
        let depth = if c < m.num_color { m.ih.metadata.bit_depth } else { m.ih.metadata.ec_info.get(c - m.num_color)?.bit_depth };
        let vals = if (x0, y0, fw as usize, fhh as usize) == (0, 0, w, h) {
            t.data.clone()
        } else {
            let mut v = vec![0i32; w * h];
            for fy in 0..t.h {
                let cy = fy as i64 + y0 as i64;
                if cy < 0 || cy >= h as i64 {
                    continue;
                }
                for fx in 0..t.w {
                    let cx = fx as i64 + x0 as i64;
                    if cx < 0 || cx >= w as i64 {
                        continue;
                    }
                    v[cy as usize * w + cx as usize] = t.data[fy * t.w + fx];
                }
            }
            v
        };
        chans.push(ChanTruth { depth, vals });
    }
    let nc = m.num_color;
    let mut stream_ch: Vec<usize> = (0..nc).collect();
    if img.cmyk {
        if let Some(k) = m.ih.metadata.ec_info.iter().position(|e| matches!(e.ty, EcType::Black)) {
            stream_ch.push(nc + k);
        }
    }
    let stream_ch_na = stream_ch.clone();
    if let Some(a) = m.ih.metadata.ec_info.iter().position(|e| matches!(e.ty, EcType::Alpha { .. })) {
        stream_ch.push(nc + a);
    }
    let mut spots = Vec::new();
    for (i, e) in m.ih.metadata.ec_info.iter().enumerate() {
        if let EcType::Spot { rgbs } = &e.ty {
            spots.push((i, [f16_to_f32(rgbs[0]), f16_to_f32(rgbs[1]), f16_to_f32(rgbs[2])], f16_to_f32(rgbs[3])));
        }
    }
    let outside_zero = x0 >= 0 && y0 >= 0 && x0 as i64 + fw as i64 <= w as i64 && y0 as i64 + fhh as i64 <= h as i64;
    Some(Truth { ow, oh, src_index, chans, num_color: nc, spots, stream_ch, stream_ch_na, outside_zero })
}

#[derive(Clone, Copy, Debug)]
struct Rect {
    left: u32,
    top: u32,
    w: u32,
    h: u32,
}

impl Truth {
    /// integer sample of channel c at output position (x, y) of `r`; None outside the image
    #[inline]
    fn sample(&self, r: &Rect, x: usize, y: usize, c: usize) -> Option<i32> {
        let ox = r.left as usize + x;
        let oy = r.top as usize + y;
        if ox >= self.ow || oy >= self.oh {
            return None;
        }
        let i = self.src_index[oy * self.ow + ox] as usize;
        Some(self.chans[c].vals[i])
    }

    #[inline]
    fn expect(&self, r: &Rect, x: usize, y: usize, c: usize) -> Exp {
        match self.sample(r, x, y, c) {
            // outside the image: 0 in every output. For narrow custom floats the streams produce
            // "the float of integer 0", which is the zero case of the exponent-field-0 class.
            None if !self.outside_zero => Exp::Any,
            None if narrow_float(self.chans[c].depth) => subfloat(Exp::Exp0(0.0)),
            None => Exp::Exact(0.0),
            Some(v) => exp_float(self.chans[c].depth, v),
        }
    }

    /// expected value and error bound of a colour sample after spot colour mixing
    fn spot_mixed(&self, r: &Rect, x: usize, y: usize, c: usize) -> Option<(f64, f64, bool)> {
        let e = self.expect(r, x, y, c);
        let mut s = e.value()?;
        let mut err = e.tol();
        let mut exp0 = matches!(e, Exp::Exp0(_));
        for (i, rgb, solidity) in &self.spots {
            let se = self.expect(r, x, y, self.num_color + *i);
            let sv = se.value()?;
            exp0 |= matches!(se, Exp::Exp0(_));
            let mix = sv * *solidity as f64;
            let color = rgb[c.min(2)] as f64;
            let mag = (color * mix).abs() + s.abs() * (1.0 + mix.abs());
            if !(mag < 1e37) {
                return None; // the f32 evaluation may overflow: not judged
            }
            let mix_err = se.tol() * (*solidity as f64).abs();
            err = err * (1.0 - mix).abs() + 8e-7 * mag + mix_err * (color.abs() + s.abs()) + 1e-37;
            s = color * mix + s * (1.0 - mix);
        }
        if !s.is_finite() || !err.is_finite() {
            return None;
        }
        Some((s, err, exp0))
    }
}

// ---------------------------------------------------------------------------------------------
// comparisons

struct Findings {
    /// first genuine mismatch (signature, detail)
    bad: Option<(String, String)>,
    /// first mismatch on zero / subnormal narrow-float samples
    exp0: Option<String>,
    compared: u64,
    unjudged: u64,
    outside: u64,
}

impl Findings {
    fn note(&mut self, v: Verdict, sig: &str, detail: impl FnOnce() -> String) -> bool {
        match v {
            Verdict::Ok => true,
            Verdict::Exp0Bad => {
                if self.exp0.is_none() {
                    self.exp0 = Some(detail());
                }
                true
            }
            Verdict::Bad => {
                if self.bad.is_none() {
                    self.bad = Some((sig.to_string(), detail()));
                }
                false
            }
        }
    }
}

fn check_framebuffer(t: &Truth, r: &Rect, fb: &FrameBuffer, chans: &[usize], what: &str, all: Option<&FrameBuffer>, f: &mut Findings) -> bool {
    let (rw, rh) = (r.w as usize, r.h as usize);
    if (fb.width(), fb.height(), fb.channels()) != (rw, rh, chans.len()) {
        f.bad = Some((format!("dims:{what}"), format!("{what}: {}x{}x{} expected {}x{}x{}", fb.width(), fb.height(), fb.channels(), rw, rh, chans.len())));
        return false;
    }
    let buf = fb.buf();
    if buf.len() != rw * rh * chans.len() {
        f.bad = Some((format!("dims:{what}"), format!("{what}: buffer length {} for {}x{}x{}", buf.len(), rw, rh, chans.len())));
        return false;
    }
    let nall = t.chans.len();
    for y in 0..rh {
        for x in 0..rw {
            for (k, &c) in chans.iter().enumerate() {
                let got = buf[(y * rw + x) * chans.len() + k];
                let e = t.expect(r, x, y, c);
                f.compared += 1;
                if matches!(e, Exp::Any) {
                    f.unjudged += 1;
                    if let Some(a) = all {
                        let av = a.buf().get((y * rw + x) * nall + c).copied().unwrap_or(f32::NAN);
                        if !same_f32(av, got) {
                            f.bad = Some((format!("disagree:{what}"), format!("{what} ({x},{y}) ch {c}: {got:?} but image_all_channels has {av:?}")));
                            return false;
                        }
                    }
                    continue;
                }
                let v = judge_f32(&e, got);
                if !f.note(v, &format!("value:{what}"), || format!("{what} at ({x},{y}) channel {c}: got {got:?} expected {e:?} (sample {:?})", t.sample(r, x, y, c))) {
                    return false;
                }
            }
        }
    }
    true
}

trait StreamSample: jxl_oxide::FrameBufferSample + Copy + PartialEq + std::fmt::Debug {
    const KIND: Kind;
    fn sentinel() -> Self;
    fn as_f32(self) -> f32;
    fn as_i64(self) -> i64;
}
impl StreamSample for f32 {
    const KIND: Kind = Kind::F32;
    fn sentinel() -> Self {
        f32::from_bits(0x7fc1_2345)
    }
    fn as_f32(self) -> f32 {
        self
    }
    fn as_i64(self) -> i64 {
        0
    }
}
impl StreamSample for u16 {
    const KIND: Kind = Kind::U16;
    fn sentinel() -> Self {
        0xa5c3
    }
    fn as_f32(self) -> f32 {
        0.0
    }
    fn as_i64(self) -> i64 {
        self as i64
    }
}
impl StreamSample for u8 {
    const KIND: Kind = Kind::U8;
    fn sentinel() -> Self {
        0xa5
    }
    fn as_f32(self) -> f32 {
        0.0
    }
    fn as_i64(self) -> i64 {
        self as i64
    }
}

/// One-shot read of a stream into a buffer with guard samples behind it.
fn read_stream<S: StreamSample>(mut s: ImageStream<'_>, r: &Rect, nch: usize, what: &str, f: &mut Findings) -> Option<Vec<S>> {
    if (s.width(), s.height(), s.channels() as usize) != (r.w, r.h, nch) {
        f.bad = Some((format!("dims:{what}"), format!("{what}: {}x{}x{} expected {}x{}x{}", s.width(), s.height(), s.channels(), r.w, r.h, nch)));
        return None;
    }
    let n = r.w as usize * r.h as usize * nch;
    const GUARD: usize = 5;
    let mut buf = vec![S::sentinel(); n + GUARD];
    let cnt = s.write_to_buffer(&mut buf);
    if cnt != n {
        f.bad = Some((format!("count:{what}"), format!("{what}: write_to_buffer returned {cnt}, expected {n}")));
        return None;
    }
    if buf[n..].iter().any(|v| *v != S::sentinel() && !(S::KIND == Kind::F32 && v.as_f32().to_bits() == S::sentinel().as_f32().to_bits())) {
        f.bad = Some((format!("overrun:{what}"), format!("{what}: samples written past the end of the image")));
        return None;
    }
    // f32 sentinel is a NaN: `!=` is always true, handled by the bit comparison above
    let again = s.write_to_buffer(&mut buf[..GUARD.min(n + GUARD)]);
    if again != 0 {
        f.bad = Some((format!("count:{what}"), format!("{what}: write_to_buffer after the end returned {again}")));
        return None;
    }
    buf.truncate(n);
    Some(buf)
}

#[allow(clippy::too_many_arguments)]
fn check_stream<S: StreamSample>(t: &Truth, r: &Rect, data: &[S], chans: &[usize], spot_on: bool, what: &str, all: Option<&FrameBuffer>, f: &mut Findings) -> bool {
    let (rw, rh) = (r.w as usize, r.h as usize);
    let nch = chans.len();
    let nall = t.chans.len();
    let mixing = spot_on && t.num_color == 3 && !t.spots.is_empty();
    for y in 0..rh {
        for x in 0..rw {
            for (k, &c) in chans.iter().enumerate() {
                let got = data[(y * rw + x) * nch + k];
                f.compared += 1;
                if mixing && k < 3 {
                    let Some((s, err, exp0)) = t.spot_mixed(r, x, y, c) else {
                        f.unjudged += 1;
                        continue;
                    };
                    let ok = match S::KIND {
                        Kind::F32 => (got.as_f32() as f64 - s).abs() <= err,
                        kind => match int_interval(s, err, kind.maxv(), if kind == Kind::U16 { 0.01 } else { 1e-3 }) {
                            Some((lo, hi)) => got.as_i64() >= lo && got.as_i64() <= hi,
                            None => true,
                        },
                    };
                    if !ok {
                        let v = if exp0 { Verdict::Exp0Bad } else { Verdict::Bad };
                        if !f.note(v, &format!("spot:{what}"), || format!("{what} at ({x},{y}) channel {c}: got {got:?}, spot-mixed value {s} +- {err}")) {
                            return false;
                        }
                    }
                    continue;
                }
                let sample = t.sample(r, x, y, c);
                if sample.is_none() {
                    f.outside += 1;
                }
                let depth = t.chans[c].depth;
                match S::KIND {
                    Kind::F32 => {
                        let e = t.expect(r, x, y, c);
                        if matches!(e, Exp::Any) {
                            f.unjudged += 1;
                            if sample.is_none() && t.outside_zero {
                                continue; // only with --subfloat skip
                            }
                            if let Some(a) = all {
                                let av = a.buf().get((y * rw + x) * nall + c).copied().unwrap_or(f32::NAN);
                                if !same_f32(av, got.as_f32()) {
                                    f.bad = Some((format!("disagree:{what}"), format!("{what} ({x},{y}) ch {c}: {got:?} but image_all_channels has {av:?}")));
                                    return false;
                                }
                            }
                            continue;
                        }
                        let v = judge_f32(&e, got.as_f32());
                        if !f.note(v, &format!("value:{what}"), || format!("{what} at ({x},{y}) channel {c}: got {got:?} expected {e:?} (sample {sample:?})")) {
                            return false;
                        }
                    }
                    kind => {
                        let v = match sample {
                            None if !t.outside_zero => {
                                f.unjudged += 1;
                                Verdict::Ok
                            }
                            None => {
                                if got.as_i64() == 0 {
                                    Verdict::Ok
                                } else if narrow_float(depth) {
                                    if SUBFLOAT_SKIP.load(std::sync::atomic::Ordering::Relaxed) {
                                        Verdict::Ok
                                    } else {
                                        Verdict::Exp0Bad
                                    }
                                } else {
                                    Verdict::Bad
                                }
                            }
                            Some(sv) => judge_int(depth, sv, kind, got.as_i64()),
                        };
                        if !f.note(v, &format!("value:{what}"), || {
                            format!("{what} at ({x},{y}) channel {c}: got {got:?} for sample {sample:?} of depth {depth:?} (float {:?})", sample.map(|sv| exp_float(depth, sv)))
                        }) {
                            return false;
                        }
                    }
                }
            }
        }
    }
    true
}

/// Read the stream in pieces of random lengths; the concatenation must equal `whole`.
fn check_partial<S: StreamSample>(rng: &mut Rng, mut s: ImageStream<'_>, whole: &[S], row_len: usize, nch: usize, what: &str, f: &mut Findings) -> bool {
    let n = whole.len();
    let mut pos = 0usize;
    let mut calls = 0u32;
    let mut zero_calls = 0u32;
    while pos < n || calls == 0 {
        let len = match rng.below(9) {
            0 if zero_calls < 3 => {
                zero_calls += 1;
                0
            }
            0 | 1 => 1,
            2 => nch.saturating_sub(1).max(1),
            3 => nch + 1,
            4 => row_len.max(1),
            5 => row_len + 1,
            6 => row_len.saturating_sub(1).max(1),
            7 => rng.urange(1, 17),
            _ => rng.urange(1, n.max(1)),
        };
        // towards the end also ask for more than is left
        let mut buf = vec![S::sentinel(); len];
        let cnt = s.write_to_buffer(&mut buf);
        let want = len.min(n - pos);
        if cnt != want {
            f.bad = Some((format!("partial-count:{what}"), format!("{what}: call {calls} with buffer {len} at offset {pos}/{n} returned {cnt}, expected {want}")));
            return false;
        }
        for i in 0..cnt {
            let (a, b) = (buf[i], whole[pos + i]);
            let same = match S::KIND {
                Kind::F32 => same_f32(a.as_f32(), b.as_f32()),
                _ => a == b,
            };
            if !same {
                f.bad = Some((format!("partial:{what}"), format!("{what}: sample {} (call {calls}, buffer {len}) is {a:?}, one-shot output has {b:?}", pos + i)));
                return false;
            }
        }
        pos += cnt;
        calls += 1;
        if calls > 100_000 {
            break;
        }
    }
    true
}

// ---------------------------------------------------------------------------------------------
// regions

fn pick_region(rng: &mut Rng, ow: u32, oh: u32, allow_default: bool) -> (&'static str, Option<Rect>) {
    let k = rng.below(if allow_default { 16 } else { 13 });
    match k {
        0..=2 => {
            // interior rectangle
            let l = rng.u32range(0, ow - 1);
            let t = rng.u32range(0, oh - 1);
            ("interior", Some(Rect { left: l, top: t, w: rng.u32range(1, ow - l), h: rng.u32range(1, oh - t) }))
        }
        3 => ("pixel", Some(Rect { left: rng.u32range(0, ow - 1), top: rng.u32range(0, oh - 1), w: 1, h: 1 })),
        4 | 5 => {
            if rng.bool() {
                let t = rng.u32range(0, oh - 1);
                ("strip", Some(Rect { left: 0, top: t, w: ow, h: rng.u32range(1, (oh - t).min(3)) }))
            } else {
                let l = rng.u32range(0, ow - 1);
                ("strip", Some(Rect { left: l, top: 0, w: rng.u32range(1, (ow - l).min(3)), h: oh }))
            }
        }
        6 | 7 => {
            // touches the right and/or bottom edge
            let l = rng.u32range(0, ow - 1);
            let t = rng.u32range(0, oh - 1);
            let to_right = rng.chance(2, 3);
            let to_bottom = !to_right || rng.bool();
            ("edge", Some(Rect { left: l, top: t, w: if to_right { ow - l } else { rng.u32range(1, ow - l) }, h: if to_bottom { oh - t } else { rng.u32range(1, oh - t) } }))
        }
        8 | 9 => {
            // partly outside the image
            let l = rng.u32range(0, ow - 1);
            let t = rng.u32range(0, oh - 1);
            let over_x = rng.chance(2, 3);
            let over_y = !over_x || rng.bool();
            ("overhang", Some(Rect { left: l, top: t, w: if over_x { ow - l + rng.u32range(1, 20) } else { rng.u32range(1, ow - l) }, h: if over_y { oh - t + rng.u32range(1, 20) } else { rng.u32range(1, oh - t) } }))
        }
        10 => {
            // completely outside
            let (l, t) = if rng.bool() { (ow + rng.u32range(0, 9), rng.u32range(0, oh)) } else { (rng.u32range(0, ow), oh + rng.u32range(0, 9)) };
            ("outside", Some(Rect { left: l, top: t, w: rng.u32range(1, 12), h: rng.u32range(1, 12) }))
        }
        11 | 12 => ("full", Some(Rect { left: 0, top: 0, w: ow, h: oh })),
        _ => ("default", None),
    }
}

// ---------------------------------------------------------------------------------------------

fn depth_class(d: BitDepth) -> String {
    match d {
        BitDepth::Int { bits } => match bits {
            1..=7 => "d<8".into(),
            8 => "d8".into(),
            9..=15 => "d9-15".into(),
            16 => "d16".into(),
            17..=23 => "d17-23".into(),
            24 => "d24".into(),
            _ => "d25+".into(),
        },
        BitDepth::Float { bits, .. } => format!("f{bits}"),
    }
}

fn layout_class(img: &Img) -> String {
    let md = &img.m.ih.metadata;
    let mut s = String::from(if md.grayscale() { "grey" } else if img.cmyk { "cmyk" } else { "rgb" });
    let has = |f: &dyn Fn(&EcType) -> bool| md.ec_info.iter().any(|e| f(&e.ty));
    if has(&|t| matches!(t, EcType::Black)) {
        s.push_str("+K");
    }
    if has(&|t| matches!(t, EcType::Alpha { .. })) {
        s.push_str("+A");
    }
    if has(&|t| matches!(t, EcType::Spot { .. })) {
        s.push_str("+S");
    }
    let other = md.ec_info.iter().filter(|e| !matches!(e.ty, EcType::Black | EcType::Alpha { .. } | EcType::Spot { .. })).count();
    s.push_str(match other {
        0 => "",
        1 => "+x1",
        _ => "+x2",
    });
    if img.m.fh.have_crop {
        s.push_str("+fc");
    }
    s
}

struct Ctx<'a> {
    img: &'a Img,
    t: &'a Truth,
}

/// Check every output of one render against the truth. Returns false after a violation.
fn check_render(case: &mut Case, cx: &Ctx, render: &Render, r: &Rect, spot_on: bool, partial: (Kind, bool), label: &str) -> bool {
    let t = cx.t;
    let img = cx.img;
    let mut f = Findings { bad: None, exp0: None, compared: 0, unjudged: 0, outside: 0 };
    let nall = t.chans.len();
    let all_ch: Vec<usize> = (0..nall).collect();
    let o = img.m.ih.metadata.orientation;
    let mut ok = true;
    if render.orientation() != o {
        f.bad = Some(("orientation".into(), format!("Render::orientation() = {} but the header says {}", render.orientation(), o)));
        ok = false;
    }
    // which buffer types the outputs were produced from (I32/I16: plain Modular; F32: after blending)
    for g in render.color_channels().iter().chain(render.extra_channels().1) {
        let k = match g {
            jxl_render::ImageBuffer::F32(_) => "grids_f32",
            jxl_render::ImageBuffer::I32(_) => "grids_i32",
            jxl_render::ImageBuffer::I16(_) => "grids_i16",
        };
        case.obs(k, 1);
    }
    // (ii) interleaved buffer with all channels
    let fb_all = render.image_all_channels();
    ok = ok && check_framebuffer(t, r, &fb_all, &all_ch, "image_all_channels", None, &mut f);
    // planar buffers
    if ok {
        let planar = render.image_planar();
        if planar.len() != nall {
            f.bad = Some(("dims:image_planar".into(), format!("image_planar returned {} buffers for {} channels", planar.len(), nall)));
            ok = false;
        }
        for (c, p) in planar.iter().enumerate() {
            if !ok {
                break;
            }
            ok = check_framebuffer(t, r, p, &[c], "image_planar", Some(&fb_all), &mut f);
        }
        case.obs("planar_buffers", planar.len() as u64);
    }
    // streams
    if ok {
        for &(no_alpha, chans) in &[(false, &t.stream_ch), (true, &t.stream_ch_na)] {
            let name = if no_alpha { "stream_no_alpha" } else { "stream" };
            let mk = || if no_alpha { render.stream_no_alpha() } else { render.stream() };
            let wf = format!("{name}<f32>");
            let Some(df) = read_stream::<f32>(mk(), r, chans.len(), &wf, &mut f) else {
                ok = false;
                break;
            };
            if !check_stream(t, r, &df, chans, spot_on, &wf, Some(&fb_all), &mut f) {
                ok = false;
                break;
            }
            let w16 = format!("{name}<u16>");
            let Some(d16) = read_stream::<u16>(mk(), r, chans.len(), &w16, &mut f) else {
                ok = false;
                break;
            };
            if !check_stream(t, r, &d16, chans, spot_on, &w16, None, &mut f) {
                ok = false;
                break;
            }
            let w8 = format!("{name}<u8>");
            let Some(d8) = read_stream::<u8>(mk(), r, chans.len(), &w8, &mut f) else {
                ok = false;
                break;
            };
            if !check_stream(t, r, &d8, chans, spot_on, &w8, None, &mut f) {
                ok = false;
                break;
            }
            case.obs("streams_read", 3);
            // (v) partial writes
            if partial.1 == no_alpha {
                let row = r.w as usize * chans.len();
                let mut prng = case.rng.fork();
                let pok = match partial.0 {
                    Kind::F32 => check_partial(&mut prng, mk(), &df, row, chans.len(), &format!("partial {wf}"), &mut f),
                    Kind::U16 => check_partial(&mut prng, mk(), &d16, row, chans.len(), &format!("partial {w16}"), &mut f),
                    Kind::U8 => check_partial(&mut prng, mk(), &d8, row, chans.len(), &format!("partial {w8}"), &mut f),
                };
                case.obs("partial_stream_reads", 1);
                if !pok {
                    ok = false;
                    break;
                }
            }
        }
    }
    case.obs("samples_compared", f.compared);
    case.obs("samples_unjudged", f.unjudged);
    case.obs("samples_outside_image", f.outside);
    if let Some(d) = f.exp0.take() {
        case.violation("subfloat-exp0", format!("{label}: {d} [{} | {}]", img.m.desc, img.m.enc_desc));
    }
    if let Some((sig, d)) = f.bad.take() {
        case.violation(sig, format!("{label}: {d} [{} | {}]", img.m.desc, img.m.enc_desc));
        return false;
    }
    ok
}

fn apply_region(image: &mut JxlImage, r: Option<Rect>) {
    if let Some(r) = r {
        image.set_image_region(CropInfo { width: r.w, height: r.h, left: r.left, top: r.top });
    }
}

pub fn check_image(case: &mut Case, img: &Img, rng: &mut Rng, thorough: bool) {
    let m = &img.m;
    case.set_input(&m.bytes);
    if std::env::var("VCHECK_DEBUG").is_ok() {
        eprintln!("{} | {}", m.desc, m.enc_desc);
    }
    let Some(t) = build_truth(img) else {
        case.inconclusive("truth not buildable");
        return;
    };
    let o = m.ih.metadata.orientation;
    let pool = if rng.chance(1, 10) { Pool::Rayon(2) } else { Pool::None };
    let wide = rng.chance(1, 3);
    let mut image = match open_image(&m.bytes, pool, wide) {
        Ok(i) => i,
        Err(e) => {
            case.violation("open-err", format!("valid image rejected: {e} [{} | {}]", m.desc, m.enc_desc));
            return;
        }
    };
    if image.num_loaded_keyframes() != 1 || !image.is_loading_done() {
        case.violation("frames", format!("loaded_keyframes={} done={}", image.num_loaded_keyframes(), image.is_loading_done()));
        return;
    }
    // (i) reported dimensions and pixel format
    if (image.width() as usize, image.height() as usize) != (t.ow, t.oh) {
        case.violation("image-dims", format!("width()/height() = {}x{}, oriented size is {}x{} (orientation {o}) [{}]", image.width(), image.height(), t.ow, t.oh, m.desc));
        return;
    }
    let has_alpha = t.stream_ch.len() > t.stream_ch_na.len();
    let want_pf = match (m.ih.metadata.grayscale(), img.cmyk, has_alpha) {
        (true, _, false) => PixelFormat::Gray,
        (true, _, true) => PixelFormat::Graya,
        (false, false, false) => PixelFormat::Rgb,
        (false, false, true) => PixelFormat::Rgba,
        (false, true, false) => PixelFormat::Cmyk,
        (false, true, true) => PixelFormat::Cmyka,
    };
    if image.pixel_format() != want_pf {
        case.violation("pixel-format", format!("pixel_format() = {:?}, expected {:?} [{}]", image.pixel_format(), want_pf, m.desc));
        return;
    }
    // spot colour rendering on (default for colour images) / off
    let has_spot = !t.spots.is_empty() && t.num_color == 3;
    let mut spot_on = image.render_spot_color();
    if spot_on == m.ih.metadata.grayscale() {
        case.violation("spot-default", format!("render_spot_color() defaults to {spot_on} for {}", if spot_on { "grey" } else { "colour" }));
        return;
    }
    if rng.chance(1, 3) {
        image.set_render_spot_color(false);
        spot_on = false;
    }
    let (ow, oh) = (t.ow as u32, t.oh as u32);
    let (rclass, rect) = pick_region(rng, ow, oh, true);
    let full = Rect { left: 0, top: 0, w: ow, h: oh };
    let kinds = [Kind::F32, Kind::U16, Kind::U8];
    let partial = (kinds[rng.below(3) as usize], rng.bool());
    // signature
    let sig = format!(
        "{}|{}|o{}|{}|{}{}{}",
        layout_class(img),
        depth_class(m.ih.metadata.bit_depth),
        o,
        rclass,
        partial.0.name(),
        if partial.1 { "-na" } else { "" },
        if has_spot { if spot_on { "|spot-on" } else { "|spot-off" } } else { "" }
    );
    let r0 = rect.unwrap_or(full);
    let in_image = (r0.left < ow && r0.top < oh) as u64 * ((r0.w.min(ow.saturating_sub(r0.left))) as u64 * (r0.h.min(oh.saturating_sub(r0.top))) as u64);
    let varied = t.chans.first().map(|c| c.vals.iter().any(|&v| v != c.vals[0])).unwrap_or(false);
    case.sig(sig, in_image >= 4 && varied);
    case.sample(format!(
        "{{\"image\":{},\"region_class\":{},\"region\":{},\"orientation\":{},\"pool\":{},\"wide\":{},\"spot_on\":{},\"bytes\":{}}}",
        json_str(&m.desc),
        json_str(rclass),
        json_str(&format!("{rect:?}")),
        o,
        json_str(&format!("{pool:?}")),
        wide,
        spot_on,
        m.bytes.len()
    ));
    case.obs_set("orientations", format!("{o}"));
    case.obs_set("region_classes", rclass);
    case.obs_set("layouts", layout_class(img));
    case.obs_set("depths", format!("{:?}", m.ih.metadata.bit_depth).replace(' ', ""));
    case.obs(&format!("orientation_{o}"), 1);
    case.obs(&format!("region_{rclass}"), 1);
    if img.cmyk {
        case.obs("cmyk_images", 1);
    }
    if has_spot {
        case.obs(if spot_on { "spot_mixed_images" } else { "spot_off_images" }, 1);
    }
    if m.fh.have_crop {
        case.obs("frame_crop_images", 1);
    }
    let cx = Ctx { img, t: &t };
    apply_region(&mut image, rect);
    let render = match image.render_frame(0) {
        Ok(r) => r,
        Err(e) => {
            case.violation("render-err", format!("render failed: {e} region {rect:?} [{} | {}]", m.desc, m.enc_desc));
            return;
        }
    };
    let label = format!("region {rclass} {rect:?} orientation {o} pool={pool:?} wide={wide}");
    if !check_render(case, &cx, &render, &r0, spot_on, partial, &label) {
        return;
    }
    case.obs("renders", 1);
    drop(render);
    // further regions on the same decoder instance (region change resets the render cache)
    let more = if thorough { 2 } else { 1 };
    for _ in 0..more {
        if !rng.chance(1, 2) {
            continue;
        }
        let (rc2, rect2) = pick_region(rng, ow, oh, false);
        if rng.chance(1, 4) {
            spot_on = !spot_on && !m.ih.metadata.grayscale();
            image.set_render_spot_color(spot_on);
        }
        apply_region(&mut image, rect2);
        let r2 = rect2.unwrap_or(full);
        if image.current_image_region() != (CropInfo { width: r2.w, height: r2.h, left: r2.left, top: r2.top }) {
            case.violation("region-readback", format!("current_image_region() = {:?} after setting {:?}", image.current_image_region(), r2));
            return;
        }
        let render = match image.render_frame_cropped(0) {
            Ok(r) => r,
            Err(e) => {
                case.violation("render-err", format!("render failed: {e} second region {rect2:?} [{} | {}]", m.desc, m.enc_desc));
                return;
            }
        };
        let partial2 = (kinds[rng.below(3) as usize], rng.bool());
        let label = format!("second region {rc2} {rect2:?} (after {rect:?}) orientation {o} pool={pool:?} wide={wide}");
        if !check_render(case, &cx, &render, &r2, spot_on, partial2, &label) {
            return;
        }
        case.obs("renders", 1);
        case.obs("second_region_renders", 1);
    }
}

pub fn run(args: &Args) -> i32 {
    let thorough = args.thorough();
    if args.extra.get("subfloat").map(|s| s == "skip").unwrap_or(false) {
        SUBFLOAT_SKIP.store(true, std::sync::atomic::Ordering::Relaxed);
    }
    run_cases(args, 0xC15, |case| {
        let mut rng = case.rng.fork();
        let max_dim = if thorough { 600 } else { 260 };
        let mut img = None;
        for _ in 0..30 {
            if rng.chance(2, 5) {
                let opts = ImgOpts {
                    size_class: match rng.below(20) {
                        0..=4 => 0,
                        5..=15 => 1,
                        16 | 17 => 2,
                        _ => 3,
                    },
                    max_dim,
                    orientation: true,
                    ec_dim_shift: false,
                    bit_depth: if rng.chance(1, 2) { None } else { match depth_for_c15(&mut rng) { BitDepth::Int { bits } => Some(bits), _ => None } },
                    ..Default::default()
                };
                if let Some(m) = gen_modular_image(&mut rng, &opts) {
                    let rect = (0, 0, m.ih.size.width, m.ih.size.height);
                    img = Some(Img { m, cmyk: false, frame_rect: rect, builder: "imggen" });
                    break;
                }
            } else if let Some(i) = gen_special(&mut rng, max_dim) {
                img = Some(i);
                break;
            }
        }
        let Some(img) = img else {
            case.inconclusive("generator gave up");
            return;
        };
        case.obs(&format!("builder_{}", img.builder), 1);
        check_image(case, &img, &mut rng, thorough);
    })
}
