//! C17: JPEG reconstruction reproduces the original JPEG byte for byte.
//!
//! Workload: `jxlgen::jpeg` writes a random JPEG (the ORIGINAL; its writer was cross-checked
//! against libjpeg-turbo's coefficient reader while being built), `jxlgen::vardct` transcodes it
//! to a VarDCT frame + `jbrd` box (+ ICC in the codestream, `Exif` / `xml ` boxes) in a random
//! container layout.  Oracles:
//!  * `reconstruct_jpeg` output == original, byte exact; `render_frame` succeeds;
//!  * partial arrival (build_uninit / feed_bytes / try_init, status sampled after every chunk):
//!    never `Unavailable` / `Invalid` for a prefix of a valid file, `Available` only when the jbrd
//!    box and the needed Exif / XMP boxes have arrived completely, `reconstruct_jpeg` at an
//!    `Available` moment either fails cleanly because frame data is missing or produces the
//!    original, at the end `Available` + exact reconstruction;
//!  * files without jbrd: `Unavailable` after finalize, `reconstruct_jpeg` is an error;
//!  * hostile jbrd headers (valid syntax, hostile values): error or garbage, never a panic.
//!
//! Disagreements that were traced to the decoder (see the report) get a `dev:` signature so that
//! they can be tracked as known findings; everything else is a plain violation.

use crate::common::*;
use crate::dec::*;
use jxl_oxide::{InitializeResult, JpegReconstructionStatus, JxlImage, JxlThreadPool};
use jxlgen::container::*;
use jxlgen::jbrd::*;
use jxlgen::jpeg::*;
use jxlgen::rng::Rng;
use jxlgen::vardct::*;

/// Coarse class of a JPEG for distinct counting: components, sampling, SOF type, scan script
/// shape, restart use, table mode, metadata kinds, padding, tail, extras.
fn coarse(class: &str) -> String {
    let f: Vec<&str> = class.split('|').collect();
    if f.len() < 10 {
        return class.to_string();
    }
    let script: String = {
        let s = f[3];
        if s.starts_with("prog") {
            let al = s.rsplit(":al").next().unwrap_or("0");
            let dc = s.split(':').nth(1).unwrap_or("");
            format!("prog:{}{}:{}", if dc.ends_with('I') { "I" } else { "N" }, if dc.contains("dc0") { "0" } else { "+" }, if al == "0" { "al0" } else { "al+" })
        } else {
            s.to_string()
        }
    };
    let meta: String = f[7].chars().filter(|c| matches!(c, 'I' | 'E' | 'X' | 'g')).collect();
    format!("{}|{}|{}|{}|{}|{}|{}|{}", f[0], f[1], f[2], script, f[4], meta, f[8], f[9..].join(""))
}

fn first_diff(a: &[u8], b: &[u8]) -> usize {
    a.iter().zip(b).position(|(x, y)| x != y).unwrap_or(a.len().min(b.len()))
}

fn win(a: &[u8], p: usize) -> String {
    hex(&a[p.min(a.len())..(p + 8).min(a.len())])
}

/// Does the decoder's scan geometry (sampling maxima taken over the scan's components instead of
/// the frame's) differ from the JPEG definition for some scan of this file?
fn scan_geometry_class(spec: &JpegSpec) -> bool {
    let (hm, vm) = (spec.hmax() as u8, spec.vmax() as u8);
    spec.scans.iter().any(|s| {
        let h = s.comps.iter().map(|c| spec.components[c.comp_idx].h).max().unwrap_or(1);
        let v = s.comps.iter().map(|c| spec.components[c.comp_idx].v).max().unwrap_or(1);
        h != hm || v != vm
    })
}

fn quant_order_class(spec: &JpegSpec) -> bool {
    spec.components.iter().any(|c| spec.quant.iter().position(|q| q.id == c.tq) != Some(c.tq as usize))
}

/// byte ranges of the SOF and DQT segments of the original
fn sof_dqt_ranges(jpeg: &[u8]) -> Vec<(usize, usize)> {
    let mut v = Vec::new();
    let mut p = 2;
    while p + 4 <= jpeg.len() {
        if jpeg[p] != 0xff {
            p += 1;
            continue;
        }
        let m = jpeg[p + 1];
        if m == 0xff || m == 0 {
            p += 1;
            continue;
        }
        if m == 0xda || m == 0xd9 {
            break;
        }
        let len = ((jpeg[p + 2] as usize) << 8) | jpeg[p + 3] as usize;
        if matches!(m, 0xc0 | 0xc1 | 0xc2 | 0xdb) {
            v.push((p, p + 2 + len));
        }
        p += 2 + len.max(2);
    }
    v
}

struct Built {
    spec: JpegSpec,
    t: Transcoded,
}

fn build(rng: &mut Rng, o: &JpegGenOpts) -> Option<Built> {
    for _ in 0..6 {
        let spec = random_jpeg(rng, o);
        let to = TranscodeOpts::random(rng);
        if let Some(t) = jpeg_to_jxl(&spec, rng, &to) {
            if !t.jpeg.is_empty() {
                return Some(Built { spec, t });
            }
        }
    }
    None
}

/// Compare a reconstruction with the original; on a difference decide whether it is one of the
/// characterised decoder deviations. Returns true when equal.
fn judge_output(case: &mut Case, b: &Built, out: &[u8], ctx: &str) -> bool {
    let (spec, t) = (&b.spec, &b.t);
    if out == t.jpeg {
        return true;
    }
    let p = first_diff(out, &t.jpeg);
    let detail = format!(
        "{ctx}: reconstructed JPEG differs at byte {p} (len {} vs {}): got {} want {} [{} | {}]",
        out.len(),
        t.jpeg.len(),
        win(out, p),
        win(&t.jpeg, p),
        spec.class,
        t.desc
    );
    // (three decoder deviations once classified here were repaired: 59bbd2a, 5859320 and the quant-index fix)
    case.violation("mismatch", detail);
    false
}

/// reconstruct_jpeg under a panic guard; Ok(Ok(bytes)) / Ok(Err(msg)) / Err(panic site)
fn reconstruct(image: &JxlImage) -> Result<Result<Vec<u8>, String>, (String, String)> {
    let mut out = Vec::new();
    let r = guarded(|| image.reconstruct_jpeg(&mut out));
    match r {
        Ok(Ok(())) => Ok(Ok(out)),
        Ok(Err(e)) => Ok(Err(format!("{e}"))),
        Err(p) => Err(p),
    }
}

fn status(image: &JxlImage) -> Result<JpegReconstructionStatus, (String, String)> {
    guarded(|| image.jpeg_reconstruction_status())
}

fn recon_failure(case: &mut Case, b: &Built, what: &str, ctx: &str, panic_loc: Option<&str>) {
    let (spec, t) = (&b.spec, &b.t);
    let detail = format!("{ctx}: {what} [{} | {}]", spec.class, t.desc);
    if false {
    } else if let Some(loc) = panic_loc {
        case.violation(format!("panic@{}", loc.trim_start_matches("/repo/")), detail);
    } else {
        case.violation("reconstruct-err", detail);
    }
}

pub(crate) const ICC_RGB: [&[u8]; 5] = [
    include_bytes!("/repo/crates/jxl-color/src/icc/test-profiles/srgb-rel.icc"),
    include_bytes!("/repo/crates/jxl-color/src/icc/test-profiles/srgb-linear-rel.icc"),
    include_bytes!("/repo/crates/jxl-color/src/icc/test-profiles/srgb-gamma22-rel.icc"),
    include_bytes!("/repo/crates/jxl-color/src/icc/test-profiles/srgb-bt709-per.icc"),
    include_bytes!("/repo/crates/jxl-color/src/icc/test-profiles/prophoto-gamma18-rel.icc"),
];
pub(crate) const ICC_GRAY: [&[u8]; 2] = [
    include_bytes!("/repo/crates/jxl-color/src/icc/test-profiles/gray-d65-srgb-rel.icc"),
    include_bytes!("/repo/crates/jxl-color/src/icc/test-profiles/gray-d65-linear-rel.icc"),
];

fn gen_opts(rng: &mut Rng, thorough: bool, small: bool) -> JpegGenOpts {
    let mut o = JpegGenOpts {
        max_dim: if small { 64 } else if thorough { 600 } else { 300 },
        icc_rgb: ICC_RGB.iter().map(|p| p.to_vec()).collect(),
        icc_gray: ICC_GRAY.iter().map(|p| p.to_vec()).collect(),
        ..Default::default()
    };
    // classes that hit characterised decoder deviations are kept, but rare, so that most of the
    // budget exercises paths that can hold
    if !rng.chance(1, 10) {
        o.allow_qorder = false;
    }
    if !rng.chance(1, 6) {
        o.allow_partial_interleave = false;
        o.allow_noninterleaved_subsampled = false;
    }
    if !rng.chance(1, 5) {
        o.allow_pad_random = false;
    }
    o
}

fn check_valid(case: &mut Case, rng: &mut Rng, thorough: bool) {
    let eob = rng.chance(1, if thorough { 300 } else { 1500 }) || std::env::var("C17_EOB").is_ok();
    let mut o = gen_opts(rng, thorough, false);
    o.eob_long = eob;
    if rng.chance(1, if thorough { 150 } else { 2000 }) || std::env::var("C17_LF").is_ok() {
        o.size_class = Some(4);
    }
    let Some(b) = build(rng, &o) else {
        case.inconclusive("transcoder gave up");
        return;
    };
    let (spec, t) = (&b.spec, &b.t);
    let simple = rng.chance(1, 3);
    let file = wrap_transcoded(t, rng, simple);
    case.set_input(&file);
    case.sig(format!("v|{}", coarse(&spec.class)), true);
    case.sample(format!("{{\"mode\":\"valid\",\"jpeg\":{},\"jxl\":{},\"jpeg_bytes\":{},\"jxl_bytes\":{}}}", json_str(&spec.class), json_str(&t.desc), t.jpeg.len(), file.len()));
    let pool = if rng.chance(1, 5) { Pool::Rayon(3) } else { Pool::None };
    let image = match open_image(&file, pool, false) {
        Ok(i) => i,
        Err(e) => {
            case.violation("open-err", format!("valid transcoded file rejected: {e} [{} | {}]", spec.class, t.desc));
            return;
        }
    };
    match status(&image) {
        Ok(JpegReconstructionStatus::Available) => {}
        Ok(st) => {
            case.violation("status-complete", format!("status {st:?} for a complete file [{} | {}]", spec.class, t.desc));
            return;
        }
        Err((loc, msg)) => {
            case.violation(format!("panic@{}", loc.trim_start_matches("/repo/")), format!("jpeg_reconstruction_status panicked at {loc}: {msg} [{}]", spec.class));
            return;
        }
    }
    let render = |case: &mut Case| match guarded(|| image.render_frame(0).map(|_| ())) {
        Err((loc, msg)) => case.violation(format!("panic@{}", loc.trim_start_matches("/repo/")), format!("render_frame panicked at {loc}: {msg} [{} | {}]", spec.class, t.desc)),
        Ok(Err(e)) => case.violation("render-err", format!("render_frame failed: {e} [{} | {}]", spec.class, t.desc)),
        Ok(Ok(())) => case.obs("rendered_ok", 1),
    };
    let render_first = rng.bool();
    if render_first {
        render(case);
    }
    let mut panicked = false;
    match reconstruct(&image) {
        Err((loc, msg)) => {
            panicked = true;
            recon_failure(case, &b, &format!("reconstruct_jpeg panicked at {loc}: {msg}"), "read", Some(&loc))
        }
        Ok(Err(e)) => recon_failure(case, &b, &format!("reconstruct_jpeg failed: {e}"), "read", None),
        Ok(Ok(out)) => {
            if judge_output(case, &b, &out, "read") {
                case.obs("reconstructed_ok", 1);
                case.obs("jpeg_bytes", t.jpeg.len() as u64);
                if scan_geometry_class(spec) {
                    case.obs("scan_geometry_class_ok", 1);
                }
                if spec.scans.iter().any(|s| !s.extra_zero_runs.is_empty()) {
                    case.obs("with_extra_zero_runs", 1);
                }
                if spec.scans.iter().any(|s| !s.reset_points.is_empty()) {
                    case.obs("with_reset_points", 1);
                }
                if spec.restart_interval > 0 {
                    case.obs("with_restarts", 1);
                }
                if eob {
                    case.obs("eob_long_ok", 1);
                }
            }
        }
    }
    if !render_first && !panicked {
        render(case);
    }
}

enum Ox {
    U(jxl_oxide::UninitializedJxlImage),
    I(Box<JxlImage>),
    Gone,
}

/// Partial arrival: status after every chunk.
fn check_feed(case: &mut Case, rng: &mut Rng, thorough: bool) {
    let mut o = gen_opts(rng, thorough, true);
    // keep to classes where reconstruction can succeed, the subject here is the status protocol
    o.allow_qorder = false;
    o.allow_partial_interleave = false;
    o.allow_noninterleaved_subsampled = false;
    o.allow_subsampling = rng.chance(1, 2);
    o.allow_progressive = rng.chance(1, 2);
    if o.allow_subsampling {
        o.allow_progressive = false;
    }
    let Some(b) = build(rng, &o) else {
        case.inconclusive("transcoder gave up");
        return;
    };
    let (spec, t) = (&b.spec, &b.t);
    let with_jbrd = !rng.chance(1, 6);
    let mut boxes = vec![BoxSpec::ftyp()];
    let simple = rng.chance(1, 4);
    let tb = transcoded_boxes(t, &t.jbrd, rng, simple);
    boxes.extend(tb.into_iter().filter(|b| with_jbrd || b.ty != T_JBRD));
    let to_eof = rng.chance(1, 5);
    if to_eof {
        if let Some(l) = boxes.last_mut() {
            l.size_form = SizeForm::ToEof;
        }
    }
    let (file, spans) = write_container_spans(&Layout { prologue: Prologue::Container, boxes: boxes.clone() });
    case.set_input(&file);
    let order: String = boxes.iter().skip(1).map(|b| match &b.ty {
        x if *x == T_JBRD => 'j',
        x if *x == T_EXIF => 'e',
        x if *x == T_XML => 'x',
        x if *x == T_JXLC || *x == T_JXLP => 'c',
        _ => 'o',
    }).collect();
    let mut order_c = String::new();
    for ch in order.chars() {
        if !order_c.ends_with(ch) {
            order_c.push(ch);
        }
    }
    let jpos = match (order.find('j'), order.find('c'), order.rfind('c')) {
        (Some(j), Some(c0), _) if j < c0 => "jb",
        (Some(j), _, Some(c1)) if j > c1 => "ja",
        (Some(_), _, _) => "jm",
        _ => "nojbrd",
    };
    case.sig(
        format!("f|{jpos}|{}{}{}|{}", if order.contains('e') { "e" } else { "" }, if order.contains('x') { "x" } else { "" }, if to_eof { "Z" } else { "" }, spec.class.split('|').take(3).collect::<Vec<_>>().join("|")),
        true,
    );
    case.sample(format!("{{\"mode\":\"feed\",\"jpeg\":{},\"boxes\":{},\"jbrd\":{}}}", json_str(&spec.class), json_str(&order), with_jbrd));
    let n = file.len();
    // where things are complete (spans are parallel to `boxes`, shifted by the signature box)
    let end_of = |ty: &BoxType| -> Option<usize> { boxes.iter().zip(&spans).filter(|(b, _)| b.ty == *ty).map(|(_, s)| s.end).next() };
    let jbrd_span = boxes.iter().zip(&spans).find(|(b, _)| b.ty == T_JBRD).map(|(_, s)| s.clone());
    let jbrd_end = jbrd_span.as_ref().map(|s| s.end);
    let need_exif = t.exif_box.is_some();
    let need_xml = t.xml_box.is_some();
    let exif_end = end_of(&T_EXIF);
    let xml_end = end_of(&T_XML);
    let cs_end = boxes.iter().zip(&spans).filter(|(b, _)| b.is_codestream()).map(|(_, s)| s.end).max().unwrap_or(n);
    // cut points
    let mut cuts: Vec<usize> = Vec::new();
    let k = rng.urange(2, 14);
    for _ in 0..k {
        cuts.push(rng.urange(1, n));
    }
    for s in &spans {
        if rng.chance(1, 2) {
            cuts.push(s.end);
        }
        if rng.chance(1, 3) {
            cuts.push(s.end.saturating_sub(1).max(1));
        }
        if rng.chance(1, 3) {
            cuts.push(s.payload.min(n));
        }
    }
    if let Some(s) = &jbrd_span {
        // inside the jbrd box: around the end of the header bundle
        let hdr = {
            let mut bw = jxlgen::bits::BitWriter::new();
            t.jbrd_header.write(&mut bw);
            bw.finish().len()
        };
        for d in [hdr.saturating_sub(1), hdr, hdr + 1, (hdr + (s.end - s.payload)) / 2] {
            if rng.chance(2, 3) {
                cuts.push((s.payload + d).min(s.end));
            }
        }
        cuts.push(s.end.saturating_sub(1));
        cuts.push(s.end);
    }
    cuts.push(n);
    cuts.sort();
    cuts.dedup();
    let mut st = Ox::U(JxlImage::builder().pool(JxlThreadPool::none()).build_uninit());
    let mut base = 0usize;
    let mut recon_budget = 3;
    let mut seen_available_early = false;
    for &end in &cuts {
        let end = end.min(n).max(base);
        let buf = &file[base..end];
        let r = match &mut st {
            Ox::U(u) => guarded(|| u.feed_bytes(buf)),
            Ox::I(i) => guarded(|| i.feed_bytes(buf)),
            Ox::Gone => break,
        };
        let c = match r {
            Ok(Ok(c)) => c.min(buf.len()),
            Ok(Err(e)) => {
                case.violation("feed-err", format!("feed_bytes failed on a valid file with {end} of {n} bytes: {e} [{} | {}]", spec.class, order));
                return;
            }
            Err((loc, msg)) => {
                case.violation(format!("panic@{}", loc.trim_start_matches("/repo/")), format!("feed_bytes panicked at {loc}: {msg} with {end} of {n} bytes [{}]", spec.class));
                return;
            }
        };
        base += c;
        st = match std::mem::replace(&mut st, Ox::Gone) {
            Ox::U(u) => match u.try_init() {
                Ok(InitializeResult::NeedMoreData(u)) => Ox::U(u),
                Ok(InitializeResult::Initialized(i)) => Ox::I(Box::new(i)),
                Err(e) => {
                    case.violation("init-err", format!("try_init failed with {end} of {n} bytes: {e} [{}]", spec.class));
                    return;
                }
            },
            other => other,
        };
        let Ox::I(image) = &st else { continue };
        let s = match status(image) {
            Ok(s) => s,
            Err((loc, msg)) => {
                case.violation(format!("panic@{}", loc.trim_start_matches("/repo/")), format!("jpeg_reconstruction_status panicked at {loc}: {msg} with {end} of {n} bytes [{} | {}]", spec.class, order));
                return;
            }
        };
        case.obs("status_samples", 1);
        case.obs_set("status_seen", format!("{s:?}"));
        let at_end = end == n;
        // what has arrived completely (a box is complete when its last byte is in)
        let jbrd_done = jbrd_end.is_some_and(|e| end >= e);
        let exif_done = !need_exif || exif_end.is_some_and(|e| end >= e);
        let xml_done = !need_xml || xml_end.is_some_and(|e| end >= e);
        let where_ = format!("{end} of {n} bytes (jbrd {:?}, exif {:?}, xml {:?}, codestream end {cs_end}) boxes {order}", jbrd_span.as_ref().map(|s| (s.start, s.end)), exif_end, xml_end);
        match s {
            JpegReconstructionStatus::Available => {
                if !with_jbrd {
                    case.violation("status-available-nojbrd", format!("Available without a jbrd box at {where_} [{}]", spec.class));
                    return;
                }
                let early = !(jbrd_done && exif_done && xml_done);
                if early && !seen_available_early {
                    seen_available_early = true;
                    let what = if !jbrd_done { "jbrd" } else if !exif_done { "exif" } else { "xml" };
                    case.violation(format!("dev:status-available-early-{what}"), format!("Available although the {what} box is incomplete at {where_} [{}]", spec.class));
                }
                if recon_budget > 0 && (early || rng.chance(1, 3) || at_end) {
                    recon_budget -= 1;
                    match reconstruct(image) {
                        Err((loc, msg)) => {
                            if early {
                                case.violation("dev:reconstruct-early-panic", format!("reconstruct_jpeg panicked at {loc}: {msg} while status said Available at {where_} [{}]", spec.class));
                            } else {
                                case.violation(format!("panic@{}", loc.trim_start_matches("/repo/")), format!("reconstruct_jpeg panicked at {loc}: {msg} at {where_} [{}]", spec.class));
                            }
                            return;
                        }
                        Ok(Err(e)) => {
                            case.obs("reconstruct_clean_errors", 1);
                            if end >= cs_end && !early && !scan_geometry_class(spec) {
                                case.violation("reconstruct-err-complete", format!("everything needed has arrived but reconstruct_jpeg fails: {e} at {where_} [{}]", spec.class));
                                return;
                            }
                        }
                        Ok(Ok(out)) => {
                            if early && out != t.jpeg {
                                let p = first_diff(&out, &t.jpeg);
                                case.violation("dev:reconstruct-early-wrong-output", format!("reconstruct_jpeg returned Ok with {} bytes differing from the original ({} bytes) at {p} while the jbrd box was incomplete at {where_} [{}]", out.len(), t.jpeg.len(), spec.class));
                                return;
                            }
                            if !judge_output(case, &b, &out, &format!("feed at {where_}")) {
                                return;
                            }
                            case.obs("reconstructed_ok", 1);
                        }
                    }
                }
            }
            JpegReconstructionStatus::Unavailable => {
                // "result will not change": only legitimate when no later box can exist
                if with_jbrd {
                    case.violation("status-unavailable", format!("Unavailable for a file that has a jbrd box at {where_} [{}]", spec.class));
                    return;
                }
            }
            JpegReconstructionStatus::Invalid => {
                case.violation("status-invalid", format!("Invalid for a prefix of a valid file at {where_} [{}]", spec.class));
                return;
            }
            JpegReconstructionStatus::NeedMoreData => {
                if at_end && with_jbrd && to_eof {
                    // the last box runs to EOF: nothing more can be said before finalize()
                }
            }
        }
    }
    let Ox::I(mut image) = st else {
        case.violation("no-init", format!("image did not initialise from the complete file [{}]", spec.class));
        return;
    };
    if let Err(e) = image.finalize() {
        case.violation("finalize-err", format!("finalize failed on a valid file: {e} [{} | {}]", spec.class, order));
        return;
    }
    match status(&image) {
        Ok(JpegReconstructionStatus::Available) if with_jbrd => {}
        Ok(JpegReconstructionStatus::Unavailable) if !with_jbrd => {
            match reconstruct(&image) {
                Ok(Err(_)) => case.obs("nojbrd_clean", 1),
                Ok(Ok(_)) => case.violation("nojbrd-reconstructs", format!("reconstruct_jpeg succeeded without jbrd [{}]", spec.class)),
                Err((loc, msg)) => case.violation(format!("panic@{}", loc.trim_start_matches("/repo/")), format!("reconstruct_jpeg without jbrd panicked at {loc}: {msg}")),
            }
            return;
        }
        Ok(s) => {
            case.violation("status-final", format!("status {s:?} after the complete file and finalize(), jbrd present: {with_jbrd} [{} | {}]", spec.class, order));
            return;
        }
        Err((loc, msg)) => {
            case.violation(format!("panic@{}", loc.trim_start_matches("/repo/")), format!("status panicked at {loc}: {msg}"));
            return;
        }
    }
    match reconstruct(&image) {
        Err((loc, msg)) => recon_failure(case, &b, &format!("reconstruct_jpeg panicked at {loc}: {msg}"), "feed-final", Some(&loc)),
        Ok(Err(e)) => recon_failure(case, &b, &format!("reconstruct_jpeg failed: {e}"), "feed-final", None),
        Ok(Ok(out)) => {
            if judge_output(case, &b, &out, "feed-final") {
                case.obs("reconstructed_ok", 1);
                case.obs("feed_complete_ok", 1);
            }
        }
    }
}

const HOSTILE_KINDS: &[&str] = &[
    "icc-len-small",
    "exif-len-small",
    "xmp-len-small",
    "huff-no-symbols",
    "huff-only-sentinel",
    "huff-len0-codes",
    "huff-overfull",
    "huff-no-is-last",
    "quant-no-is-last",
    "comp-idx-range",
    "scan-4-comps",
    "extra-dht-marker",
    "extra-dqt-marker",
    "extra-sos-less-info",
    "band-reversed",
    "band-seq",
    "unknown-marker",
    "no-sof",
    "sos-before-dht",
    "q-idx-missing",
    "comp-count",
    "is-gray-flip",
    "padding-short",
    "data-len-mismatch",
    "brotli-truncated",
    "brotli-garbage",
    "header-truncated",
    "typed-without-box",
    "icc-len-mismatch",
    "ezr-huge",
    "reset-huge",
    "restart-1",
    "swap-frame",
    "app-count-mismatch",
    "al-large",
    "eoi-early",
];

/// Hostile reconstruction data around a valid codestream: Err (or garbage) but never a panic.
fn check_hostile(case: &mut Case, rng: &mut Rng, thorough: bool) {
    let mut o = gen_opts(rng, thorough, true);
    o.allow_qorder = false;
    o.allow_partial_interleave = false;
    o.allow_noninterleaved_subsampled = false;
    o.allow_subsampling = rng.chance(1, 3);
    let Some(b) = build(rng, &o) else {
        case.inconclusive("transcoder gave up");
        return;
    };
    let (spec, t) = (&b.spec, &b.t);
    let kind = *rng.pick(HOSTILE_KINDS);
    let mut h = t.jbrd_header.clone();
    let mut data = t.jbrd_data.clone();
    let mut raw_override: Option<Vec<u8>> = None;
    let mut other: Option<Built> = None;
    let mut drop_aux = false;
    let mut applied = true;
    let pick_scan = |rng: &mut Rng, h: &JbrdHeader| rng.below(h.scans.len().max(1) as u64) as usize;
    match kind {
        "icc-len-small" | "exif-len-small" | "xmp-len-small" => {
            let (ty, lim) = match kind {
                "icc-len-small" => (1u32, 17u32),
                "exif-len-small" => (2, 9),
                _ => (3, 32),
            };
            let len = rng.range(1, lim as i64 - 1) as u32;
            // retype an existing segment or add one
            if let Some(a) = h.app.iter_mut().find(|a| a.0 == ty) {
                a.1 = len;
            } else if let Some(p) = h.app.iter().position(|a| a.0 == 0) {
                // the raw bytes of that segment leave the data section
                let off: usize = h.app[..p].iter().filter(|a| a.0 == 0).map(|a| a.1 as usize).sum();
                let l = h.app[p].1 as usize;
                data.drain(off..(off + l).min(data.len()));
                h.app[p] = (ty, len);
            } else {
                h.markers.insert(0, if ty == 1 { 0xe2 } else { 0xe1 });
                h.app.insert(0, (ty, len));
            }
        }
        "huff-no-symbols" => {
            let i = rng.below(h.huff.len() as u64) as usize;
            h.huff[i].counts = [0; 17];
            h.huff[i].values.clear();
        }
        "huff-only-sentinel" => {
            let i = rng.below(h.huff.len() as u64) as usize;
            h.huff[i].counts = [0; 17];
            h.huff[i].counts[rng.urange(1, 16)] = 1;
            h.huff[i].values = vec![256];
        }
        "huff-len0-codes" => {
            let i = rng.below(h.huff.len() as u64) as usize;
            h.huff[i].counts[0] = rng.range(1, 3) as u32;
            for _ in 0..h.huff[i].counts[0] {
                h.huff[i].values.insert(0, rng.below(256) as u32);
            }
        }
        "huff-overfull" => {
            // far more codes than a prefix code of these lengths can hold
            let i = rng.below(h.huff.len() as u64) as usize;
            h.huff[i].counts = [0; 17];
            h.huff[i].counts[1] = 200;
            h.huff[i].counts[2] = 57;
            h.huff[i].values = (0..257).collect();
        }
        "huff-no-is-last" => {
            for x in h.huff.iter_mut() {
                x.is_last = false;
            }
        }
        "quant-no-is-last" => {
            for x in h.quant.iter_mut() {
                x.2 = false;
            }
        }
        "comp-idx-range" => {
            let i = pick_scan(rng, &h);
            if let Some(c) = h.scans[i].comps.first_mut() {
                c.0 = if h.comp_ids.len() == 1 { rng.range(1, 3) as u8 } else { 3 };
            }
        }
        "scan-4-comps" => {
            let i = pick_scan(rng, &h);
            let s = &mut h.scans[i];
            while s.comps.len() < 4 {
                let k = s.comps.len() as u8;
                s.comps.push((k, 0, 0));
            }
        }
        "extra-dht-marker" => {
            let p = h.markers.len() - 1;
            h.markers.insert(p, 0xc4);
        }
        "extra-dqt-marker" => {
            let p = h.markers.len() - 1;
            h.markers.insert(p, 0xdb);
        }
        "extra-sos-less-info" => {
            // one more SOS marker: the header then carries one more (arbitrary) scan info
            let p = h.markers.len() - 1;
            h.markers.insert(p, 0xda);
            let mut s = h.scans[0].clone();
            s.reset_points.clear();
            s.extra_zero_runs.clear();
            h.scans.push(s);
        }
        "band-reversed" => {
            let i = pick_scan(rng, &h);
            h.scans[i].ss = rng.range(2, 63) as u8;
            h.scans[i].se = rng.range(0, h.scans[i].ss as i64 - 2) as u8;
            // progressive interpretation
            for m in h.markers.iter_mut() {
                if matches!(*m, 0xc0 | 0xc1) {
                    *m = 0xc2;
                }
            }
        }
        "band-seq" => {
            let i = pick_scan(rng, &h);
            h.scans[i].ss = rng.below(64) as u8;
            h.scans[i].se = rng.below(64) as u8;
            h.scans[i].ah = rng.below(16) as u8;
            h.scans[i].al = rng.below(16) as u8;
        }
        "unknown-marker" => {
            let m = *rng.pick(&[0xc3u8, 0xc5, 0xc8, 0xcc, 0xd8, 0xdc, 0xde, 0xdf, 0xf0, 0xfd, 0xd0, 0xd7]);
            let p = rng.below(h.markers.len() as u64) as usize;
            h.markers.insert(p, m);
        }
        "no-sof" => h.markers.retain(|m| !matches!(*m, 0xc0 | 0xc1 | 0xc2)),
        "sos-before-dht" => {
            h.markers.retain(|m| *m != 0xc4);
            let p = h.markers.len() - 1;
            for _ in 0..h.huff.iter().filter(|x| x.is_last).count() {
                h.markers.insert(p, 0xc4);
            }
        }
        "q-idx-missing" => {
            for q in h.comp_q.iter_mut() {
                *q = 3;
            }
            if h.quant.len() == 4 {
                h.quant.truncate(3);
                if let Some(l) = h.quant.last_mut() {
                    l.2 = true;
                }
            }
            for q in h.quant.iter_mut() {
                if q.1 == 3 {
                    q.1 = 0;
                }
            }
        }
        "comp-count" => {
            h.comp_type = 3;
            let n = *rng.pick(&[2usize, 4, if h.comp_ids.len() == 1 { 3 } else { 1 }]);
            h.comp_ids = (0..n as u8).collect();
            h.comp_q = vec![0; n];
        }
        "is-gray-flip" => h.is_gray = !h.is_gray,
        "padding-short" => {
            h.padding = Some(vec![rng.below(2) as u8; rng.urange(0, 2)]);
        }
        "data-len-mismatch" => {
            if rng.bool() || data.is_empty() {
                data.extend_from_slice(&[1, 2, 3]);
            } else {
                data.pop();
            }
        }
        "brotli-truncated" | "brotli-garbage" | "header-truncated" => {
            let full = write_jbrd_parts(&h, &data, &JbrdOpts::default(), None);
            let hdr = {
                let mut bw = jxlgen::bits::BitWriter::new();
                h.write(&mut bw);
                bw.finish().len()
            };
            let mut v = full.clone();
            match kind {
                "brotli-truncated" => v.truncate(rng.urange(hdr, full.len().saturating_sub(1).max(hdr))),
                "brotli-garbage" => {
                    v.truncate(hdr);
                    let k = rng.urange(1, 40);
                    v.extend(random_bytes(rng, k));
                }
                _ => v.truncate(rng.urange(0, hdr.saturating_sub(1))),
            }
            raw_override = Some(v);
        }
        "typed-without-box" => {
            if t.exif_box.is_none() && t.xml_box.is_none() {
                applied = false;
            }
            drop_aux = true;
        }
        "icc-len-mismatch" => {
            if let Some(a) = h.app.iter_mut().find(|a| a.0 == 1) {
                a.1 = (a.1 as i64 + *rng.pick(&[-1i64, 1, 100])).clamp(18, 65536) as u32;
            } else {
                // claims an ICC profile the codestream does not have
                h.markers.insert(0, 0xe2);
                h.app.insert(0, (1, rng.range(18, 400) as u32));
            }
        }
        "ezr-huge" => {
            let i = pick_scan(rng, &h);
            h.scans[i].extra_zero_runs = vec![(0, 275), (1, 275), (rng.range(2, 200) as u32, rng.range(1, 275) as u32)];
        }
        "reset-huge" => {
            let i = pick_scan(rng, &h);
            h.scans[i].reset_points = vec![0, 1, 2, 3 << 26];
        }
        "restart-1" => {
            if !h.markers.contains(&0xdd) {
                let p = h.markers.iter().position(|m| *m == 0xda).unwrap_or(0);
                h.markers.insert(p, 0xdd);
            }
            h.restart_interval = *rng.pick(&[1u32, 2, 65535]);
            h.padding = Some(vec![]);
        }
        "swap-frame" => {
            // reconstruction data of one image attached to the codestream of another
            let mut o2 = gen_opts(rng, thorough, true);
            o2.allow_qorder = false;
            o2.allow_noninterleaved_subsampled = false;
            other = build(rng, &o2);
            if other.is_none() {
                applied = false;
            }
        }
        "app-count-mismatch" => {
            // an APP marker in the list the data section has no bytes for is impossible (counts are
            // derived); instead make a raw segment longer than the data available
            if let Some(a) = h.app.iter_mut().find(|a| a.0 == 0) {
                a.1 = 65536;
            } else {
                h.markers.insert(0, 0xe5);
                h.app.insert(0, (0, 65536));
            }
        }
        "al-large" => {
            for s in h.scans.iter_mut() {
                s.al = 15;
            }
            for m in h.markers.iter_mut() {
                if matches!(*m, 0xc0 | 0xc1) {
                    *m = 0xc2;
                }
            }
        }
        "eoi-early" => {
            let p = rng.below(h.markers.len() as u64) as usize;
            h.markers.truncate(p);
            h.markers.push(0xd9);
            let ns = h.markers.iter().filter(|m| **m == 0xda).count();
            h.scans.truncate(ns);
            let na = h.markers.iter().filter(|m| (0xe0..=0xef).contains(*m)).count();
            h.app.truncate(na);
            let nc = h.markers.iter().filter(|m| **m == 0xfe).count();
            h.com.truncate(nc);
            let ni = h.markers.iter().filter(|m| **m == 0xff).count();
            h.intermarker.truncate(ni);
        }
        _ => applied = false,
    }
    if !h.representable() && raw_override.is_none() {
        applied = false;
    }
    let payload = match raw_override {
        Some(v) => v,
        None => write_jbrd_parts(&h, &data, &JbrdOpts::default(), None),
    };
    let carrier: &Transcoded = match &other {
        Some(o) => &o.t,
        None => t,
    };
    let mut boxes = vec![BoxSpec::ftyp()];
    let simple = rng.chance(1, 2);
    boxes.extend(transcoded_boxes(carrier, &payload, rng, simple).into_iter().filter(|b| !(drop_aux && (b.ty == T_EXIF || b.ty == T_XML))));
    let file = write_container(&Layout { prologue: Prologue::Container, boxes });
    case.set_input(&file);
    case.sig(format!("h|{kind}|{}", spec.class.split('|').take(3).collect::<Vec<_>>().join("|")), applied);
    case.sample(format!("{{\"mode\":\"hostile\",\"kind\":{},\"jpeg\":{}}}", json_str(kind), json_str(&spec.class)));
    if !applied {
        case.inconclusive("hostile mutation not applicable");
        return;
    }
    case.obs_set("hostile_kinds", kind);
    let image = match guarded(|| open_image(&file, Pool::None, false)) {
        Ok(Ok(i)) => i,
        Ok(Err(_)) => {
            case.obs("hostile_rejected_at_open", 1);
            return;
        }
        Err((loc, msg)) => {
            case.violation(format!("hostile-panic@{}", loc.trim_start_matches("/repo/")), format!("opening a file with hostile jbrd ({kind}) panicked at {loc}: {msg} [{}]", spec.class));
            return;
        }
    };
    match status(&image) {
        Ok(s) => case.obs_set("hostile_status", format!("{s:?}")),
        Err((loc, msg)) => {
            case.violation(format!("hostile-panic@{}", loc.trim_start_matches("/repo/")), format!("jpeg_reconstruction_status panicked at {loc}: {msg} for hostile jbrd ({kind}) [{}]", spec.class));
            return;
        }
    }
    match reconstruct(&image) {
        Ok(Ok(_)) => case.obs("hostile_reconstructed_something", 1),
        Ok(Err(_)) => case.obs("hostile_clean_error", 1),
        Err((loc, msg)) => {
            case.violation(format!("hostile-panic@{}", loc.trim_start_matches("/repo/")), format!("reconstruct_jpeg panicked at {loc}: {msg} for hostile jbrd ({kind}) [{}]", spec.class));
        }
    }
}

pub fn run(args: &Args) -> i32 {
    let thorough = args.thorough();
    let only = args.extra.get("mode").cloned();
    run_cases(args, 0xC17, |case| {
        let mut rng = case.rng.fork();
        let m = match only.as_deref() {
            Some("valid") => 0,
            Some("feed") => 60,
            Some("hostile") => 85,
            _ => rng.below(100),
        };
        match m {
            0..=54 => check_valid(case, &mut rng, thorough),
            55..=79 => check_feed(case, &mut rng, thorough),
            _ => check_hostile(case, &mut rng, thorough),
        }
    })
}

/// A valid VarDCT image (transcoded random JPEG, optionally with a valid embedded ICC profile) for
/// the checkers whose oracle compares the decoder with itself (C06, C07).
pub(crate) fn valid_vardct_image(rng: &mut Rng, max_dim: u32) -> Option<(Vec<u8>, JpegSpec)> {
    let rgb: Vec<Vec<u8>> = ICC_RGB.iter().map(|p| p.to_vec()).collect();
    let gray: Vec<Vec<u8>> = ICC_GRAY.iter().map(|p| p.to_vec()).collect();
    jxlgen::vardct::random_vardct_jpeg_image_with(rng, max_dim, &rgb, &gray)
}
