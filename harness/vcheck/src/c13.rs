//! C13: resource accounting - limit respected, exhaustion is an error, nothing leaks.
//!
//! Monitor: hook H1 shadow accounting (outstanding bytes vs. total limit, updated in the same
//! call as the budget) + public shrink_limit/expand_limit probe at quiescence.

use crate::common::*;
use crate::dec::{make_pool, Pool};
use jxl_grid::AllocTracker;
use jxl_oxide::{CropInfo, JxlImage};

fn mutate(rng: &mut jxlgen::rng::Rng, b: &mut Vec<u8>) {
    if b.is_empty() {
        return;
    }
    for _ in 0..rng.urange(1, 6) {
        match rng.below(4) {
            0 => {
                let i = rng.below(b.len() as u64) as usize;
                b[i] ^= 1 << rng.below(8);
            }
            1 => {
                let i = rng.below(b.len() as u64) as usize;
                b[i] = rng.next_u32() as u8;
            }
            2 => {
                let n = rng.urange(b.len() / 2, b.len());
                b.truncate(n.max(1));
            }
            _ => {
                let i = rng.below(b.len() as u64) as usize;
                b.insert(i, rng.next_u32() as u8);
            }
        }
    }
}

/// Run one image under the tracker; returns (outcome class, number of Ok renders)
fn run_image(rng: &mut jxlgen::rng::Rng, bytes: &[u8], tracker: &AllocTracker, pool: Pool) -> (String, u32) {
    let image = JxlImage::builder().pool(make_pool(pool)).alloc_tracker(tracker.clone()).read(std::io::Cursor::new(bytes));
    let mut image = match image {
        Ok(i) => i,
        Err(_) => return ("read-err".into(), 0),
    };
    let mut ok = 0;
    let mut err = 0;
    let nk = image.num_loaded_keyframes();
    let steps = rng.urange(1, 5);
    for _ in 0..steps {
        match rng.below(5) {
            0 | 1 | 2 => {
                if nk > 0 {
                    let k = rng.below(nk as u64) as usize;
                    match image.render_frame(k) {
                        Ok(r) => {
                            // touch the output paths too
                            if rng.bool() {
                                let _ = r.image_all_channels();
                            }
                            ok += 1;
                        }
                        Err(_) => err += 1,
                    }
                }
            }
            3 => {
                let (w, h) = (image.width().max(1), image.height().max(1));
                let l = rng.below(w as u64) as u32;
                let t = rng.below(h as u64) as u32;
                image.set_image_region(CropInfo { left: l, top: t, width: rng.u32range(1, w - l), height: rng.u32range(1, h - t) });
            }
            _ => match image.render_loading_frame() {
                Ok(_) => ok += 1,
                Err(_) => err += 1,
            },
        }
    }
    drop(image);
    (format!("ok{}err{}", ok.min(1), err.min(1)), ok)
}

pub fn run(args: &Args) -> i32 {
    run_cases(args, 0xC13, |case| {
        let mut rng = case.rng.fork();
        let chain = if rng.chance(1, 20) { rng.urange(20, 120) } else { rng.urange(1, 4) };
        let pool = if rng.chance(1, 4) { Pool::Rayon(3) } else { Pool::None };
        // limit class
        let (limit, lclass): (usize, &str) = match rng.below(7) {
            0 => (0, "zero"),
            1 => (1, "one"),
            2 => (rng.below(4096) as usize, "tiny"),
            3 => (rng.bits_loguniform(20) as usize, "small"),
            4 => (rng.bits_loguniform(26) as usize, "medium"),
            5 => (128 << 20, "fuzz-harness"),
            _ => (1 << 40, "ample"),
        };
        let tracker = AllocTracker::with_limit(limit);
        let mut outcomes = std::collections::BTreeSet::new();
        let mut total_ok = 0;
        let mut first_bytes: Option<Vec<u8>> = None;
        let mut kinds = std::collections::BTreeSet::new();
        for step in 0..chain {
            let (mut bytes, kind) = if rng.chance(2, 3) {
                let opts = jxlgen::imggen::ImgOpts { size_class: *rng.pick(&[0u32, 1, 1, 2]), max_dim: 200, max_extra: 2, ..Default::default() };
                match jxlgen::imggen::gen_modular_image(&mut rng, &opts) {
                    Some(i) => (i.bytes, "single"),
                    None => continue,
                }
            } else {
                let opts = jxlgen::anim::AnimOpts { max_frames: 5, max_dim: 32, ..Default::default() };
                match jxlgen::anim::gen_animation(&mut rng, &opts) {
                    Some(a) => (a.bytes, "anim"),
                    None => continue,
                }
            };
            let hostile = rng.chance(1, 4);
            if hostile {
                mutate(&mut rng, &mut bytes);
            }
            kinds.insert(format!("{kind}{}", if hostile { "-mutated" } else { "" }));
            if first_bytes.is_none() {
                first_bytes = Some(bytes.clone());
                case.set_input(&bytes);
            }
            // occasionally move the limit between images of a chain
            if step > 0 && rng.chance(1, 6) {
                if rng.bool() {
                    tracker.expand_limit(rng.below(1 << 16) as usize);
                } else {
                    let _ = tracker.shrink_limit(rng.below(1 << 12) as usize);
                }
            }
            let (o, ok) = run_image(&mut rng, &bytes, &tracker, pool);
            outcomes.insert(o);
            total_ok += ok;
            // quiescence: everything dropped (rayon background renders may still hold handles
            // for a moment: wait for them logically by polling the shadow counter briefly)
            let mut outstanding = tracker.verif_outstanding();
            if outstanding != 0 && pool != Pool::None {
                let t0 = std::time::Instant::now();
                while outstanding != 0 && t0.elapsed().as_secs_f64() < 5.0 {
                    std::thread::sleep(std::time::Duration::from_millis(1));
                    outstanding = tracker.verif_outstanding();
                }
            }
            if outstanding != 0 {
                case.set_input(&bytes);
                case.violation("leak", format!("{outstanding} tracked bytes still outstanding after dropping image {step} of the chain (limit class {lclass}, pool {pool:?})"));
                return;
            }
            let total = tracker.verif_limit_total();
            if tracker.verif_bytes_left() != total {
                case.set_input(&bytes);
                case.violation("budget-not-restored", format!("bytes_left {} != limit {} after dropping image {step}", tracker.verif_bytes_left(), total));
                return;
            }
            // public API probe: the whole budget can be taken out and put back
            if tracker.shrink_limit(total).is_err() {
                case.violation("shrink-failed", format!("shrink_limit({total}) failed although nothing is allocated"));
                return;
            }
            tracker.expand_limit(total);
            if tracker.verif_limit_violations() != 0 {
                case.set_input(&bytes);
                case.violation("limit-exceeded", format!("tracked total exceeded the limit {} time(s) (limit class {lclass})", tracker.verif_limit_violations()));
                return;
            }
            case.obs("images_run", 1);
        }
        case.obs("alloc_calls", tracker.verif_alloc_count() as u64);
        case.obs("ok_renders", total_ok as u64);
        case.sig(
            format!("{lclass}|{}|{}|{:?}|{}", kinds.iter().cloned().collect::<Vec<_>>().join("+"), outcomes.iter().cloned().collect::<Vec<_>>().join("+"), pool, if chain >= 20 { "long-chain" } else { "short" }),
            tracker.verif_alloc_count() > 0,
        );
        case.sample(format!("{{\"limit\":{limit},\"limit_class\":\"{lclass}\",\"chain\":{chain},\"pool\":\"{pool:?}\",\"alloc_calls\":{},\"outcomes\":{}}}", tracker.verif_alloc_count(), json_str(&outcomes.iter().cloned().collect::<Vec<_>>().join(","))));
    })
}
