//! C13: resource accounting - limit respected, exhaustion is an error, nothing leaks.
//!
//! Monitor: hook H1 shadow accounting (outstanding bytes vs. total limit, updated in the same
//! call as the budget) + public shrink_limit/expand_limit probe at quiescence.

use crate::common::*;
use crate::dec::{make_pool, Pool};
use jxl_grid::AllocTracker;
use jxl_oxide::{CropInfo, JxlImage};

fn mutate(rng: &mut jxlgen::rng::Rng, b: &mut Vec<u8>) {
    if b.is_empty() {
        return;
    }
    for _ in 0..rng.urange(1, 6) {
        match rng.below(4) {
            0 => {
                let i = rng.below(b.len() as u64) as usize;
                b[i] ^= 1 << rng.below(8);
            }
            1 => {
                let i = rng.below(b.len() as u64) as usize;
                b[i] = rng.next_u32() as u8;
            }
            2 => {
                let n = rng.urange(b.len() / 2, b.len());
                b.truncate(n.max(1));
            }
            _ => {
                let i = rng.below(b.len() as u64) as usize;
                b.insert(i, rng.next_u32() as u8);
            }
        }
    }
}

/// Run one image under the tracker; returns (outcome class, number of Ok renders)
fn run_image(rng: &mut jxlgen::rng::Rng, bytes: &[u8], tracker: &AllocTracker, pool: Pool, swallowed: &mut Option<String>, tolerated: &mut u64) -> (String, u32) {
    let mut cur_region: Option<CropInfo> = None;
    // Refusal monitor (hook H1 counts refused allocations): without a thread pool everything a call
    // allocates is allocated inside that call, so a call during which an allocation was refused must
    // return the error.
    let single = pool == Pool::None;
    let r0 = tracker.verif_refused();
    let image = JxlImage::builder().pool(make_pool(pool)).alloc_tracker(tracker.clone()).read(std::io::Cursor::new(bytes));
    let mut image = match image {
        Ok(i) => i,
        Err(_) => return ("read-err".into(), 0),
    };
    if single && tracker.verif_refused() != r0 {
        // read() keeps what it could load (a frame it could not buffer stays unloaded): counted, the
        // renders below are what is judged
        *tolerated += 1;
    }
    let mut ok = 0;
    let mut err = 0;
    let nk = image.num_loaded_keyframes();
    let steps = rng.urange(1, 5);
    for _ in 0..steps {
        match rng.below(5) {
            0 | 1 | 2 => {
                if nk > 0 {
                    let k = rng.below(nk as u64) as usize;
                    let r0 = tracker.verif_refused();
                    match image.render_frame(k) {
                        Ok(r) => {
                            if single && tracker.verif_refused() != r0 && swallowed.is_none() {
                                // The call went on after a refusal. Falling back to a cheaper path is
                                // legitimate; returning Ok with samples that lack what the refused
                                // memory was for is not: compare with a decode without a limit.
                                *tolerated += 1;
                                let got: Vec<Vec<u32>> = r.image_planar().iter().map(|fb| fb.buf().iter().map(|v| v.to_bits()).collect()).collect();
                                let reference = (|| -> Option<Vec<Vec<u32>>> {
                                    let mut img = JxlImage::builder().pool(make_pool(Pool::None)).read(std::io::Cursor::new(bytes)).ok()?;
                                    if let Some(c) = cur_region {
                                        img.set_image_region(c);
                                    }
                                    let rr = img.render_frame(k).ok()?;
                                    Some(rr.image_planar().iter().map(|fb| fb.buf().iter().map(|v| v.to_bits()).collect()).collect())
                                })();
                                match reference {
                                    Some(want) if want != got => {
                                        *swallowed = Some(format!(
                                            "render_frame({k}) returned Ok although {} allocation(s) were refused during the call, and its samples differ from a decode without a limit (region {cur_region:?})",
                                            tracker.verif_refused() - r0
                                        ));
                                    }
                                    _ => {}
                                }
                            }
                            // touch the output paths too
                            if rng.bool() {
                                let _ = r.image_all_channels();
                            }
                            ok += 1;
                        }
                        Err(_) => err += 1,
                    }
                }
            }
            3 => {
                let (w, h) = (image.width().max(1), image.height().max(1));
                let l = rng.below(w as u64) as u32;
                let t = rng.below(h as u64) as u32;
                let c = CropInfo { left: l, top: t, width: rng.u32range(1, w - l), height: rng.u32range(1, h - t) };
                if std::env::var("C13_TRACE").is_ok() {
                    eprintln!("set_image_region {c:?} on {w}x{h}");
                }
                cur_region = Some(c);
                image.set_image_region(c);
            }
            _ => match image.render_loading_frame() {
                Ok(_) => ok += 1,
                Err(_) => err += 1,
            },
        }
    }
    drop(image);
    (format!("ok{}err{}", ok.min(1), err.min(1)), ok)
}

/// Concurrent clients on one tracker at exhaustion: the tracker's own contract (never hand out more
/// than the limit, everything back after the drops), observed by hook H1's shadow accounting, which is
/// updated in the same call as the budget.
fn tracker_stress(case: &mut Case, rng: &mut jxlgen::rng::Rng) {
    let threads = rng.urange(2, 8);
    let limit = *rng.pick(&[1usize, 64, 1000, 4096, 100_000]);
    let tracker = AllocTracker::with_limit(limit);
    let iters = 20_000usize;
    let granted = std::sync::Arc::new(std::sync::atomic::AtomicUsize::new(0));
    let mut hs = Vec::new();
    for t in 0..threads {
        let tracker = tracker.clone();
        let granted = granted.clone();
        let mut r = jxlgen::rng::Rng::new(rng.next_u64() ^ t as u64);
        hs.push(std::thread::spawn(move || {
            let mut held = Vec::new();
            for _ in 0..iters {
                let sz = match r.below(4) {
                    0 => r.below(limit as u64 / 4 + 2) as usize,
                    1 => limit,
                    2 => limit + 1 + r.below(1000) as usize,
                    _ => r.below(limit as u64 + 1) as usize,
                };
                if let Ok(h) = tracker.alloc::<u8>(sz) {
                    granted.fetch_add(1, std::sync::atomic::Ordering::Relaxed);
                    held.push(h);
                }
                if held.len() > 3 || r.bool() {
                    if !held.is_empty() {
                        let i = r.below(held.len() as u64) as usize;
                        held.swap_remove(i);
                    }
                }
            }
        }));
    }
    for h in hs {
        let _ = h.join();
    }
    case.obs("stress_alloc_calls", tracker.verif_alloc_count() as u64);
    case.obs("stress_granted", granted.load(std::sync::atomic::Ordering::Relaxed) as u64);
    case.obs("stress_refused", tracker.verif_refused() as u64);
    if tracker.verif_limit_violations() != 0 {
        case.violation("limit-exceeded-concurrent", format!("{threads} threads on one tracker with limit {limit}: tracked total exceeded the limit {} time(s)", tracker.verif_limit_violations()));
        return;
    }
    if tracker.verif_outstanding() != 0 || tracker.verif_bytes_left() != limit {
        case.violation("budget-not-restored-concurrent", format!("after all handles were dropped: outstanding {} bytes_left {} limit {limit}", tracker.verif_outstanding(), tracker.verif_bytes_left()));
        return;
    }
    case.sig(format!("tracker-stress|t{threads}|l{limit}"), true);
}

/// Single-fault enumeration: exactly the k-th tracked allocation of read+render is refused (what a
/// budget does that is too small for one large request but not for the smaller ones after it), for
/// every k. The call may fail; if it returns Ok its samples must be those of the unlimited decode.
fn single_fault_enumeration(case: &mut Case, rng: &mut jxlgen::rng::Rng) {
    let opts = jxlgen::imggen::ImgOpts { size_class: *rng.pick(&[2u32, 3, 3]), max_dim: 420, max_extra: 1, group_size_shift: Some(0), ..Default::default() };
    let mut img = None;
    for _ in 0..20 {
        if let Some(i) = jxlgen::imggen::gen_modular_image(rng, &opts) {
            img = Some(i);
            break;
        }
    }
    let Some(img) = img else {
        case.inconclusive("generator gave up");
        return;
    };
    case.set_input(&img.bytes);
    let decode = |tracker: &AllocTracker| -> Result<Vec<Vec<u32>>, String> {
        let image = JxlImage::builder().pool(make_pool(Pool::None)).alloc_tracker(tracker.clone()).read(std::io::Cursor::new(&img.bytes[..])).map_err(|e| format!("read: {e}"))?;
        let r = image.render_frame(0).map_err(|e| format!("render: {e}"))?;
        Ok(r.image_planar().iter().map(|fb| fb.buf().iter().map(|v| v.to_bits()).collect()).collect())
    };
    let t0 = AllocTracker::with_limit(1 << 40);
    let reference = match decode(&t0) {
        Ok(p) => p,
        Err(e) => {
            case.violation("valid-image-rejected", format!("{e} [{} | {}]", img.desc, img.enc_desc));
            return;
        }
    };
    let n = t0.verif_alloc_count();
    let stride = (n / 300).max(1);
    let (mut failed, mut ok_same) = (0u64, 0u64);
    let mut k = rng.below(stride as u64) as usize;
    while k < n {
        let t = AllocTracker::with_limit(1 << 40);
        t.verif_set_fail_only(k);
        match decode(&t) {
            Err(_) => failed += 1,
            Ok(p) => {
                if p != reference {
                    case.violation(
                        "single-fault-wrong-output",
                        format!("allocation {k} of {n} refused (only that one): read+render_frame returned Ok but the samples differ from the unlimited decode [{} | {}]", img.desc, img.enc_desc),
                    );
                    return;
                }
                ok_same += 1;
            }
        }
        if t.verif_outstanding() != 0 {
            case.violation("leak", format!("single fault at allocation {k}: {} tracked bytes outstanding after dropping everything", t.verif_outstanding()));
            return;
        }
        k += stride;
    }
    case.obs("single_fault_points", failed + ok_same);
    case.obs("single_fault_call_failed", failed);
    case.obs("single_fault_ok_same_output", ok_same);
    let multi = img.fh.num_groups() > 1;
    case.sig(format!("single-fault|{}|n{}", if multi { "multigroup" } else { "1group" }, (n as f64).log2() as u32), n > 0);
}

pub fn run(args: &Args) -> i32 {
    run_cases(args, 0xC13, |case| {
        let mut rng = case.rng.fork();
        if rng.chance(1, 25) {
            tracker_stress(case, &mut rng);
            return;
        }
        if rng.chance(1, 16) {
            single_fault_enumeration(case, &mut rng);
            return;
        }
        let chain = if rng.chance(1, 20) { rng.urange(20, 120) } else { rng.urange(1, 4) };
        let pool = if rng.chance(1, 4) { Pool::Rayon(3) } else { Pool::None };
        // limit class
        let (limit, lclass): (usize, &str) = match rng.below(7) {
            0 => (0, "zero"),
            1 => (1, "one"),
            2 => (rng.below(4096) as usize, "tiny"),
            3 => (rng.bits_loguniform(20) as usize, "small"),
            4 => (rng.bits_loguniform(26) as usize, "medium"),
            5 => (128 << 20, "fuzz-harness"),
            _ => (1 << 40, "ample"),
        };
        let tracker = AllocTracker::with_limit(limit);
        let mut outcomes = std::collections::BTreeSet::new();
        let mut total_ok = 0;
        let mut first_bytes: Option<Vec<u8>> = None;
        let mut kinds = std::collections::BTreeSet::new();
        for step in 0..chain {
            let (mut bytes, kind) = if rng.chance(2, 3) {
                let opts = jxlgen::imggen::ImgOpts { size_class: *rng.pick(&[0u32, 1, 1, 2]), max_dim: 200, max_extra: 2, ..Default::default() };
                match jxlgen::imggen::gen_modular_image(&mut rng, &opts) {
                    Some(i) => (i.bytes, "single"),
                    None => continue,
                }
            } else {
                let opts = jxlgen::anim::AnimOpts { max_frames: 5, max_dim: 32, ..Default::default() };
                match jxlgen::anim::gen_animation(&mut rng, &opts) {
                    Some(a) => (a.bytes, "anim"),
                    None => continue,
                }
            };
            let hostile = rng.chance(1, 4);
            if hostile {
                mutate(&mut rng, &mut bytes);
            }
            kinds.insert(format!("{kind}{}", if hostile { "-mutated" } else { "" }));
            if first_bytes.is_none() {
                first_bytes = Some(bytes.clone());
                case.set_input(&bytes);
            }
            // occasionally move the limit between images of a chain
            if step > 0 && rng.chance(1, 6) {
                if rng.bool() {
                    tracker.expand_limit(rng.below(1 << 16) as usize);
                } else {
                    let _ = tracker.shrink_limit(rng.below(1 << 12) as usize);
                }
            }
            if std::env::var("C13_TRACE").is_ok() {
                let _ = std::fs::write(format!("/tmp/c13_img_{step}.jxl"), &bytes);
                eprintln!("image {step}: {kind} hostile={hostile} {} bytes limit {}", bytes.len(), tracker.verif_limit_total());
            }
            let mut swallowed = None;
            let mut tolerated = 0u64;
            let (o, ok) = run_image(&mut rng, &bytes, &tracker, pool, &mut swallowed, &mut tolerated);
            case.obs("calls_ok_despite_refusal_checked", tolerated);
            if let Some(d) = swallowed {
                case.set_input(&bytes);
                case.violation("refusal-swallowed-wrong-output", format!("{d} (limit class {lclass}, limit now {})", tracker.verif_limit_total()));
                return;
            }
            case.obs("refusals_seen", tracker.verif_refused() as u64);
            outcomes.insert(o);
            total_ok += ok;
            // quiescence: everything dropped (rayon background renders may still hold handles
            // for a moment: wait for them logically by polling the shadow counter briefly)
            let mut outstanding = tracker.verif_outstanding();
            if outstanding != 0 && pool != Pool::None {
                let t0 = std::time::Instant::now();
                while outstanding != 0 && t0.elapsed().as_secs_f64() < 60.0 {
                    std::thread::sleep(std::time::Duration::from_millis(1));
                    outstanding = tracker.verif_outstanding();
                }
            }
            if outstanding != 0 {
                case.set_input(&bytes);
                case.violation("leak", format!("{outstanding} tracked bytes still outstanding after dropping image {step} of the chain (limit class {lclass}, pool {pool:?})"));
                return;
            }
            let total = tracker.verif_limit_total();
            if tracker.verif_bytes_left() != total {
                case.set_input(&bytes);
                case.violation("budget-not-restored", format!("bytes_left {} != limit {} after dropping image {step}", tracker.verif_bytes_left(), total));
                return;
            }
            // public API probe: the whole budget can be taken out and put back
            if tracker.shrink_limit(total).is_err() {
                case.violation("shrink-failed", format!("shrink_limit({total}) failed although nothing is allocated"));
                return;
            }
            tracker.expand_limit(total);
            if tracker.verif_limit_violations() != 0 {
                case.set_input(&bytes);
                case.violation("limit-exceeded", format!("tracked total exceeded the limit {} time(s) (limit class {lclass})", tracker.verif_limit_violations()));
                return;
            }
            case.obs("images_run", 1);
        }
        case.obs("alloc_calls", tracker.verif_alloc_count() as u64);
        case.obs("ok_renders", total_ok as u64);
        case.sig(
            format!("{lclass}|{}|{}|{:?}|{}", kinds.iter().cloned().collect::<Vec<_>>().join("+"), outcomes.iter().cloned().collect::<Vec<_>>().join("+"), pool, if chain >= 20 { "long-chain" } else { "short" }),
            tracker.verif_alloc_count() > 0,
        );
        case.sample(format!("{{\"limit\":{limit},\"limit_class\":\"{lclass}\",\"chain\":{chain},\"pool\":\"{pool:?}\",\"alloc_calls\":{},\"outcomes\":{}}}", tracker.verif_alloc_count(), json_str(&outcomes.iter().cloned().collect::<Vec<_>>().join(","))));
    })
}
