//! C18: the embedded ICC profile is returned byte-exactly.
//!
//! Workload: profiles (the real ones of the repository, synthesised ones, structured random
//! ones, arbitrary byte strings of all the interesting lengths) are encoded by jxlgen's ICC
//! encoder (`jxlgen::icc`, written from the format definition) with a random segmentation into
//! commands and a random entropy code, then decoded by the real `jxl_color::icc::read_icc` +
//! `decode_icc`, and for a part of the cases through a whole codestream by
//! `JxlImage::original_icc()`.
//!
//! Oracle (exact, no tolerances):
//!  * valid encoding: `read_icc` returns exactly the encoded stream and consumes exactly the
//!    bits written; `decode_icc` returns exactly the profile; `original_icc()` == profile
//!    (an empty profile is reported as `None`, which is taken as equal to the empty profile);
//!  * inconsistent encoding (`IccHostile`, entropy faults): `read_icc` or `decode_icc` returns
//!    `Err`; never `Ok`, never a panic.
//!
//!  * whole codestream, strict prefix fed (counted, 1/3 of the codestream cases): if the image
//!    initialises from an incomplete ICC section, `original_icc()` must still be the embedded
//!    profile (violation `e2e-prefix-wrong-icc`); a hard error on a prefix is only counted
//!    (`side_prefix_hard_error`), it belongs to the "every prefix means need-more-data" property.
//!
//! Violation signatures are stable strings (known-findings are matched on them); every
//! acceptance of a size mismatch whose command stream ends inside the tag list gets the single
//! signature `hostile-accepted:size-mismatch-commands-end-in-taglist`.
//!
//! Points where the text of the format and the reference implementation (libjxl) are known to
//! be more lenient / different from what a reader of the text would do are *not* part of the
//! oracle by default; they are generated in the `ambig` share of the cases and their outcome is
//! counted in `obs` (`--ambig off|obs|strict`, default obs; strict turns them into violations):
//!  * tag commands for tag entries with `tagstart+tagsize > size` or `num_tags > (size-128)/12`
//!    (malformed profile, well-formed encoding; the pinned decoder refuses them);
//!  * width-4 interleaved runs of length 1 or 2 mod 4 stored in libjxl's loop order;
//!  * unused trailing data / unused commands (libjxl: error; pinned decoder: accepted).

use crate::common::*;
use jxl_bitstream::Bitstream;
use jxlgen::bits::BitWriter;
use jxlgen::icc::*;
use jxlgen::rng::Rng;

const REAL: [(&str, &[u8]); 8] = [
    ("srgb-rel", include_bytes!("/repo/crates/jxl-color/src/icc/test-profiles/srgb-rel.icc")),
    ("srgb-linear-rel", include_bytes!("/repo/crates/jxl-color/src/icc/test-profiles/srgb-linear-rel.icc")),
    ("srgb-gamma22-rel", include_bytes!("/repo/crates/jxl-color/src/icc/test-profiles/srgb-gamma22-rel.icc")),
    ("srgb-bt709-per", include_bytes!("/repo/crates/jxl-color/src/icc/test-profiles/srgb-bt709-per.icc")),
    ("prophoto-gamma18-rel", include_bytes!("/repo/crates/jxl-color/src/icc/test-profiles/prophoto-gamma18-rel.icc")),
    ("gray-d65-srgb-rel", include_bytes!("/repo/crates/jxl-color/src/icc/test-profiles/gray-d65-srgb-rel.icc")),
    ("gray-d65-linear-rel", include_bytes!("/repo/crates/jxl-color/src/icc/test-profiles/gray-d65-linear-rel.icc")),
    ("tests-grayscale", include_bytes!("/repo/crates/jxl-oxide-tests/tests/image/grayscale.icc")),
];

const LENS: [usize; 48] = [
    0, 1, 2, 3, 4, 5, 7, 8, 9, 12, 24, 36, 40, 41, 42, 43, 44, 45, 70, 79, 80, 81, 83, 84, 85, 126,
    127, 128, 129, 130, 131, 132, 133, 134, 135, 136, 139, 140, 143, 144, 145, 155, 156, 157, 200,
    255, 256, 257,
];

fn len_class(n: usize) -> &'static str {
    match n {
        0 => "0",
        1..=127 => "1-127",
        128 => "128",
        129..=131 => "129-131",
        132..=143 => "132-143",
        144..=1023 => "144-1k",
        1024..=20479 => "1k-20k",
        _ => ">20k",
    }
}

fn fill(rng: &mut Rng, out: &mut Vec<u8>, n: usize, style: u64) {
    match style {
        0 => {
            for _ in 0..n {
                out.push(rng.next_u64() as u8);
            }
        }
        1 => out.extend(std::iter::repeat(0).take(n)),
        2 => out.extend(std::iter::repeat(0xff).take(n)),
        3 => {
            for _ in 0..n {
                out.push(*rng.pick(b"abcdefghijklmnopqrstuvwxyzABCDEFXYZ0123456789., \0\x01\x02\xf5\xff"));
            }
        }
        4 => {
            let (a, d) = (rng.next_u64() as u8, rng.below(7) as u8);
            for i in 0..n {
                out.push(a.wrapping_add(d.wrapping_mul(i as u8)));
            }
        }
        5 => {
            let (a, d) = (rng.next_u64() as u16, rng.below(700) as u16);
            for k in 0..(n / 2 + 1) as u32 {
                out.extend_from_slice(&a.wrapping_add(d.wrapping_mul(k as u16)).to_be_bytes());
            }
        }
        6 => {
            let (a, d) = (rng.next_u32(), rng.below(1 << 20) as u32);
            for k in 0..(n / 4 + 1) as u32 {
                out.extend_from_slice(&a.wrapping_add(d.wrapping_mul(k)).to_be_bytes());
            }
        }
        7 => {
            // quadratic 32-bit sequence (exact for the order-2 predictor)
            let (a, b, c) = (rng.next_u32(), rng.below(1 << 16) as u32, rng.below(300) as u32);
            for k in 0..(n / 4 + 1) as u32 {
                let v = a.wrapping_add(b.wrapping_mul(k)).wrapping_add(c.wrapping_mul(k).wrapping_mul(k));
                out.extend_from_slice(&v.to_be_bytes());
            }
        }
        _ => {
            // periodic with noise (long strides pay off)
            let period = rng.urange(1, 200);
            let base: Vec<u8> = (0..period).map(|_| rng.next_u64() as u8).collect();
            for i in 0..n {
                let mut b = base[i % period].wrapping_add((i / period) as u8);
                if rng.chance(1, 50) {
                    b ^= 1 << rng.below(8);
                }
                out.push(b);
            }
        }
    }
}

fn random_bytes(rng: &mut Rng, n: usize) -> (Vec<u8>, &'static str) {
    let style = rng.below(11);
    let mut v = Vec::with_capacity(n + 8);
    let name = match style {
        9 => {
            // segments of different kinds
            while v.len() < n {
                let l = rng.urange(1, (n / 3).max(8));
                let s = rng.below(9);
                let start = v.len();
                fill(rng, &mut v, l, s);
                v.truncate(start + l.min(v.len() - start));
            }
            "mix"
        }
        10 => {
            // equals the predicted header as far as possible, rest text
            fill(rng, &mut v, n, 3);
            v.truncate(n);
            v.resize(n, 0);
            if n > 40 {
                v[40] = *rng.pick(b"AMSSX");
            }
            if n > 41 {
                v[41] = *rng.pick(b"GUPS");
            }
            for i in 0..n.min(128) {
                if !(4..8).contains(&i) && i != 40 && !(i == 41 && v[40] == b'S') && rng.chance(9, 10) {
                    v[i] = header_prediction(i, n as u32, &v);
                }
            }
            "predicted"
        }
        s => {
            fill(rng, &mut v, n, s);
            ["uniform", "zeros", "ff", "text", "ramp8", "ramp16", "ramp32", "quad32", "periodic"][s as usize]
        }
    };
    v.truncate(n);
    v.resize(n, 0);
    (v, name)
}

fn synth_profile(rng: &mut Rng) -> Option<(Vec<u8>, String)> {
    use jxl_color::{ColourSpace, Customxy, EnumColourEncoding, Primaries, RenderingIntent, TransferFunction, WhitePoint};
    let grey = rng.chance(1, 4);
    let xy = |rng: &mut Rng| Customxy {
        x: rng.range(150_000, 700_000) as i32,
        y: rng.range(100_000, 700_000) as i32,
    };
    let white_point = match rng.below(5) {
        0 => WhitePoint::E,
        1 => WhitePoint::Dci,
        2 => WhitePoint::Custom(Customxy { x: rng.range(280_000, 360_000) as i32, y: rng.range(290_000, 370_000) as i32 }),
        _ => WhitePoint::D65,
    };
    let primaries = match rng.below(5) {
        0 => Primaries::Bt2100,
        1 => Primaries::P3,
        2 => Primaries::Custom { red: xy(rng), green: xy(rng), blue: xy(rng) },
        _ => Primaries::Srgb,
    };
    let (tf, tfname) = match rng.below(8) {
        0 => (TransferFunction::Bt709, "709"),
        1 => (TransferFunction::Linear, "lin"),
        2 => (TransferFunction::Pq, "pq"),
        3 => (TransferFunction::Hlg, "hlg"),
        4 => (TransferFunction::Dci, "dci"),
        5 => (TransferFunction::Gamma { g: rng.range(1_000_000, 10_000_000) as u32, inverted: true }, "gam-i"),
        6 => (TransferFunction::Gamma { g: rng.range(10_000_000, 50_000_000) as u32, inverted: false }, "gam"),
        _ => (TransferFunction::Srgb, "srgb"),
    };
    let rendering_intent = *rng.pick(&[
        RenderingIntent::Perceptual,
        RenderingIntent::Relative,
        RenderingIntent::Saturation,
        RenderingIntent::Absolute,
    ]);
    let enc = EnumColourEncoding {
        colour_space: if grey { ColourSpace::Grey } else { ColourSpace::Rgb },
        white_point,
        primaries,
        tf,
        rendering_intent,
    };
    // the synthesiser is C19's subject; a failure there is not a C18 event
    guarded(|| jxl_color::icc::colour_encoding_to_icc(&enc))
        .ok()
        .map(|p| (p, format!("synth:{}{}", if grey { "grey-" } else { "" }, tfname)))
}

/// Make a structured profile malformed in the ways that matter to tag commands.
fn break_tags(rng: &mut Rng, p: &mut Vec<u8>) -> &'static str {
    if p.len() < 144 {
        return "short";
    }
    let ntags = ((p.len() - 132) / 12).min(u32::from_be_bytes([p[128], p[129], p[130], p[131]]) as usize).max(1);
    match rng.below(4) {
        0 => {
            // tag count larger than the file can hold
            let big: u32 = match rng.below(3) {
                0 => ((p.len() - 128) / 12) as u32 + 1,
                1 => rng.next_u32() >> rng.below(28),
                _ => u32::MAX - rng.below(3) as u32,
            };
            p[128..132].copy_from_slice(&big.to_be_bytes());
            "numtags-over"
        }
        1 => {
            // one entry reaches beyond the end
            let i = rng.below(ntags as u64) as usize;
            let o = 132 + 12 * i;
            let size = u32::from_be_bytes([p[o + 8], p[o + 9], p[o + 10], p[o + 11]]);
            let start = (p.len() as u32).saturating_sub(size) + 1 + if rng.bool() { 0 } else { rng.below(1 << 16) as u32 };
            p[o + 4..o + 8].copy_from_slice(&start.to_be_bytes());
            "start-beyond"
        }
        2 => {
            let i = rng.below(ntags as u64) as usize;
            let o = 132 + 12 * i;
            let size: u32 = match rng.below(3) {
                0 => p.len() as u32 + 1,
                1 => rng.next_u32(),
                _ => u32::MAX,
            };
            p[o + 8..o + 12].copy_from_slice(&size.to_be_bytes());
            "size-beyond"
        }
        _ => {
            // truncated file: payloads cut off
            let keep = rng.urange(132 + 12, p.len() - 1);
            p.truncate(keep);
            "truncated"
        }
    }
}

pub(crate) fn gen_profile(rng: &mut Rng, thorough: bool, want_bad_tags: bool) -> (Vec<u8>, String) {
    if want_bad_tags {
        let nt = rng.urange(1, 30);
        let mut p = random_structured_profile(rng, nt);
        let how = break_tags(rng, &mut p);
        return (p, format!("struct-bad:{how}"));
    }
    let big_den = if thorough { 120 } else { 300 };
    if rng.chance(1, big_den) {
        let n = match rng.below(3) {
            0 => rng.urange(20_480, 66_000),
            1 => rng.urange(65_000, 140_000),
            _ => rng.urange(140_000, 310_000),
        };
        let (mut v, name) = random_bytes(rng, n);
        if rng.bool() {
            // give it a real beginning
            let r = REAL[rng.below(8) as usize].1;
            let k = r.len().min(n);
            v[..k].copy_from_slice(&r[..k]);
            v[0..4].copy_from_slice(&(n as u32).to_be_bytes());
        }
        return (v, format!("big:{name}"));
    }
    match rng.below(20) {
        0 | 1 => {
            let (name, p) = REAL[rng.below(8) as usize];
            (p.to_vec(), format!("real:{name}"))
        }
        2 | 3 => {
            let (_, p) = REAL[rng.below(8) as usize];
            let mut p = p.to_vec();
            let op = match rng.below(5) {
                0 => {
                    let keep = if rng.bool() { *rng.pick(&LENS) } else { rng.urange(0, p.len()) };
                    p.truncate(keep.min(p.len()));
                    "trunc"
                }
                1 => {
                    for _ in 0..rng.urange(1, 6) {
                        let i = rng.below(p.len() as u64) as usize;
                        p[i] ^= 1 << rng.below(8);
                    }
                    "flip"
                }
                2 => {
                    for _ in 0..rng.urange(1, 6) {
                        let i = rng.below((p.len() as u64).min(300)) as usize;
                        p[i] = rng.next_u64() as u8;
                    }
                    "flip-head"
                }
                3 => {
                    let extra = rng.urange(1, 300);
                    let s = rng.below(9);
                    let start = p.len();
                    fill(rng, &mut p, extra, s);
                    p.truncate(start + extra);
                    if rng.bool() {
                        let n = p.len() as u32;
                        p[0..4].copy_from_slice(&n.to_be_bytes());
                    }
                    "append"
                }
                _ => {
                    // shuffle whole tag entries (keeps entries valid, breaks default chains)
                    let nt = u32::from_be_bytes([p[128], p[129], p[130], p[131]]) as usize;
                    if nt >= 2 && 132 + 12 * nt <= p.len() {
                        for _ in 0..3 {
                            let a = rng.below(nt as u64) as usize;
                            let b = rng.below(nt as u64) as usize;
                            for k in 0..12 {
                                p.swap(132 + 12 * a + k, 132 + 12 * b + k);
                            }
                        }
                    }
                    "swap-tags"
                }
            };
            (p, format!("realmut:{op}"))
        }
        4 | 5 => synth_profile(rng).unwrap_or_else(|| (REAL[0].1.to_vec(), "real:srgb-rel".into())),
        6..=10 => {
            let nt = match rng.below(6) {
                0 => 0,
                1 => rng.urange(1, 3),
                2 => rng.urange(4, 12),
                3 => rng.urange(13, 30),
                _ => rng.urange(0, 60),
            };
            let p = random_structured_profile(rng, nt);
            let c = match nt {
                0 => "0",
                1..=3 => "1-3",
                4..=12 => "4-12",
                13..=30 => "13-30",
                _ => "31-60",
            };
            (p, format!("struct:{c}"))
        }
        11 => {
            let nt = rng.urange(1, 30);
            let mut p = random_structured_profile(rng, nt);
            let how = break_tags(rng, &mut p);
            (p, format!("struct-bad:{how}"))
        }
        12..=15 => {
            let n = *rng.pick(&LENS);
            let (v, name) = random_bytes(rng, n);
            (v, format!("bytes:{name}:{}", len_class(n)))
        }
        _ => {
            let n = match rng.below(4) {
                0 => rng.urange(0, 300),
                1 => rng.urange(128, 1500),
                2 => rng.urange(1000, 6000),
                _ => rng.urange(0, 20_000),
            };
            let (v, name) = random_bytes(rng, n);
            (v, format!("bytes:{name}:{}", len_class(n)))
        }
    }
}

#[derive(Clone, Copy, PartialEq, Eq)]
enum Ambig {
    Off,
    Obs,
    Strict,
}

fn first_diff(a: &[u8], b: &[u8]) -> String {
    let i = a.iter().zip(b).position(|(x, y)| x != y).unwrap_or(a.len().min(b.len()));
    format!(
        "lengths {} vs {}, first difference at {} (got {:?} expected {:?})",
        a.len(),
        b.len(),
        i,
        a.get(i),
        b.get(i)
    )
}

fn short_hex(b: &[u8], max: usize) -> String {
    if b.len() <= max {
        hex(b)
    } else {
        format!("{}..({} bytes)", hex(&b[..max]), b.len())
    }
}

/// prefix / ans / direct, with or without LZ77 copies (cluster count class dropped)
fn coarse_entropy(eclass: &str) -> &str {
    eclass.split('|').next().unwrap_or(eclass)
}

fn profile_family(pclass: &str) -> &str {
    pclass.split(':').next().unwrap_or(pclass)
}

/// Coarse class of the multiset of commands for the signature (the fine one goes to samples):
/// tag-list kind, set of main command kinds, set of predicted-run widths.
fn coarse_commands(st: &IccStats) -> String {
    if st.size <= 128 {
        return format!("hdr{}", len_class(st.size));
    }
    let tags = if st.no_taglist {
        "T0"
    } else if st.tags_trc3 + st.tags_xyz3 > 0 {
        "Ttriple"
    } else if st.tags_known > 0 && st.tags_explicit > 0 {
        "Tmixed"
    } else if st.tags_known > 0 {
        "Tknown"
    } else if st.tags_explicit > 0 {
        "Texpl"
    } else {
        "Tempty"
    };
    let mut m = String::new();
    for (c, on) in [
        ('r', st.raw > 0),
        ('s', st.shuffle2 + st.shuffle4 > 0),
        ('c', st.xyz > 0 || st.types.iter().any(|&t| t > 0)),
    ] {
        if on {
            m.push(c);
        }
    }
    let mut p = String::new();
    for (wi, w) in ["1", "2", "4"].iter().enumerate() {
        if st.predict[wi].iter().any(|&c| c > 0) {
            p.push_str(w);
        }
    }
    format!("{tags}|M{m}|P{p}")
}

fn record_stats(case: &mut Case, st: &IccStats) {
    case.obs("tag_cmds", st.num_tag_commands() as u64);
    case.obs("tag_cmds_explicit", st.tags_explicit as u64);
    case.obs("tag_cmds_known", st.tags_known as u64);
    case.obs("tag_cmds_trc_triple", st.tags_trc3 as u64);
    case.obs("tag_cmds_xyz_triple", st.tags_xyz3 as u64);
    case.obs("tag_default_start", st.tag_default_start as u64);
    case.obs("tag_default_size20", st.tag_default_size20 as u64);
    case.obs("tag_default_size_prev", st.tag_default_size_prev as u64);
    case.obs("main_cmds", st.num_main_commands() as u64);
    case.obs("cmd_raw", st.raw as u64);
    case.obs("cmd_shuffle2", st.shuffle2 as u64);
    case.obs("cmd_shuffle4", st.shuffle4 as u64);
    case.obs("cmd_predict", st.num_predict() as u64);
    case.obs("cmd_predict_explicit_stride", st.predict_explicit_stride as u64);
    case.obs("cmd_predict_far_stride", st.predict_far_stride as u64);
    case.obs("cmd_predict_max_legal_stride", st.predict_max_stride as u64);
    case.obs("cmd_xyz", st.xyz as u64);
    case.obs("cmd_type", st.types.iter().sum::<u32>() as u64);
    case.obs("runs_partial_width", st.partial_runs as u64);
    case.obs("runs_partial4_convention_sensitive", st.partial4_diff as u64);
    case.obs("zero_length_cmds", st.zero_len as u64);
    case.obs("padded_varints", st.padded_varints as u64);
    for (wi, w) in [1, 2, 4].iter().enumerate() {
        for o in 0..3 {
            if st.predict[wi][o] > 0 {
                case.obs_set("predict_combos", format!("w{w}o{o}"));
            }
        }
    }
    for (t, &c) in st.types.iter().enumerate() {
        if c > 0 {
            case.obs_set("type_shortcuts", String::from_utf8_lossy(&TYPE_STRINGS[t][..]).to_string());
        }
    }
    if st.taglist_term_end {
        case.obs("taglist_ended_by_end_of_commands", 1);
    }
    if st.no_taglist && st.size > 128 {
        case.obs("no_taglist", 1);
    }
}

struct Wrapped {
    bytes: Vec<u8>,
    lead: usize,
    total_bits: usize,
}

fn new_writer(rng: &mut Rng) -> (BitWriter, usize) {
    let mut bw = if rng.bool() { BitWriter::with_random_selectors(rng.fork()) } else { BitWriter::new() };
    let lead = rng.below(17) as u32;
    bw.write(lead, rng.next_u64());
    (bw, lead as usize)
}

fn finish_writer(mut bw: BitWriter, rng: &mut Rng, lead: usize) -> Wrapped {
    let total_bits = bw.bits_written();
    bw.write(64, rng.next_u64());
    bw.write(64, rng.next_u64());
    Wrapped { bytes: bw.finish(), lead, total_bits }
}

/// What the decoder made of a bitstream holding an ICC section.
enum Outcome {
    ReadErr(String),
    /// read_icc ok (stream, bits consumed), decode_icc failed
    DecodeErr(Vec<u8>, usize, String),
    Ok(Vec<u8>, usize, Vec<u8>),
}

fn run_decoder(w: &Wrapped) -> Outcome {
    let mut bs = Bitstream::new(&w.bytes);
    if bs.skip_bits(w.lead).is_err() {
        return Outcome::ReadErr("skip".into());
    }
    match jxl_color::icc::read_icc(&mut bs) {
        Err(e) => Outcome::ReadErr(e.to_string()),
        Ok(enc) => {
            let bits = bs.num_read_bits();
            match jxl_color::icc::decode_icc(&enc) {
                Err(e) => Outcome::DecodeErr(enc, bits, e.to_string()),
                Ok(out) => Outcome::Ok(enc, bits, out),
            }
        }
    }
}

fn entropy_opts(rng: &mut Rng, len: usize) -> IccEntropyOpts {
    IccEntropyOpts {
        use_prefix: None,
        lz77_pct: if len > 60_000 { 10 } else { 30 },
        plain: len > 30_000 || rng.chance(1, 4),
        fault: IccEntropyFault::None,
    }
}

/// Minimal codestream: signature, SizeHeader, ImageMetadata with `want_icc`, the ICC section,
/// zero padding to the byte boundary. No frame follows (not needed to initialise the image).
fn write_codestream_prefix(bw: &mut BitWriter, rng: &mut Rng, grey: bool) {
    bw.write(16, 0x0aff);
    if rng.bool() {
        // div8 form, 1:1 ratio
        bw.bool(true);
        bw.write(5, rng.below(4)); // height/8 - 1
        bw.write(3, 1);
    } else {
        bw.bool(false);
        bw.write(2, 0);
        bw.write(9, rng.below(64)); // height - 1
        bw.write(3, 0);
        bw.write(2, 0);
        bw.write(9, rng.below(64)); // width - 1
    }
    // ImageMetadata
    bw.bool(false); // all_default
    bw.bool(false); // extra_fields
    bw.bool(false); // float samples
    bw.write(2, 0); // 8 bit
    bw.bool(true); // modular_16bit_buffers
    bw.write(2, 0); // no extra channels
    bw.bool(false); // xyb_encoded
    bw.bool(false); // colour_encoding.all_default
    bw.bool(true); // want_icc
    bw.write(2, grey as u64); // colour_space enum: selector 0 = RGB, 1 = Grey
    bw.write(2, 0); // extensions = 0
    bw.bool(true); // default transform data
}

fn e2e_check(case: &mut Case, rng: &mut Rng, profile: &[u8], style: &IccStyle) {
    let grey = profile.len() >= 20 && &profile[16..20] == b"GRAY";
    let mut bw = BitWriter::new();
    write_codestream_prefix(&mut bw, rng, grey);
    let eo = entropy_opts(rng, profile.len());
    let _ = write_icc(&mut bw, profile, rng, &IccWriteOpts { style: style.clone(), entropy: eo });
    bw.zero_pad_to_byte();
    let bytes = bw.finish();
    case.obs("e2e_codestreams", 1);
    let new_uninit = || {
        jxl_oxide::JxlImage::builder()
            .pool(jxl_oxide::JxlThreadPool::none())
            .build_uninit()
    };
    // Side probe (belongs to the "every prefix means need-more-data" property, only counted
    // here): a strict prefix of header+ICC must not be a hard error and must not initialise.
    if rng.chance(1, 3) && bytes.len() > 1 {
        let split = if rng.bool() {
            bytes.len() - 1 - (rng.below(6) as usize).min(bytes.len() - 1)
        } else {
            rng.urange(0, bytes.len() - 1)
        };
        let mut u = new_uninit();
        match u.feed_bytes(&bytes[..split]).map(|_| u.try_init()) {
            Ok(Ok(jxl_oxide::InitializeResult::NeedMoreData(_))) => case.obs("side_prefix_need_more", 1),
            Ok(Ok(jxl_oxide::InitializeResult::Initialized(img))) => {
                case.obs("side_prefix_initialised_early", 1);
                let got = img.original_icc().unwrap_or(&[]);
                if got != profile {
                    // the image initialised from an incomplete ICC section and reports a profile
                    // that is not the embedded one: within this property
                    case.obs("prefix_initialised_with_wrong_icc", 1);
                    case.violation(
                        "e2e-prefix-wrong-icc",
                        format!(
                            "fed {split} of {} bytes (header + ICC section incomplete): try_init succeeded and original_icc() differs from the embedded profile: {}; codestream {}",
                            bytes.len(),
                            first_diff(got, profile),
                            short_hex(&bytes, 600)
                        ),
                    );
                    return;
                }
            }
            Ok(Err(e)) => {
                case.obs("side_prefix_hard_error", 1);
                case.obs_set("side_prefix_hard_errors", e.to_string());
            }
            Err(e) => {
                case.obs("side_prefix_hard_error", 1);
                case.obs_set("side_prefix_hard_errors", format!("feed: {e}"));
            }
        }
    }
    let mut uninit = new_uninit();
    if let Err(e) = uninit.feed_bytes(&bytes) {
        case.violation("e2e-feed-err", format!("feed_bytes: {e}"));
        return;
    }
    let image = match uninit.try_init() {
        Err(e) => {
            case.violation(
                "e2e-init-err",
                format!(
                    "try_init failed on a valid codestream prefix with ICC ({} bytes): {e}; codestream {}",
                    profile.len(),
                    short_hex(&bytes, 600)
                ),
            );
            return;
        }
        Ok(jxl_oxide::InitializeResult::Initialized(img)) => img,
        Ok(jxl_oxide::InitializeResult::NeedMoreData(_)) => {
            case.violation("e2e-need-more", "NeedMoreData although the whole header+ICC was fed".to_string());
            return;
        }
    };
    let got: &[u8] = image.original_icc().unwrap_or(&[]);
    if got != profile {
        case.violation("e2e-profile-mismatch", format!("original_icc(): {}", first_diff(got, profile)));
    }
}

fn valid_case(case: &mut Case, ambig: Ambig, sub: u64) {
    let rng = &mut case.rng.fork();
    let thorough = case.tier_thorough;
    // sub: 0 = ordinary, 1 = ambiguous tag ranges, 2 = ambiguous libjxl interleaving
    let (profile, pclass) = gen_profile(rng, thorough, sub == 1);
    let n = profile.len();
    let mut style = if sub == 0 && rng.chance(1, 14) { IccStyle::simplest() } else { IccStyle::random(rng, n) };
    match sub {
        1 => {
            style.conservative_tags = false;
            style.taglist_pct = 100;
        }
        2 => {
            style.shuffle_conv = ShuffleConv::LibjxlStride;
            style.allow = ALLOW_SHUFFLE4 | ALLOW_PREDICT | ALLOW_RAW;
            style.seg_scale = style.seg_scale.clamp(5, 40);
        }
        _ => {}
    }
    let direct_only = rng.chance(1, 4);
    let (stream, stats) = encode_icc_stream_ex(&profile, rng, &style);
    let cclass = stats.class();
    let sens_tags = stats.tags_out_of_range > 0 || stats.num_tags_over_size;
    let sens_shuffle = style.shuffle_conv == ShuffleConv::LibjxlStride && stats.partial4_diff > 0;
    let ambiguous = sens_tags || sens_shuffle;

    // ---- decode
    let (eclass, outcome, wrapped) = if direct_only {
        case.set_input(&stream);
        let o = match jxl_color::icc::decode_icc(&stream) {
            Err(e) => Outcome::DecodeErr(stream.clone(), 0, e.to_string()),
            Ok(out) => Outcome::Ok(stream.clone(), 0, out),
        };
        ("direct".to_string(), o, None)
    } else {
        let (mut bw, lead) = new_writer(rng);
        let eo = entropy_opts(rng, n);
        let info = write_icc_stream(&mut bw, &stream, rng, &eo);
        let w = finish_writer(bw, rng, lead);
        case.set_input(&w.bytes);
        case.obs("entropy_symbols", stream.len() as u64);
        case.obs("entropy_lz77_copies", info.copies as u64);
        let o = run_decoder(&w);
        (info.class(), o, Some(w))
    };
    let kind = match sub {
        1 if sens_tags => "ambig-tags",
        2 if sens_shuffle => "ambig-shuffle",
        _ => "valid",
    };
    case.sig(
        format!("{kind}|{}|{}|{}", profile_family(&pclass), coarse_commands(&stats), coarse_entropy(&eclass)),
        n > 0,
    );
    case.sample(format!(
        "{{\"kind\":{},\"profile\":{},\"len\":{},\"commands\":{},\"entropy\":{},\"enc_size\":{},\"commands_size\":{}}}",
        json_str(kind),
        json_str(&pclass),
        n,
        json_str(&cclass),
        json_str(&eclass),
        stream.len(),
        stats.commands_size
    ));
    case.obs("profiles", 1);
    case.obs("profile_bytes", n as u64);
    case.obs_set("profile_len_classes", len_class(n));
    record_stats(case, &stats);

    let ctx = |extra: &str| -> String {
        format!(
            "{extra}; profile {pclass} ({n} bytes) commands {cclass} entropy {eclass}; encoded stream {}; expected profile {}",
            short_hex(&stream, 600),
            short_hex(&profile, 300)
        )
    };
    match outcome {
        Outcome::ReadErr(e) => {
            case.violation("read-icc-err", ctx(&format!("read_icc failed on a valid ICC section: {e}")));
        }
        Outcome::DecodeErr(enc, bits, e) => {
            if let Some(w) = &wrapped {
                if enc != stream {
                    case.violation("stream-mismatch", ctx(&format!("read_icc returned a different stream: {}", first_diff(&enc, &stream))));
                    return;
                }
                if bits != w.total_bits {
                    case.violation("bits-mismatch", ctx(&format!("read_icc consumed {bits} bits, written {}", w.total_bits)));
                    return;
                }
            }
            if ambiguous {
                if sens_tags {
                    case.obs(if stats.num_tags_over_size { "ambig_numtags_over_size_rejected" } else { "ambig_tagrange_rejected" }, 1);
                    if ambig == Ambig::Strict {
                        case.violation("ambig-tagrange-rejected", ctx(&format!("decode_icc rejected tag commands of a malformed profile: {e}")));
                    }
                } else {
                    case.obs("ambig_shuffle4_libjxl_rejected", 1);
                }
                return;
            }
            case.violation("decode-err", ctx(&format!("decode_icc failed on a valid encoding: {e}")));
        }
        Outcome::Ok(enc, bits, out) => {
            if let Some(w) = &wrapped {
                if enc != stream {
                    case.violation("stream-mismatch", ctx(&format!("read_icc returned a different stream: {}", first_diff(&enc, &stream))));
                    return;
                }
                if bits != w.total_bits {
                    case.violation("bits-mismatch", ctx(&format!("read_icc consumed {bits} bits, written {}", w.total_bits)));
                    return;
                }
            }
            if out != profile {
                if sens_shuffle && !sens_tags {
                    case.obs("ambig_shuffle4_libjxl_differs", 1);
                    if ambig == Ambig::Strict {
                        case.violation("ambig-shuffle4-libjxl-differs", ctx(&format!("runs stored in libjxl's interleaving order decode differently: {}", first_diff(&out, &profile))));
                    }
                    return;
                }
                case.violation("profile-mismatch", ctx(&format!("decoded profile differs: {}", first_diff(&out, &profile))));
                return;
            }
            case.obs("profiles_exact", 1);
            if sens_tags {
                case.obs("ambig_tagrange_accepted", 1);
            }
            if sens_shuffle {
                case.obs("ambig_shuffle4_libjxl_equal", 1);
            }
        }
    }
    // ---- whole codestream
    if sub == 0 && n <= 30_000 && rng.chance(1, 5) {
        e2e_check(case, rng, &profile, &style);
    }
}

fn hostile_case(case: &mut Case) {
    let rng = &mut case.rng.fork();
    let thorough = case.tier_thorough;
    let (profile, pclass) = loop {
        let (p, c) = gen_profile(rng, thorough, false);
        // most inconsistencies need a body; keep some short ones
        if p.len() > 140 || rng.chance(1, 4) {
            if p.len() <= 40_000 {
                break (p, c);
            }
        }
    };
    let n = profile.len();
    let fault = match rng.below(12) {
        0 => IccEntropyFault::SymbolOutOfRange,
        1 => IccEntropyFault::BadFinalState,
        _ => IccEntropyFault::None,
    };
    let mut ends_in_taglist = false;
    let (stream, kname): (Vec<u8>, String) = if fault != IccEntropyFault::None {
        let st = IccStyle::random(rng, n);
        (encode_icc_stream(&profile, rng, &st), "valid-stream".into())
    } else {
        let mut kind = *rng.pick(&ALL_HOSTILE);
        let mut s = encode_hostile(&profile, rng, kind);
        if s.is_none() {
            kind = IccHostile::OutputSizeBigger;
            s = encode_hostile(&profile, rng, kind);
        }
        let s = s.expect("always applicable");
        ends_in_taglist = s.ends_in_taglist;
        (s.stream, kind.name().to_string())
    };
    let direct_only = fault == IccEntropyFault::None && rng.chance(1, 4);
    let (eclass, outcome, applied) = if direct_only {
        case.set_input(&stream);
        let o = match jxl_color::icc::decode_icc(&stream) {
            Err(e) => Outcome::DecodeErr(stream.clone(), 0, e.to_string()),
            Ok(out) => Outcome::Ok(stream.clone(), 0, out),
        };
        ("direct".to_string(), o, IccEntropyFault::None)
    } else {
        let (mut bw, lead) = new_writer(rng);
        let mut eo = entropy_opts(rng, n);
        eo.fault = fault;
        let info = write_icc_stream(&mut bw, &stream, rng, &eo);
        let w = finish_writer(bw, rng, lead);
        case.set_input(&w.bytes);
        (info.class(), run_decoder(&w), info.fault)
    };
    let kname = match applied {
        IccEntropyFault::SymbolOutOfRange => "symbol-out-of-range".to_string(),
        IccEntropyFault::BadFinalState => "bad-final-state".to_string(),
        IccEntropyFault::None if fault != IccEntropyFault::None => {
            // fault could not be applied (empty stream): this is then simply a valid stream
            case.sig(format!("hostile-skip|{pclass}"), false);
            return;
        }
        _ => kname,
    };
    case.sig(format!("hostile|{kname}|{}|{}", profile_family(&pclass), coarse_entropy(&eclass)), true);
    case.sample(format!(
        "{{\"kind\":\"inconsistent\",\"what\":{},\"profile\":{},\"len\":{},\"entropy\":{},\"enc_size\":{}}}",
        json_str(&kname),
        json_str(&pclass),
        n,
        json_str(&eclass),
        stream.len()
    ));
    case.obs("inconsistent_encodings", 1);
    match outcome {
        Outcome::ReadErr(_) => {
            case.obs("inconsistent_rejected", 1);
            case.obs_set("inconsistent_rejected_kinds", format!("{kname}@read_icc"));
        }
        Outcome::DecodeErr(enc, _, _) => {
            if applied != IccEntropyFault::None {
                case.violation(
                    format!("hostile-accepted:{kname}"),
                    format!("read_icc accepted an ICC section with entropy fault {kname}; profile {pclass} ({n} bytes), entropy {eclass}"),
                );
                return;
            }
            if !direct_only && enc != stream {
                case.violation("stream-mismatch", format!("read_icc returned a different stream ({kname}): {}", first_diff(&enc, &stream)));
                return;
            }
            case.obs("inconsistent_rejected", 1);
            case.obs_set("inconsistent_rejected_kinds", format!("{kname}@decode_icc"));
        }
        Outcome::Ok(_, _, out) => {
            // one signature for the size mismatches whose command stream ends inside the tag
            // list (a single root cause in the pinned decoder), so that the other acceptances
            // keep their own signatures
            let vsig = if ends_in_taglist && applied == IccEntropyFault::None {
                "hostile-accepted:size-mismatch-commands-end-in-taglist".to_string()
            } else {
                format!("hostile-accepted:{kname}")
            };
            case.violation(
                vsig,
                format!(
                    "inconsistent encoding ({kname}) accepted: returned {} bytes for a profile of {n} bytes ({pclass}), entropy {eclass}; encoded stream {}; profile {}",
                    out.len(),
                    short_hex(&stream, 600),
                    short_hex(&profile, 300)
                ),
            );
        }
    }
}

fn lenient_case(case: &mut Case, ambig: Ambig) {
    let rng = &mut case.rng.fork();
    let kind = if rng.bool() { IccLenient::TrailingData } else { IccLenient::UnusedCommands };
    let (profile, pclass) = loop {
        let (p, c) = gen_profile(rng, false, false);
        if p.len() <= 20_000 && (kind == IccLenient::TrailingData || p.len() <= 128) {
            break (p, c);
        }
        if kind == IccLenient::UnusedCommands {
            let n = *rng.pick(&LENS[..28]);
            let (v, name) = random_bytes(rng, n);
            break (v, format!("bytes:{name}:{}", len_class(n)));
        }
    };
    let Some(stream) = encode_lenient(&profile, rng, kind) else {
        case.sig("lenient-skip", false);
        return;
    };
    let kname = match kind {
        IccLenient::TrailingData => "trailing-data",
        IccLenient::UnusedCommands => "unused-commands",
    };
    case.set_input(&stream);
    case.sig(format!("lenient|{kname}|{}|{}", profile_family(&pclass), len_class(profile.len())), true);
    case.sample(format!(
        "{{\"kind\":\"lenient\",\"what\":{},\"profile\":{},\"len\":{}}}",
        json_str(kname),
        json_str(&pclass),
        profile.len()
    ));
    match jxl_color::icc::decode_icc(&stream) {
        Err(_) => case.obs(&format!("lenient_{kname}_rejected"), 1),
        Ok(out) => {
            case.obs(&format!("lenient_{kname}_accepted"), 1);
            if out != profile {
                case.violation(
                    "profile-mismatch",
                    format!("encoding with {kname} accepted but decoded differently: {}", first_diff(&out, &profile)),
                );
            } else if ambig == Ambig::Strict {
                case.violation(
                    format!("lenient-accepted:{kname}"),
                    format!("encoding with {kname} accepted (the reference decoder reports an error); stream {}", short_hex(&stream, 400)),
                );
            }
        }
    }
}

pub fn run(args: &Args) -> i32 {
    let ambig = match args.extra.get("ambig").map(|s| s.as_str()) {
        Some("off") => Ambig::Off,
        Some("strict") => Ambig::Strict,
        _ => Ambig::Obs,
    };
    run_cases(args, 0xC18, |case| {
        let k = case.rng.below(100);
        match k {
            0..=21 => hostile_case(case),
            22..=24 if ambig != Ambig::Off => valid_case(case, ambig, 1),
            25..=27 if ambig != Ambig::Off => valid_case(case, ambig, 2),
            28..=29 if ambig != Ambig::Off => lenient_case(case, ambig),
            _ => valid_case(case, ambig, 0),
        }
    })
}
