//! Shared workload + driver for C09 (chunking independence) and C11 (prefix = need more data).
//!
//! * `TestStream`: a complete valid file (bare codestream or container) together with the byte
//!   positions of every structural boundary, known from the WRITER (generator's frame layout and
//!   the container writer's box spans), never from the decoder.  Only the *labels* of frame
//!   sections (LfGlobal / LfGroup / pass n) and the layout of the one real file are taken from a
//!   reference decode; they are used to place cuts and to name signature classes, not as oracle.
//! * `Feeder`: drives `build_uninit` / `feed_bytes` / `try_init` / `JxlImage::feed_bytes` exactly
//!   like `JxlImageBuilder::read` does: every call is offered the bytes that were not consumed by
//!   the previous call followed by new bytes.
//! * `Snapshot`: everything the public API reports about a decoded image, samples as raw bits.

use crate::common::*;
use jxl_oxide::{AuxBoxData, InitializeResult, JxlImage, JxlThreadPool, UninitializedJxlImage};
use jxlgen::container::*;
use jxlgen::imggen::*;
use jxlgen::rng::Rng;

pub const CMYK_PATH: &str = "/repo/crates/jxl-oxide-tests/tests/cms/cmyk_layers.jxl";

// ------------------------------------------------------------------------------------------
// Streams
// ------------------------------------------------------------------------------------------

#[derive(Clone, Debug)]
pub struct FrameInfo {
    /// codestream offsets
    pub offset: usize,
    pub data_start: usize,
    /// (start, end, label) in file order
    pub sections: Vec<(usize, usize, String)>,
    pub end: usize,
    /// is this frame a keyframe (format definition: regular / skip-progressive frame that is the
    /// last one or has a non-zero duration); None = not known from the writer (real file)
    pub keyframe: Option<bool>,
}

#[derive(Clone, Debug)]
pub struct BoxInfo {
    pub start: usize,
    /// first byte after the box header
    pub payload: usize,
    /// first byte after the jxlp index / brob type (== payload for other boxes)
    pub data: usize,
    pub end: usize,
    pub codestream: bool,
}

#[derive(Clone, Debug)]
pub struct TestStream {
    pub file: Vec<u8>,
    pub container: bool,
    pub cs_len: usize,
    /// non-empty codestream segments: (codestream start, codestream end, file offset of start)
    pub segs: Vec<(usize, usize, usize)>,
    pub boxes: Vec<BoxInfo>,
    pub frames: Vec<FrameInfo>,
    /// structural boundaries as file offsets, sorted, unique
    pub marks: Vec<usize>,
    pub layout_class: String,
    pub struct_class: String,
    pub desc: String,
    /// the real multi-frame file (slow to decode)
    pub real: bool,
    /// sections labelled from the reference decode already
    pub labelled: bool,
}

impl TestStream {
    pub fn cs_to_file(&self, p: usize) -> usize {
        if !self.container {
            return p.min(self.file.len());
        }
        for &(a, b, f) in &self.segs {
            if p >= a && p < b {
                return f + (p - a);
            }
        }
        // p == cs_len (or beyond): just behind the last codestream byte
        match self.segs.last() {
            Some(&(a, b, f)) => f + (b - a),
            None => self.file.len(),
        }
    }

    /// Number of codestream bytes contained in the first `c` bytes of the file.
    pub fn cs_avail(&self, c: usize) -> usize {
        if !self.container {
            return c.min(self.cs_len);
        }
        let mut n = 0;
        for &(a, b, f) in &self.segs {
            if c > f {
                n += (c - f).min(b - a);
            }
        }
        n
    }

    /// Number of frames that are completely contained in the first `c` bytes of the file.
    pub fn frames_complete(&self, c: usize) -> usize {
        let a = self.cs_avail(c);
        self.frames.iter().take_while(|f| f.end <= a).count()
    }

    /// Number of keyframes among the frames completely contained in the first `c` bytes
    /// (None if the writer does not know which frames are keyframes).
    pub fn keyframes_complete(&self, c: usize) -> Option<usize> {
        let n = self.frames_complete(c);
        let mut k = 0;
        for f in &self.frames[..n] {
            k += f.keyframe? as usize;
        }
        Some(k)
    }

    fn cs_region(&self, p: usize) -> String {
        if p < 2 {
            return "sig".into();
        }
        let Some(f0) = self.frames.first() else { return "cs".into() };
        if p < f0.offset {
            return "imghdr".into();
        }
        for (i, f) in self.frames.iter().enumerate() {
            if p >= f.end {
                continue;
            }
            let fr = if self.frames.len() == 1 { String::new() } else if i == 0 { "f0:".into() } else if i + 1 == self.frames.len() { "fl:".into() } else { "fm:".into() };
            if p < f.data_start {
                return format!("{fr}frmhdr");
            }
            for (s, e, l) in &f.sections {
                if p >= *s && p < *e {
                    return format!("{fr}{l}");
                }
            }
            return format!("{fr}sec");
        }
        "cs-tail".into()
    }

    /// Class of the first byte that is missing when the file is cut at `c`.
    pub fn region(&self, c: usize) -> String {
        if c >= self.file.len() {
            return "end".into();
        }
        if !self.container {
            return self.cs_region(c);
        }
        if c < 12 {
            return "boxsig".into();
        }
        for b in &self.boxes {
            if c >= b.start && c < b.end {
                if c < b.payload {
                    return if b.codestream { "cs-boxhdr".into() } else { "aux-boxhdr".into() };
                }
                if c < b.data {
                    return if b.codestream { "jxlp-index".into() } else { "brob-type".into() };
                }
                if !b.codestream {
                    return "aux-data".into();
                }
                // codestream byte
                for &(a, e, f) in &self.segs {
                    if c >= f && c < f + (e - a) {
                        return self.cs_region(a + (c - f));
                    }
                }
                return "cs".into();
            }
        }
        "?".into()
    }

    fn finish_marks(&mut self) {
        let mut m: Vec<usize> = Vec::new();
        if self.container {
            m.push(12);
            for b in &self.boxes {
                m.extend_from_slice(&[b.start, b.payload, b.data, b.end]);
            }
        }
        let mut cs = vec![2usize];
        for f in &self.frames {
            cs.push(f.offset);
            cs.push(f.data_start);
            for (_, e, _) in &f.sections {
                cs.push(*e);
            }
            cs.push(f.end);
        }
        for p in cs {
            if p <= self.cs_len {
                m.push(self.cs_to_file(p));
            }
        }
        m.push(self.file.len());
        m.retain(|&x| x <= self.file.len());
        m.sort();
        m.dedup();
        self.marks = m;
    }

    /// Name the frame sections after the table of contents the reference decode reports and
    /// cross-check it with what the generator wrote.  Err = genuine disagreement.
    pub fn label_sections(&mut self, image: &JxlImage) -> Result<(), String> {
        if self.labelled {
            return Ok(());
        }
        for (i, f) in self.frames.iter_mut().enumerate() {
            let Some(fr) = image.frame(i) else { return Err(format!("frame {i} not available after a complete decode")) };
            let toc: Vec<_> = fr.toc().iter_bitstream_order().collect();
            if toc.len() != f.sections.len() {
                return Err(format!("frame {i}: decoder reports {} TOC entries, {} were written", toc.len(), f.sections.len()));
            }
            for (k, (g, s)) in toc.iter().zip(f.sections.iter_mut()).enumerate() {
                if f.offset + g.offset != s.0 || g.size as usize != s.1 - s.0 {
                    return Err(format!(
                        "frame {i}: TOC entry {k} (file order) reported at {}+{} size {}, written at {} size {}",
                        f.offset, g.offset, g.size, s.0, s.1 - s.0
                    ));
                }
                s.2 = kind_label(&g.kind);
            }
        }
        self.labelled = true;
        Ok(())
    }
}

fn kind_label(k: &jxl_frame::data::TocGroupKind) -> String {
    use jxl_frame::data::TocGroupKind::*;
    match k {
        All => "single".into(),
        LfGlobal => "lfglobal".into(),
        LfGroup(_) => "lfgroup".into(),
        HfGlobal => "hfglobal".into(),
        GroupPass { pass_idx, .. } => match pass_idx {
            0 => "pass0".into(),
            1 => "pass1".into(),
            _ => "pass2+".into(),
        },
    }
}

fn bucket(n: usize) -> &'static str {
    match n {
        0 => "0",
        1 => "1",
        2..=3 => "2-3",
        4..=8 => "4-8",
        9..=40 => "9-40",
        _ => "41+",
    }
}

/// Wrap a codestream (bare, or random valid container layout) and record all offsets.
pub fn build_stream(cs: &[u8], frames: Vec<FrameInfo>, struct_class: String, desc: String, rng: &mut Rng, wrap: Option<&WrapOpts>, real: bool) -> TestStream {
    let mut st = TestStream {
        file: Vec::new(),
        container: wrap.is_some(),
        cs_len: cs.len(),
        segs: Vec::new(),
        boxes: Vec::new(),
        frames,
        marks: Vec::new(),
        layout_class: String::new(),
        struct_class,
        desc,
        real,
        labelled: real,
    };
    match wrap {
        None => {
            st.file = cs.to_vec();
            st.segs.push((0, cs.len(), 0));
            st.layout_class = "bare".into();
        }
        Some(o) => {
            let layout = random_layout(cs, rng, o);
            let (file, spans) = write_container_spans(&layout);
            let mut pos = 0usize;
            let (mut parts, mut empty, mut brob, mut s64, mut eof) = (0usize, false, false, false, false);
            let (mut aux_before, mut aux_between, mut aux_after) = (0usize, 0usize, 0usize);
            let n_cs = layout.boxes.iter().filter(|b| b.is_codestream()).count();
            let mut jxlc = false;
            for (b, sp) in layout.boxes.iter().zip(&spans) {
                let is_cs = b.is_codestream();
                let mut data = sp.payload;
                if is_cs && b.ty == T_JXLP {
                    data = (sp.payload + 4).min(sp.end);
                } else if b.brob.is_some() {
                    data = (sp.payload + 4).min(sp.end);
                    brob = true;
                }
                if is_cs {
                    jxlc |= b.ty == T_JXLC;
                    parts += 1;
                    let len = sp.end - data;
                    if len == 0 {
                        empty = true;
                    } else {
                        st.segs.push((pos, pos + len, data));
                        pos += len;
                    }
                } else if b.ty != T_FTYP || parts > 0 {
                    if parts == 0 {
                        aux_before += 1;
                    } else if parts < n_cs {
                        aux_between += 1;
                    } else {
                        aux_after += 1;
                    }
                }
                s64 |= b.size_form == SizeForm::S64;
                eof |= b.size_form == SizeForm::ToEof;
                st.boxes.push(BoxInfo { start: sp.start, payload: sp.payload, data, end: sp.end, codestream: is_cs });
            }
            st.layout_class = format!(
                "{}{}|aux{}{}{}{}{}{}",
                if jxlc { "jxlc".to_string() } else { format!("jxlp{}", bucket(parts)) },
                if empty { "e" } else { "" },
                if aux_before > 0 { "B" } else { "" },
                if aux_between > 0 { "M" } else { "" },
                if aux_after > 0 { "A" } else { "" },
                if brob { "|brob" } else { "" },
                if s64 { "|s64" } else { "" },
                if eof { "|eof" } else { "" },
            );
            st.file = file;
        }
    }
    st.finish_marks();
    st
}

pub fn image_struct_class(img: &ModularImage) -> String {
    let g = img.fh.group_dim();
    let m = img.ih.size.width.max(img.ih.size.height);
    let size = if m <= 8 { "tiny" } else if m <= g { "1group" } else { "multi" };
    format!(
        "{}|sec{}|p{}|{}ec{}|{}{}",
        size,
        bucket(img.frame_layout.sections.len()),
        match img.fh.passes.num_passes { 1 => "1", 2 => "2", 3 => "3", _ => "4+" },
        if img.desc.contains("perm=true") { "perm|" } else { "" },
        bucket(img.truth.len() - img.num_color),
        if img.ih.metadata.modular_16bit_buffers { "n16" } else { "w32" },
        if img.ih.metadata.orientation > 4 { "|T" } else { "" },
    )
}

pub fn frames_of(img: &ModularImage) -> Vec<FrameInfo> {
    let fl = &img.frame_layout;
    vec![FrameInfo {
        offset: fl.offset,
        data_start: fl.data_start,
        sections: fl.sections.iter().map(|&(s, e)| (s, e, "sec".to_string())).collect(),
        end: fl.end,
        keyframe: Some(true),
    }]
}

pub struct GenParams {
    /// weights of size classes 0..=4 (out of their sum)
    pub size_weights: [u64; 5],
    pub max_dim: u32,
    /// percentage of bare codestreams
    pub bare_pct: u64,
    pub big_every: u64,
    /// if set, regenerate (a few times) until the file is at most this long
    pub prefer_max_len: Option<usize>,
    /// force a multi-section frame (multi-group or multi-pass)
    pub want_multi_section: bool,
}

pub fn wrap_opts(rng: &mut Rng, big_every: u64) -> WrapOpts {
    let mut o = WrapOpts::default();
    o.allow_jbrd = false; // junk jbrd content is (rightly) refused by the jbrd parser
    o.big_every = big_every;
    o.exif_valid = !rng.chance(1, 10);
    o.max_aux = 6;
    o
}

/// Random generated stream; None = generator gave up.
pub fn gen_stream(rng: &mut Rng, p: &GenParams) -> Option<(TestStream, ModularImage)> {
    let mut best: Option<ModularImage> = None;
    for _attempt in 0..40 {
        let tot: u64 = p.size_weights.iter().sum();
        let mut r = rng.below(tot.max(1));
        let mut sc = 0u32;
        for (i, w) in p.size_weights.iter().enumerate() {
            if r < *w {
                sc = i as u32;
                break;
            }
            r -= *w;
        }
        if p.want_multi_section {
            sc = 3;
        }
        let opts = ImgOpts { size_class: sc, max_dim: p.max_dim, orientation: rng.chance(1, 3), preview: 1, ..Default::default() };
        let Some(img) = gen_modular_image(rng, &opts) else { continue };
        if p.want_multi_section && img.frame_layout.sections.len() < 2 {
            continue;
        }
        if let Some(maxlen) = p.prefer_max_len {
            if img.bytes.len() + 200 > maxlen {
                // keep the shortest seen so far as a fallback, try again a few times
                if best.as_ref().map_or(true, |b| b.bytes.len() > img.bytes.len()) {
                    best = Some(img);
                }
                if _attempt < 6 {
                    continue;
                }
            } else {
                best = Some(img);
            }
        } else {
            best = Some(img);
        }
        break;
    }
    let img = best?;
    let bare = rng.below(100) < p.bare_pct;
    let wo = wrap_opts(rng, p.big_every);
    let st = build_stream(
        &img.bytes,
        frames_of(&img),
        image_struct_class(&img),
        format!("{} | {}", img.desc, img.enc_desc),
        rng,
        if bare { None } else { Some(&wo) },
        false,
    );
    Some((st, img))
}

/// Random generated multi-frame stream (layers / animation / reference-only frames, crops,
/// blend modes) from `jxlgen::anim`; None = generator gave up.
pub fn gen_anim_stream(rng: &mut Rng, max_dim: u32, multi_group: bool, bare_pct: u64, big_every: u64) -> Option<(TestStream, jxlgen::anim::AnimImage)> {
    use jxlgen::anim::*;
    let opts = AnimOpts { max_frames: 6, max_dim, multi_group, plain_entropy: rng.chance(1, 2), ..Default::default() };
    let mut img = None;
    for _ in 0..20 {
        if let Some(i) = gen_animation(rng, &opts) {
            img = Some(i);
            break;
        }
    }
    let img = img?;
    let frames: Vec<FrameInfo> = img
        .frames
        .iter()
        .map(|f| FrameInfo {
            offset: f.layout.offset,
            data_start: f.layout.data_start,
            sections: f.layout.sections.iter().map(|&(s, e)| (s, e, "sec".to_string())).collect(),
            end: f.layout.end,
            keyframe: Some(f.fh.is_keyframe()),
        })
        .collect();
    let kf = frames.iter().filter(|f| f.keyframe == Some(true)).count();
    let nsec: usize = frames.iter().map(|f| f.sections.len()).sum();
    let has_ref = img.frames.iter().any(|f| f.fh.frame_type == jxlgen::headers::FrameType::ReferenceOnly);
    let has_crop = img.frames.iter().any(|f| f.fh.have_crop);
    let struct_class = format!(
        "anim|f{}|kf{}|sec{}|ec{}{}{}{}",
        bucket(frames.len()),
        bucket(kf),
        bucket(nsec),
        bucket(img.ih.metadata.ec_info.len()),
        if img.ih.metadata.animation.is_some() { "|timed" } else { "|layers" },
        if has_ref { "|ref" } else { "" },
        if has_crop { "|crop" } else { "" },
    );
    let bare = rng.below(100) < bare_pct;
    let wo = wrap_opts(rng, big_every);
    let st = build_stream(&img.bytes, frames, struct_class, img.desc.clone(), rng, if bare { None } else { Some(&wo) }, false);
    Some((st, img))
}

/// The real multi-frame CMYK file with ICC: codestream + frame layout (from a reference decode,
/// used for cut placement and labels only).
pub struct RealFile {
    pub codestream: Vec<u8>,
    pub frames: Vec<FrameInfo>,
    pub struct_class: String,
}

pub fn load_real() -> Option<RealFile> {
    let file = std::fs::read(CMYK_PATH).ok()?;
    let (_, codestream, _) = extract(&file)?;
    let r = guarded(|| -> Option<Vec<FrameInfo>> {
        let img = JxlImage::builder().pool(JxlThreadPool::none()).read(std::io::Cursor::new(&codestream)).ok()?;
        let mut v = Vec::new();
        for i in 0..img.num_loaded_frames() {
            let off = img.frame_offset(i)?;
            let fr = img.frame(i)?;
            let toc: Vec<_> = fr.toc().iter_bitstream_order().collect();
            let data_start = off + toc.first().map(|g| g.offset).unwrap_or(0);
            let sections: Vec<(usize, usize, String)> = toc.iter().map(|g| (off + g.offset, off + g.offset + g.size as usize, kind_label(&g.kind))).collect();
            let end = sections.last().map(|s| s.1).unwrap_or(data_start);
            v.push(FrameInfo { offset: off, data_start, sections, end, keyframe: None });
        }
        Some(v)
    })
    .ok()??;
    if r.is_empty() {
        return None;
    }
    let nsec: usize = r.iter().map(|f| f.sections.len()).sum();
    let struct_class = format!("real|frames{}|sec{}", r.len(), bucket(nsec));
    Some(RealFile { codestream, frames: r, struct_class })
}

pub fn real_stream(real: &RealFile, rng: &mut Rng) -> TestStream {
    let bare = rng.chance(1, 3);
    let mut wo = wrap_opts(rng, 1_000_000);
    wo.exif_valid = true;
    build_stream(&real.codestream, real.frames.clone(), real.struct_class.clone(), "cmyk_layers.jxl (re-wrapped)".into(), rng, if bare { None } else { Some(&wo) }, true)
}

// ------------------------------------------------------------------------------------------
// Snapshot of everything the API reports
// ------------------------------------------------------------------------------------------

#[derive(Clone, Debug, PartialEq, Eq)]
pub struct PlaneSnap {
    /// 0 = i32, 1 = i16, 2 = f32
    pub kind: u8,
    pub w: usize,
    pub h: usize,
    /// raw bits of every sample
    pub bits: Vec<u32>,
}

#[derive(Clone, Debug, PartialEq, Eq)]
pub struct KeyframeSnap {
    pub name: String,
    pub duration: u32,
    pub orientation: u32,
    pub keyframe_index: usize,
    pub color_channels: usize,
    pub planes: Vec<PlaneSnap>,
    /// (width, height, channels) of `image_all_channels()`; only filled when asked for
    pub all_channels: Option<(usize, usize, usize)>,
}

#[derive(Clone, Debug, PartialEq, Eq)]
pub struct Snapshot {
    pub header: String,
    pub dims: (u32, u32),
    pub pixel_format: String,
    pub icc: Option<Vec<u8>>,
    pub loaded_frames: usize,
    pub loaded_keyframes: usize,
    /// frame_offset(i) for i in 0..=loaded_frames
    pub offsets: Vec<Option<usize>>,
    /// Debug string of every frame header
    pub frame_headers: Vec<String>,
    pub done: bool,
    pub exif: String,
    pub xml: String,
    pub jpeg: String,
    /// Ok(keyframes) or the render error text
    pub renders: Result<Vec<KeyframeSnap>, String>,
}

fn plane_snap(b: &jxl_render::ImageBuffer) -> PlaneSnap {
    use jxl_render::ImageBuffer::*;
    match b {
        F32(g) => PlaneSnap { kind: 2, w: g.width(), h: g.height(), bits: g.buf().iter().map(|v| v.to_bits()).collect() },
        I32(g) => PlaneSnap { kind: 0, w: g.width(), h: g.height(), bits: g.buf().iter().map(|&v| v as u32).collect() },
        I16(g) => PlaneSnap { kind: 1, w: g.width(), h: g.height(), bits: g.buf().iter().map(|&v| v as i32 as u32).collect() },
    }
}

pub fn exif_state(image: &JxlImage) -> String {
    match image.aux_boxes().first_exif() {
        Ok(AuxBoxData::Data(x)) => format!("data(off={},len={},fnv={:016x})", x.tiff_header_offset(), x.payload().len(), fnv_bytes(x.payload())),
        Ok(AuxBoxData::Decoding) => "decoding".into(),
        Ok(AuxBoxData::NotFound) => "notfound".into(),
        Err(e) => format!("err({e})"),
    }
}

pub fn xml_state(image: &JxlImage) -> String {
    match image.aux_boxes().first_xml() {
        AuxBoxData::Data(x) => format!("data(len={},fnv={:016x})", x.len(), fnv_bytes(x)),
        AuxBoxData::Decoding => "decoding".into(),
        AuxBoxData::NotFound => "notfound".into(),
    }
}

pub fn fnv_bytes(b: &[u8]) -> u64 {
    let mut h: u64 = 0xcbf29ce484222325;
    for &x in b {
        h ^= x as u64;
        h = h.wrapping_mul(0x100000001b3);
    }
    h
}

pub fn snapshot(image: &JxlImage, with_all_channels: bool) -> Snapshot {
    let frames = image.num_loaded_frames();
    let keyframes = image.num_loaded_keyframes();
    let mut renders = Ok(Vec::new());
    for k in 0..keyframes {
        match image.render_frame(k) {
            Ok(r) => {
                let mut planes: Vec<PlaneSnap> = r.color_channels().iter().map(plane_snap).collect();
                planes.extend(r.extra_channels().1.iter().map(plane_snap));
                let all_channels = if with_all_channels {
                    let fb = r.image_all_channels();
                    Some((fb.width(), fb.height(), fb.channels()))
                } else {
                    None
                };
                if let Ok(v) = &mut renders {
                    v.push(KeyframeSnap {
                        name: r.name().to_string(),
                        duration: r.duration(),
                        orientation: r.orientation(),
                        keyframe_index: r.keyframe_index(),
                        color_channels: r.color_channels().len(),
                        planes,
                        all_channels,
                    });
                }
            }
            Err(e) => {
                renders = Err(format!("keyframe {k}: {e}"));
                break;
            }
        }
    }
    Snapshot {
        header: format!("{:?}", image.image_header()),
        dims: (image.width(), image.height()),
        pixel_format: format!("{:?}", image.pixel_format()),
        icc: image.original_icc().map(|x| x.to_vec()),
        loaded_frames: frames,
        loaded_keyframes: keyframes,
        offsets: (0..=frames).map(|i| image.frame_offset(i)).collect(),
        frame_headers: (0..frames).map(|i| image.frame(i).map(|f| format!("{:?}", f.header())).unwrap_or_else(|| "<none>".into())).collect(),
        done: image.is_loading_done(),
        exif: exif_state(image),
        xml: xml_state(image),
        jpeg: format!("{:?}", image.jpeg_reconstruction_status()),
        renders,
    }
}

/// First difference between two snapshots: (field class, description).
pub fn diff(a: &Snapshot, b: &Snapshot) -> Option<(&'static str, String)> {
    if a.header != b.header {
        return Some(("header", format!("image_header differs:\n  ref: {}\n  got: {}", a.header, b.header)));
    }
    if a.dims != b.dims || a.pixel_format != b.pixel_format {
        return Some(("dims", format!("dims/pixel format {:?} {} vs {:?} {}", a.dims, a.pixel_format, b.dims, b.pixel_format)));
    }
    if a.icc != b.icc {
        return Some(("icc", format!("original_icc differs ({:?} vs {:?} bytes)", a.icc.as_ref().map(|x| x.len()), b.icc.as_ref().map(|x| x.len()))));
    }
    if a.loaded_frames != b.loaded_frames || a.loaded_keyframes != b.loaded_keyframes {
        return Some(("frame-count", format!("loaded frames/keyframes {}/{} vs {}/{}", a.loaded_frames, a.loaded_keyframes, b.loaded_frames, b.loaded_keyframes)));
    }
    if a.offsets != b.offsets {
        return Some(("frame-offset", format!("frame offsets {:?} vs {:?}", a.offsets, b.offsets)));
    }
    if a.frame_headers != b.frame_headers {
        return Some(("frame-header", "frame headers differ".to_string()));
    }
    if a.done != b.done {
        return Some(("done-flag", format!("is_loading_done {} vs {}", a.done, b.done)));
    }
    if a.exif != b.exif {
        return Some(("exif", format!("first_exif {} vs {}", a.exif, b.exif)));
    }
    if a.xml != b.xml {
        return Some(("xml", format!("first_xml {} vs {}", a.xml, b.xml)));
    }
    if a.jpeg != b.jpeg {
        return Some(("jpeg-status", format!("jpeg_reconstruction_status {} vs {}", a.jpeg, b.jpeg)));
    }
    match (&a.renders, &b.renders) {
        (Ok(x), Ok(y)) => {
            if x.len() != y.len() {
                return Some(("render-count", format!("{} vs {} keyframes rendered", x.len(), y.len())));
            }
            for (k, (p, q)) in x.iter().zip(y).enumerate() {
                if (&p.name, p.duration, p.orientation, p.keyframe_index, p.color_channels) != (&q.name, q.duration, q.orientation, q.keyframe_index, q.color_channels) {
                    return Some(("render-meta", format!("keyframe {k}: render metadata differs")));
                }
                if p.planes.len() != q.planes.len() {
                    return Some(("render-channels", format!("keyframe {k}: {} vs {} planes", p.planes.len(), q.planes.len())));
                }
                for (c, (u, v)) in p.planes.iter().zip(&q.planes).enumerate() {
                    if (u.kind, u.w, u.h) != (v.kind, v.w, v.h) {
                        return Some(("plane-shape", format!("keyframe {k} channel {c}: type/size ({},{}x{}) vs ({},{}x{})", u.kind, u.w, u.h, v.kind, v.w, v.h)));
                    }
                    if let Some(i) = u.bits.iter().zip(&v.bits).position(|(s, t)| s != t) {
                        let n = u.bits.iter().zip(&v.bits).filter(|(s, t)| s != t).count();
                        return Some((
                            "samples",
                            format!(
                                "keyframe {k} channel {c}: {n} of {} samples differ, first at ({},{}): ref bits {:#x} got {:#x}",
                                u.bits.len(),
                                i % u.w.max(1),
                                i / u.w.max(1),
                                u.bits[i],
                                v.bits[i]
                            ),
                        ));
                    }
                }
                if p.all_channels.is_some() && q.all_channels.is_some() && p.all_channels != q.all_channels {
                    return Some(("render-meta", format!("keyframe {k}: image_all_channels shape differs")));
                }
            }
            None
        }
        (Err(x), Err(y)) if x == y => None,
        (x, y) => Some(("render-result", format!("render result differs: ref {} / got {}", x.as_ref().map(|_| "ok".to_string()).unwrap_or_else(|e| e.clone()), y.as_ref().map(|_| "ok".to_string()).unwrap_or_else(|e| e.clone())))),
    }
}

// ------------------------------------------------------------------------------------------
// Feeding
// ------------------------------------------------------------------------------------------

pub enum St {
    U(UninitializedJxlImage),
    I(Box<JxlImage>),
    Gone,
}

#[derive(Clone, Debug)]
pub struct Fail {
    /// violation class
    pub kind: String,
    pub detail: String,
    /// bytes of the file that had been offered when it happened
    pub at: usize,
}

pub struct Feeder<'a> {
    pub file: &'a [u8],
    pub st: St,
    /// bytes consumed so far (start of the next offer)
    pub base: usize,
    /// end of the last offer
    pub avail: usize,
    pub feeds: u64,
    pub short_consumes: u64,
    pub inits: u64,
}

impl<'a> Feeder<'a> {
    pub fn new(file: &'a [u8]) -> Self {
        Self { file, st: St::U(JxlImage::builder().pool(JxlThreadPool::none()).build_uninit()), base: 0, avail: 0, feeds: 0, short_consumes: 0, inits: 0 }
    }

    pub fn initialised(&self) -> bool {
        matches!(self.st, St::I(_))
    }

    /// Offer `file[base..end]`: the bytes the previous call did not consume plus new ones.
    pub fn offer_to(&mut self, end: usize) -> Result<(), Fail> {
        let end = end.min(self.file.len()).max(self.avail).max(self.base);
        self.avail = end;
        let buf = &self.file[self.base..end];
        self.feeds += 1;
        let r = match &mut self.st {
            St::U(u) => u.feed_bytes(buf),
            St::I(i) => i.feed_bytes(buf),
            St::Gone => return Err(Fail { kind: "harness".into(), detail: "decoder gone".into(), at: end }),
        };
        match r {
            Ok(c) if c <= buf.len() => {
                if c < buf.len() {
                    self.short_consumes += 1;
                }
                self.base += c;
                Ok(())
            }
            Ok(c) => Err(Fail { kind: "consumed-count".into(), detail: format!("feed_bytes returned {c} for a buffer of {} bytes ({} of {} bytes offered)", buf.len(), end, self.file.len()), at: end }),
            Err(e) => Err(Fail {
                kind: "feed-error".into(),
                detail: format!("feed_bytes({} bytes, {} of {} bytes of a valid file offered, initialised={}) failed: {e}", buf.len(), end, self.file.len(), self.initialised()),
                at: end,
            }),
        }
    }

    /// `try_init` if not yet initialised. Ok(true) = initialised (now or earlier).
    pub fn try_init(&mut self) -> Result<bool, Fail> {
        match std::mem::replace(&mut self.st, St::Gone) {
            St::U(u) => {
                self.inits += 1;
                match u.try_init() {
                    Ok(InitializeResult::NeedMoreData(u)) => {
                        self.st = St::U(u);
                        Ok(false)
                    }
                    Ok(InitializeResult::Initialized(i)) => {
                        self.st = St::I(Box::new(i));
                        Ok(true)
                    }
                    Err(e) => Err(Fail { kind: "init-error".into(), detail: format!("try_init failed with {} of {} bytes of a valid file offered: {e}", self.avail, self.file.len()), at: self.avail }),
                }
            }
            other => {
                let r = matches!(other, St::I(_));
                self.st = other;
                Ok(r)
            }
        }
    }

    pub fn image(&mut self) -> Option<&mut JxlImage> {
        match &mut self.st {
            St::I(i) => Some(i),
            _ => None,
        }
    }

    /// Offer everything that is left (one call, repeated while it makes progress), initialise if
    /// necessary, `finalize()`. Err on any decoder error or if bytes of the valid file are left over.
    pub fn complete(&mut self) -> Result<(), Fail> {
        let n = self.file.len();
        loop {
            let before = self.base;
            self.offer_to(n)?;
            self.try_init()?;
            if self.base == n || self.base == before {
                break;
            }
        }
        if !self.try_init()? {
            return Err(Fail { kind: "no-init".into(), detail: "image did not initialise although the complete file was offered".into(), at: n });
        }
        if self.base != n {
            return Err(Fail { kind: "unconsumed-tail".into(), detail: format!("{} bytes of a complete valid file were never consumed", n - self.base), at: n });
        }
        match self.image().unwrap().finalize() {
            Ok(()) => Ok(()),
            Err(e) => Err(Fail { kind: "finalize-error".into(), detail: format!("finalize failed: {e}"), at: n }),
        }
    }
}

/// How a caller cuts the stream into feed calls.
#[derive(Clone, Debug)]
pub enum Plan {
    /// offers end at these positions (ascending); `init_every`: call try_init after every n-th
    /// feed only (0 = only once, after the complete stream was offered)
    Ends { ends: Vec<usize>, init_every: usize },
    /// fixed-capacity read buffer like `JxlImageBuilder::read`: every offer is at most `cap`
    /// bytes long (unconsumed bytes stay in front)
    Window { cap: usize },
    /// large random chunks, but whenever a call leaves bytes unconsumed the next call offers
    /// them again with exactly one more byte
    Creep { max: usize, seed: u64 },
}

/// Decode the whole file with the given plan; returns the decoder ready for a snapshot.
pub fn run_plan<'a>(file: &'a [u8], plan: &Plan) -> Result<Feeder<'a>, Fail> {
    let n = file.len();
    let mut f = Feeder::new(file);
    match plan {
        Plan::Ends { ends, init_every } => {
            let mut k = 0usize;
            for &e in ends {
                if e > n {
                    break;
                }
                f.offer_to(e)?;
                k += 1;
                if *init_every != 0 && k % *init_every == 0 {
                    f.try_init()?;
                }
            }
        }
        Plan::Window { cap } => {
            let cap = (*cap).max(32);
            while f.avail < n {
                let before = (f.base, f.avail);
                f.offer_to(f.base + cap)?;
                f.try_init()?;
                if (f.base, f.avail) == before {
                    break;
                }
            }
        }
        Plan::Creep { max, seed } => {
            let mut rng = Rng::new(*seed);
            while f.avail < n {
                let left_over = f.avail - f.base;
                let step = if left_over > 0 { 1 } else { rng.urange(1, (*max).max(1)) };
                f.offer_to(f.avail + step)?;
                if rng.chance(3, 4) {
                    f.try_init()?;
                }
            }
        }
    }
    f.complete()?;
    Ok(f)
}

/// Run `f`, turning a panic inside the decoder into a `Fail`; a panic inside the harness is
/// re-raised (and then counted as harness error by the case loop).
pub fn guard_fail<T>(at: usize, f: impl FnOnce() -> Result<T, Fail>) -> Result<T, Fail> {
    match guarded(f) {
        Ok(r) => r,
        Err((loc, msg)) => {
            if is_repo_location(&loc) {
                Err(Fail { kind: format!("panic@{}", loc.trim_start_matches("/repo/")), detail: format!("panic at {loc}: {msg}"), at })
            } else {
                panic!("harness panic at {loc}: {msg}");
            }
        }
    }
}

/// Is this error of the "need more data" class? Walks the `source()` chain on its own (does not
/// rely on the decoder's `unexpected_eof()` helpers): `jxl_render::Error::IncompleteFrame`, or
/// any link that is an `std::io::Error` of kind `UnexpectedEof`.
pub fn need_more_data_class(e: &(dyn std::error::Error + 'static)) -> Option<&'static str> {
    if let Some(jxl_render::Error::IncompleteFrame) = e.downcast_ref::<jxl_render::Error>() {
        return Some("incomplete");
    }
    let mut cur: Option<&(dyn std::error::Error + 'static)> = Some(e);
    let mut depth = 0;
    while let Some(x) = cur {
        if let Some(io) = x.downcast_ref::<std::io::Error>() {
            if io.kind() == std::io::ErrorKind::UnexpectedEof {
                return Some("eof");
            }
        }
        if let Some(jxl_bitstream::Error::Io(io)) = x.downcast_ref::<jxl_bitstream::Error>() {
            if io.kind() == std::io::ErrorKind::UnexpectedEof {
                return Some("eof");
            }
        }
        cur = x.source();
        depth += 1;
        if depth > 16 {
            break;
        }
    }
    None
}

/// Positions b-r..=b+r around every structural boundary, clipped to 0..=len.
pub fn around_marks(st: &TestStream, r: usize) -> Vec<usize> {
    let n = st.file.len();
    let mut v = Vec::new();
    for &m in &st.marks {
        for d in 0..=2 * r {
            let p = (m + d).saturating_sub(r);
            if p <= n {
                v.push(p);
            }
        }
    }
    v.sort();
    v.dedup();
    v
}
