//! Directed experiments (debug aid, not a registered check).
use crate::dec::*;

pub fn run() -> i32 {
    let path = std::env::var("LAB_FILE").unwrap_or_else(|_| "/tmp/in.jxl".into());
    let bytes = std::fs::read(&path).expect("read");
    let mut image = open_image(&bytes, Pool::None, true).expect("open");
    println!("pixel format {:?}", image.pixel_format());
    let mode = std::env::var("LAB_MODE").unwrap_or_default();
    if mode.contains("icc") {
        let icc = image.rendered_icc();
        println!("rendered icc {} bytes; request_icc -> {:?}", icc.len(), image.request_icc(&icc).map(|_| ()));
    }
    if mode.contains("orig") {
        let icc = image.original_icc().map(|x| x.to_vec()).unwrap_or_default();
        println!("original icc {} bytes; request_icc -> {:?}", icc.len(), image.request_icc(&icc).map(|_| ()));
    }
    match image.render_frame(0) {
        Ok(r) => println!("render ok, {} planes", r.image_planar().len()),
        Err(e) => println!("render err {e}"),
    }
    0
}

pub fn preview_probe() -> i32 {
    let mut rng = jxlgen::rng::Rng::new(5);
    let (mut ok, mut bad) = (0, 0);
    for _ in 0..40 {
        let big: u32 = std::env::var("LAB_PREVIEW_DIM").ok().and_then(|v| v.parse().ok()).unwrap_or(40);
        let Some(b) = jxlgen::hostile::preview_carrier_modular_sized(&mut rng, big) else { continue };
        match open_image(&b, Pool::None, true) {
            Ok(img) => match img.render_frame(0) {
                Ok(_) => ok += 1,
                Err(e) => {
                    bad += 1;
                    println!("render err {e}");
                }
            },
            Err(e) => {
                bad += 1;
                println!("open err {e}");
            }
        }
    }
    println!("ok {ok} bad {bad}");
    0
}

pub fn limit_probe() -> i32 {
    let path = std::env::var("LAB_FILE").unwrap_or_else(|_| "/tmp/in.jxl".into());
    let limit: usize = std::env::var("LAB_LIMIT").ok().and_then(|v| v.parse().ok()).unwrap_or(1 << 40);
    let bytes = std::fs::read(&path).expect("read");
    let render = |limit: usize| -> Result<(Vec<Vec<u32>>, usize), String> {
        let tracker = jxl_grid::AllocTracker::with_limit(limit);
        let image = jxl_oxide::JxlImage::builder().pool(jxl_oxide::JxlThreadPool::none()).alloc_tracker(tracker.clone()).read(std::io::Cursor::new(&bytes[..])).map_err(|e| format!("read: {e}"))?;
        let r0 = tracker.verif_refused();
        let r = image.render_frame(0).map_err(|e| format!("render: {e}"))?;
        let planes = r.image_planar().iter().map(|fb| fb.buf().iter().map(|v| v.to_bits()).collect()).collect();
        Ok((planes, tracker.verif_refused() - r0))
    };
    let full = render(1 << 40);
    let lim = render(limit);
    match (&full, &lim) {
        (Ok((a, _)), Ok((b, refused))) => println!("both ok; refused under limit: {refused}; outputs equal: {}", a == b),
        _ => println!("full {:?} limited {:?}", full.as_ref().map(|x| x.1), lim.as_ref().map(|x| x.1)),
    }
    0
}
