//! Directed experiments (debug aid, not a registered check).
use crate::dec::*;

pub fn run() -> i32 {
    let path = std::env::var("LAB_FILE").unwrap_or_else(|_| "/tmp/in.jxl".into());
    let bytes = std::fs::read(&path).expect("read");
    let mut image = open_image(&bytes, Pool::None, true).expect("open");
    println!("pixel format {:?}", image.pixel_format());
    let mode = std::env::var("LAB_MODE").unwrap_or_default();
    if mode.contains("icc") {
        let icc = image.rendered_icc();
        println!("rendered icc {} bytes; request_icc -> {:?}", icc.len(), image.request_icc(&icc).map(|_| ()));
    }
    if mode.contains("orig") {
        let icc = image.original_icc().map(|x| x.to_vec()).unwrap_or_default();
        println!("original icc {} bytes; request_icc -> {:?}", icc.len(), image.request_icc(&icc).map(|_| ()));
    }
    match image.render_frame(0) {
        Ok(r) => println!("render ok, {} planes", r.image_planar().len()),
        Err(e) => println!("render err {e}"),
    }
    0
}

pub fn preview_probe() -> i32 {
    let mut rng = jxlgen::rng::Rng::new(5);
    let (mut ok, mut bad) = (0, 0);
    for _ in 0..40 {
        let big: u32 = std::env::var("LAB_PREVIEW_DIM").ok().and_then(|v| v.parse().ok()).unwrap_or(40);
        let Some(b) = jxlgen::hostile::preview_carrier_modular_sized(&mut rng, big) else { continue };
        match open_image(&b, Pool::None, true) {
            Ok(img) => match img.render_frame(0) {
                Ok(_) => ok += 1,
                Err(e) => {
                    bad += 1;
                    println!("render err {e}");
                }
            },
            Err(e) => {
                bad += 1;
                println!("open err {e}");
            }
        }
    }
    println!("ok {ok} bad {bad}");
    0
}

pub fn limit_probe() -> i32 {
    let path = std::env::var("LAB_FILE").unwrap_or_else(|_| "/tmp/in.jxl".into());
    let limit: usize = std::env::var("LAB_LIMIT").ok().and_then(|v| v.parse().ok()).unwrap_or(1 << 40);
    let bytes = std::fs::read(&path).expect("read");
    let render = |limit: usize| -> Result<(Vec<Vec<u32>>, usize), String> {
        let tracker = jxl_grid::AllocTracker::with_limit(limit);
        let image = jxl_oxide::JxlImage::builder().pool(jxl_oxide::JxlThreadPool::none()).alloc_tracker(tracker.clone()).read(std::io::Cursor::new(&bytes[..])).map_err(|e| format!("read: {e}"))?;
        let r0 = tracker.verif_refused();
        let r = image.render_frame(0).map_err(|e| format!("render: {e}"))?;
        let planes = r.image_planar().iter().map(|fb| fb.buf().iter().map(|v| v.to_bits()).collect()).collect();
        Ok((planes, tracker.verif_refused() - r0))
    };
    let full = render(1 << 40);
    let lim = render(limit);
    match (&full, &lim) {
        (Ok((a, _)), Ok((b, refused))) => println!("both ok; refused under limit: {refused}; outputs equal: {}", a == b),
        _ => println!("full {:?} limited {:?}", full.as_ref().map(|x| x.1), lim.as_ref().map(|x| x.1)),
    }
    0
}

pub fn squeeze_probe() -> i32 {
    use jxlgen::modmodel::{SqueezeParam, Transform};
    let sp = |h: bool, ip: bool, b: u32, n: u32| SqueezeParam { horizontal: h, in_place: ip, begin_c: b, num_c: n };
    let variants: Vec<(&str, Vec<SqueezeParam>)> = vec![
        ("full", vec![sp(false, false, 0, 1), sp(false, true, 1, 1), sp(true, true, 1, 2)]),
        ("no3", vec![sp(false, false, 0, 1), sp(false, true, 1, 1)]),
        ("no2", vec![sp(false, false, 0, 1), sp(true, true, 1, 1)]),
        ("only1", vec![sp(false, false, 0, 1)]),
        ("3-as-h-notinplace", vec![sp(false, false, 0, 1), sp(false, true, 1, 1), sp(true, false, 1, 2)]),
        ("3-one-channel", vec![sp(false, false, 0, 1), sp(false, true, 1, 1), sp(true, true, 1, 1)]),
        ("3-ch2-only", vec![sp(false, false, 0, 1), sp(false, true, 1, 1), sp(true, true, 2, 1)]),
    ];
    let dims: Vec<(u32, u32)> = vec![(3, 42), (4, 42), (3, 40), (8, 8), (1, 42), (2, 42)];
    for (w, h) in dims {
        for (name, v) in &variants {
            let mut ok = 0;
            let mut bad = 0;
            let mut first = String::new();
            for seed in 0..6u64 {
                let mut rng = jxlgen::rng::Rng::new(100 + seed);
                let opts = jxlgen::imggen::ImgOpts { fixed_dims: Some((w, h)), force_transforms: Some(vec![Transform::Squeeze(v.clone())]), max_extra: 0, bit_depth: Some(8), allow_local: false, ..Default::default() };
                let Some(img) = jxlgen::imggen::gen_modular_image(&mut rng, &opts) else { continue };
                if img.infos.len() != 1 {
                    continue;
                }
                match open_image(&img.bytes, Pool::None, true).map_err(|e| e.to_string()).and_then(|i| frame_level_modular::<i32>(&i, 0).map_err(|e| e.to_string())) {
                    Ok(got) => {
                        if got[0].2 == img.truth[0].data {
                            ok += 1
                        } else {
                            bad += 1;
                            if first.is_empty() {
                                first = "mismatch".into();
                            }
                        }
                    }
                    Err(e) => {
                        bad += 1;
                        if first.is_empty() {
                            first = e;
                        }
                    }
                }
            }
            println!("{w}x{h} {name}: ok {ok} bad {bad} {first}");
        }
    }
    0
}

pub fn order_probe() -> i32 {
    let path = std::env::var("LAB_FILE").unwrap_or_else(|_| "/tmp/in.jxl".into());
    let bytes = std::fs::read(&path).expect("read");
    let orders: Vec<Vec<usize>> = vec![vec![2], vec![0, 2], vec![1, 2], vec![0, 1, 2], vec![2, 1, 0, 2], vec![1, 0, 2], vec![2, 2]];
    let mut base: Option<Vec<Vec<u32>>> = None;
    for o in orders {
        let image = open_image(&bytes, Pool::None, false).expect("open");
        let mut last = None;
        for &k in &o {
            match image.render_frame(k) {
                Ok(r) => {
                    let bits: Vec<Vec<u32>> = r.image_planar().iter().map(|fb| fb.buf().iter().map(|v| v.to_bits()).collect()).collect();
                    if k == 2 {
                        last = Some(bits);
                    }
                }
                Err(e) => println!("order {o:?}: render {k} err {e}"),
            }
        }
        if let Some(l) = last {
            match &base {
                None => {
                    println!("order {o:?}: kf2 sample(46,1) ch0 = {}", f32::from_bits(l[0][1 * 58 + 46]));
                    base = Some(l);
                }
                Some(b) => println!("order {o:?}: kf2 equal to first order: {} ; sample = {}", *b == l, f32::from_bits(l[0][1 * 58 + 46])),
            }
        }
    }
    0
}
