//! Directed experiments (debug aid, not a registered check).
use crate::dec::*;
use jxlgen::codestream::*;
use jxlgen::headers::*;
use jxlgen::modmodel::*;
use jxlgen::modular::*;
use jxlgen::rng::Rng;
use std::sync::Arc;

pub fn run() -> i32 {
    let mut rng = Rng::new(1);
    let w = 12usize;
    let ih = ImageHeader { size: SizeHeader::new(w as u32, 1), metadata: ImageMetadata::plain(BitDepth::Int { bits: 3 }, true, vec![]) };
    let fh = FrameHeader::modular(&ih);
    let infos = modular_channel_infos(&ih, &fh);
    let layout = group_layout(&fh);
    let mut idx = vec![14i32; w];
    idx[9] = 2;
    let pal: Vec<i32> = (0..16).map(|i| if i == 14 { 1 } else { 7 }).collect();
    let opts = ModularOpts {
        bit_depth: 3, range_lo: -1000, range_hi: 1000, sample_lo: 0, sample_hi: 7, allow_wp: true, allow_lz77: false, plain_entropy: true,
        local_tree_pct: 0, local_transform_pct: 0,
        transforms: Some(vec![Transform::Palette { begin_c: 0, num_c: 1, nb_colours: 16, nb_deltas: 8, d_pred: 6 }]),
        max_transforms: 1, force_tree: Some(MaTree::from_spec(&TreeSpec::leaf(0))), palette_special: true,
        force_gens: Some(vec![Gen::Values(Arc::new(pal), 16), Gen::Values(Arc::new(idx), w)]),
    };
    let enc = encode_modular(&mut rng, &infos, &layout, &opts).expect("encode");
    let mut out = write_codestream_header(&ih, &mut rng, false, None);
    let sections = modular_frame_sections(&fh, &enc, &plain_lf_global_prefix());
    write_frame(&mut out, &mut rng, &ih, &fh, sections, false, false);
    let image = open_image(&out, Pool::None, true).expect("open");
    let got = frame_level_modular::<i32>(&image, 0).expect("decode");
    println!("model  : {:?}", enc.channels[0].data);
    println!("decoder: {:?}", got[0].2);
    0
}
