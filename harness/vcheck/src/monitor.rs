//! H2 monitor: observes the render-handle protocol events and gives a *logical* wedge /
//! deadlock verdict: a caller that waits (or will wait) on a frame whose `Rendering` state was
//! set by a thread that has already left the API call can never be woken.

use jxl_render::verif::{set_hook, Event};
use std::collections::{HashMap, HashSet};
use std::sync::{Arc, Condvar, Mutex};
use std::thread::ThreadId;

#[derive(Default, Debug)]
pub struct MonState {
    /// frame -> thread that stored `Rendering` and has not stored another state since
    pub rendering_owner: HashMap<usize, ThreadId>,
    /// frames whose owner left its API call while the state was still `Rendering`
    pub orphaned: HashSet<usize>,
    /// frame -> threads currently inside condvar.wait
    pub waiters: HashMap<usize, HashSet<ThreadId>>,
    /// per frame: number of render executions that are currently open, max seen concurrently
    pub open_renders: HashMap<usize, u32>,
    pub max_concurrent_renders: u32,
    pub render_counts: HashMap<(usize, &'static str), u64>,
    /// open RenderBegin per thread (closed at api_return)
    pub thread_open: HashMap<ThreadId, Vec<usize>>,
    pub events: u64,
    pub cond_waits: u64,
    pub trace: Vec<String>,
    pub deadlock: Option<String>,
    pub overlap: Option<String>,
}

#[derive(Clone)]
pub struct Monitor {
    pub st: Arc<(Mutex<MonState>, Condvar)>,
}

impl Monitor {
    pub fn install() -> Monitor {
        let m = Monitor { st: Arc::new((Mutex::new(MonState::default()), Condvar::new())) };
        let m2 = m.clone();
        set_hook(Some(Arc::new(move |e: &Event| m2.on_event(e))));
        m
    }

    pub fn uninstall() {
        set_hook(None);
    }

    fn on_event(&self, e: &Event) {
        let tid = std::thread::current().id();
        let (lock, cv) = &*self.st;
        let mut s = lock.lock().unwrap();
        s.events += 1;
        let push = |s: &mut MonState, t: String| {
            if s.trace.len() < 400 {
                s.trace.push(t);
            }
        };
        match e {
            Event::BeforeLock { frame, site, .. } => push(&mut s, format!("{tid:?} lock f{frame} {site}")),
            Event::StateStore { frame, tag } => {
                push(&mut s, format!("{tid:?} state f{frame} {tag}"));
                if *tag == "Rendering" {
                    // start_render re-stores `Rendering` when it finds the frame being rendered
                    // by somebody else: ownership (or orphan status) does not change then
                    if !s.rendering_owner.contains_key(frame) && !s.orphaned.contains(frame) {
                        s.rendering_owner.insert(*frame, tid);
                    }
                } else {
                    s.rendering_owner.remove(frame);
                    s.orphaned.remove(frame);
                }
            }
            Event::CondWaitEnter { frame } => {
                s.cond_waits += 1;
                push(&mut s, format!("{tid:?} wait-enter f{frame}"));
                s.waiters.entry(*frame).or_default().insert(tid);
                if s.orphaned.contains(frame) && s.deadlock.is_none() {
                    s.deadlock = Some(format!("thread {tid:?} waits on frame {frame} whose Rendering state was abandoned"));
                    cv.notify_all();
                }
            }
            Event::CondWaitExit { frame } => {
                push(&mut s, format!("{tid:?} wait-exit f{frame}"));
                if let Some(w) = s.waiters.get_mut(frame) {
                    w.remove(&tid);
                }
            }
            Event::NotifyAll { frame } => push(&mut s, format!("{tid:?} notify f{frame}")),
            Event::RenderBegin { frame, kind } => {
                push(&mut s, format!("{tid:?} begin f{frame} {kind}"));
                *s.render_counts.entry((*frame, kind)).or_insert(0) += 1;
                let n = {
                    let c = s.open_renders.entry(*frame).or_insert(0);
                    *c += 1;
                    *c
                };
                if n > s.max_concurrent_renders {
                    s.max_concurrent_renders = n;
                }
                if n > 1 && s.overlap.is_none() {
                    s.overlap = Some(format!("frame {frame}: {n} render executions open at once ({kind})"));
                }
                s.thread_open.entry(tid).or_default().push(*frame);
            }
            Event::RenderEnd { frame, kind, ok } => {
                push(&mut s, format!("{tid:?} end f{frame} {kind} ok={ok}"));
                if let Some(c) = s.open_renders.get_mut(frame) {
                    *c = c.saturating_sub(1);
                }
                if let Some(v) = s.thread_open.get_mut(&tid) {
                    if let Some(p) = v.iter().rposition(|f| f == frame) {
                        v.remove(p);
                    }
                }
            }
        }
    }

    /// The calling thread returned from a public API call: renders it left open are over, and
    /// frames it left in `Rendering` are orphaned.
    pub fn api_return(&self) {
        let tid = std::thread::current().id();
        let (lock, cv) = &*self.st;
        let mut s = lock.lock().unwrap();
        if let Some(v) = s.thread_open.remove(&tid) {
            for f in v {
                if let Some(c) = s.open_renders.get_mut(&f) {
                    *c = c.saturating_sub(1);
                }
            }
        }
        let mine: Vec<usize> = s.rendering_owner.iter().filter(|(_, &t)| t == tid).map(|(&f, _)| f).collect();
        for f in mine {
            s.rendering_owner.remove(&f);
            s.orphaned.insert(f);
            if s.trace.len() < 400 {
                s.trace.push(format!("{tid:?} api-return leaves f{f} in Rendering"));
            }
            if s.waiters.get(&f).map_or(false, |w| !w.is_empty()) && s.deadlock.is_none() {
                s.deadlock = Some(format!("frame {f} abandoned in Rendering while threads wait on it"));
                cv.notify_all();
            }
        }
    }

    pub fn deadlock(&self) -> Option<String> {
        self.st.0.lock().unwrap().deadlock.clone()
    }

    pub fn snapshot(&self) -> (u64, u64, u32, Option<String>, Vec<String>) {
        let s = self.st.0.lock().unwrap();
        (s.events, s.cond_waits, s.max_concurrent_renders, s.overlap.clone(), s.trace.clone())
    }

    pub fn orphaned_frames(&self) -> Vec<usize> {
        let s = self.st.0.lock().unwrap();
        s.orphaned.iter().copied().collect()
    }

    /// Wait until `done()` says the worker finished, or the monitor reports a deadlock, or the
    /// generous wall-clock watchdog fires (inconclusive). Returns "done" | "deadlock" | "timeout".
    pub fn wait_outcome(&self, done: &dyn Fn() -> bool, watchdog_s: f64) -> &'static str {
        let t0 = std::time::Instant::now();
        loop {
            if done() {
                return "done";
            }
            if self.deadlock().is_some() {
                return "deadlock";
            }
            if t0.elapsed().as_secs_f64() > watchdog_s {
                return "timeout";
            }
            std::thread::sleep(std::time::Duration::from_micros(200));
        }
    }
}
