//! C09: feeding the stream in any chunks gives the same image as one buffer.
//!
//! Workload: complete valid streams (generated lossless Modular images: tiny .. multi-group,
//! single- and multi-pass, permuted TOC, extra channels, orientation; bare and in random valid
//! container layouts with jxlc / jxlp splits incl. empty parts, aux boxes before / between /
//! after the codestream, brob, 64-bit and to-EOF sizes; plus one real multi-frame CMYK file with
//! ICC, re-wrapped; generated multi-frame streams from `jxlgen::anim`: layers, animation,
//! reference-only and skip-progressive frames, crops, blend modes).  Every stream is decoded once from ONE buffer (reference) and then again
//! under several chunkings through `build_uninit` / `feed_bytes` / `try_init` /
//! `JxlImage::feed_bytes` / `finalize`, always re-offering unconsumed bytes in front of the next
//! call (the API contract, what `JxlImageBuilder::read` does).
//!
//! Oracle (exact, no tolerance): every chunking must report the same `image_header` (Debug
//! string), dimensions, pixel format, embedded ICC, `num_loaded_frames/keyframes`,
//! `frame_offset(i)`, frame headers, `is_loading_done`, first Exif / xml box, JPEG reconstruction
//! status, and bit-identical samples of every keyframe as the one-buffer decode; no feed /
//! init / finalize error, no panic, every byte of the file consumed.  Truth that does not depend
//! on the decoder at all: `frame_offset(0)` and the TOC offsets/sizes equal what the generator
//! wrote; the number of frames / keyframes loaded equals the number written; loading done.
//!
//! Chunking classes: `1byte`, `rand16`, `rand4096`, `marks` (a cut at every structural boundary
//! and one byte before / after it), `marks1b` (single bytes around boundaries, larger chunks
//! elsewhere), `late` (everything fed before the first `try_init`), `lazyinit` (try_init only
//! every n-th feed), `halves` (one random cut), `window` (fixed read buffer, 32..4096 bytes),
//! `creep` (unconsumed bytes re-offered with exactly one more byte), `read` (`JxlImage::read`).

use crate::common::*;
use crate::feedutil::*;
use jxl_oxide::{JxlImage, JxlThreadPool};
use jxlgen::rng::Rng;

const CLASSES: [&str; 11] = ["1byte", "rand16", "rand4096", "marks", "marks1b", "late", "lazyinit", "halves", "window", "creep", "read"];

/// Quick tier runs one of these subsets per case (thorough: all classes).
const SUBSETS: [(&str, &[usize]); 4] = [
    ("A", &[0, 3, 2, 5, 10]),
    ("B", &[1, 4, 7, 8, 9]),
    ("C", &[0, 4, 6, 9, 2]),
    ("D", &[3, 1, 5, 8, 10]),
];

fn random_ends(rng: &mut Rng, n: usize, max: usize) -> Vec<usize> {
    let mut v = Vec::new();
    let mut p = 0usize;
    while p < n {
        p = (p + rng.urange(1, max.max(1))).min(n);
        v.push(p);
    }
    v
}

/// The real file carries a large ICC profile in front of the first frame; every `try_init` on a
/// prefix decodes that profile again from its first byte, so a caller that retries after every
/// few bytes needs quadratic time (inherent to the retry API, not what C09 is about).  Keep at
/// most ~40 offers inside that region (those next to structural boundaries first).
fn thin_header_region(st: &TestStream, plan: Plan, rng: &mut Rng) -> Plan {
    if !st.real {
        return plan;
    }
    let hdr_end = st.frames.first().map(|f| st.cs_to_file(f.offset)).unwrap_or(0);
    match plan {
        Plan::Ends { ends, init_every } => {
            let (mut head, tail): (Vec<usize>, Vec<usize>) = ends.into_iter().partition(|&e| e < hdr_end);
            if head.len() > 40 {
                let near: Vec<usize> = head.iter().copied().filter(|e| st.marks.iter().any(|m| e.abs_diff(*m) <= 1)).collect();
                rng.shuffle(&mut head);
                head.truncate(40usize.saturating_sub(near.len().min(30)));
                head.extend(near.into_iter().take(30));
                head.sort();
                head.dedup();
            }
            head.extend(tail);
            Plan::Ends { ends: head, init_every }
        }
        Plan::Window { cap } => Plan::Window { cap: cap.max(hdr_end / 24) },
        Plan::Creep { max, seed } => Plan::Creep { max: max.max(hdr_end / 12), seed },
    }
}

fn plan_for(class: &str, st: &TestStream, rng: &mut Rng) -> Option<Plan> {
    let p = plan_for_inner(class, st, rng)?;
    Some(thin_header_region(st, p, rng))
}

fn plan_for_inner(class: &str, st: &TestStream, rng: &mut Rng) -> Option<Plan> {
    let n = st.file.len();
    Some(match class {
        "1byte" => {
            if n > 150_000 {
                // one-byte feeds over the first 20 KiB and around every boundary
                let mut v: Vec<usize> = (1..=20_000.min(n)).collect();
                v.extend(around_marks(st, 40));
                v.extend(random_ends(rng, n, 4096));
                v.sort();
                v.dedup();
                v.retain(|&x| x >= 1);
                Plan::Ends { ends: v, init_every: 1 }
            } else {
                Plan::Ends { ends: (1..=n).collect(), init_every: 1 }
            }
        }
        "rand16" => {
            if n > 400_000 {
                return None;
            }
            Plan::Ends { ends: random_ends(rng, n, 16), init_every: 1 }
        }
        "rand4096" => Plan::Ends { ends: random_ends(rng, n, 4096), init_every: 1 },
        "marks" => {
            let mut v = around_marks(st, 1);
            v.retain(|&x| x >= 1);
            Plan::Ends { ends: v, init_every: 1 }
        }
        "marks1b" => {
            let mut v = around_marks(st, rng.urange(2, 24));
            v.extend(random_ends(rng, n, 700));
            v.sort();
            v.dedup();
            v.retain(|&x| x >= 1);
            Plan::Ends { ends: v, init_every: 1 }
        }
        "late" => {
            let mx = *rng.pick(&[1usize, 7, 64, 4096, 1 << 20]);
            if mx == 1 && n > 150_000 {
                return None;
            }
            Plan::Ends { ends: random_ends(rng, n, mx), init_every: 0 }
        }
        "lazyinit" => {
            let mx = *rng.pick(&[1usize, 3, 40, 500]);
            if mx <= 3 && n > 150_000 {
                return None;
            }
            Plan::Ends { ends: random_ends(rng, n, mx), init_every: rng.urange(2, 9) }
        }
        "halves" => {
            let c = if rng.bool() { *rng.pick(&st.marks) } else { rng.urange(0, n) };
            Plan::Ends { ends: vec![c.max(1).min(n), n], init_every: 1 }
        }
        "window" => Plan::Window { cap: *rng.pick(&[32usize, 33, 64, 100, 512, 4096]) },
        "creep" => Plan::Creep { max: *rng.pick(&[20usize, 300, 5000]), seed: rng.next_u64() },
        _ => return None,
    })
}

fn plan_desc(p: &Plan) -> String {
    match p {
        Plan::Ends { ends, init_every } => {
            if ends.len() <= 40 {
                format!("offers end at {:?}, try_init every {}", ends, init_every)
            } else {
                format!("{} offers (first ends {:?} ..), try_init every {}", ends.len(), &ends[..12], init_every)
            }
        }
        other => format!("{other:?}"),
    }
}

struct Ctx {
    real: Option<RealFile>,
    real_loaded: bool,
    real_every: u64,
}

fn check_stream(case: &mut Case, st: &mut TestStream, generated: bool, classes: &[usize]) {
    case.set_input(&st.file);
    let file = st.file.clone();
    let n = file.len();
    // ---- reference: the whole stream in one buffer
    let whole = Plan::Ends { ends: vec![n], init_every: 1 };
    let reference = guard_fail(n, || {
        let mut f = run_plan(&file, &whole)?;
        let image = f.image().unwrap();
        Ok((snapshot(image, false), f))
    });
    let (refsnap, mut reff) = match reference {
        Ok(x) => x,
        Err(e) => {
            case.violation(format!("whole:{}", e.kind), format!("one-buffer decode of a valid stream failed: {} [{} | {}]", e.detail, st.layout_class, st.desc));
            return;
        }
    };
    case.obs("reference_decodes", 1);
    if let Err(e) = &refsnap.renders {
        case.violation("whole:render-error", format!("one-buffer decode: render failed: {e} [{} | {}]", st.layout_class, st.desc));
        return;
    }
    // ---- decoder-independent truth about the complete decode
    if !refsnap.done {
        case.violation("whole:not-done", format!("is_loading_done() false after the complete stream [{}]", st.desc));
        return;
    }
    if refsnap.loaded_frames != st.frames.len() {
        case.violation("whole:frame-count", format!("{} frames loaded, stream has {} [{}]", refsnap.loaded_frames, st.frames.len(), st.desc));
        return;
    }
    if generated {
        let want_kf = st.keyframes_complete(n);
        if want_kf.is_some() && want_kf != Some(refsnap.loaded_keyframes) {
            case.violation("whole:keyframe-count", format!("{} keyframes loaded, stream has {:?} [{}]", refsnap.loaded_keyframes, want_kf, st.desc));
            return;
        }
        let want: Vec<Option<usize>> = st.frames.iter().map(|f| Some(f.offset)).chain(std::iter::once(None)).collect();
        if refsnap.offsets != want {
            case.violation("whole:frame-offset", format!("frame_offset reports {:?}, written {:?} [{}]", refsnap.offsets, want, st.desc));
            return;
        }
        if let Err(e) = st.label_sections(reff.image().unwrap()) {
            case.violation("whole:toc", format!("{e} [{}]", st.desc));
            return;
        }
    }
    drop(reff);
    // ---- chunkings
    for &ci in classes {
        let class = CLASSES[ci];
        let got = if class == "read" {
            guard_fail(n, || {
                let image = JxlImage::builder()
                    .pool(JxlThreadPool::none())
                    .read(std::io::Cursor::new(&file))
                    .map_err(|e| Fail { kind: "read-error".into(), detail: format!("JxlImage::read failed on a valid file: {e}"), at: n })?;
                Ok((snapshot(&image, false), 0u64, 0u64, String::from("JxlImage::read")))
            })
        } else {
            let mut prng = case.rng.fork();
            let Some(plan) = plan_for(class, st, &mut prng) else { continue };
            let pd = plan_desc(&plan);
            guard_fail(n, || {
                let mut f = run_plan(&file, &plan)?;
                let (feeds, short) = (f.feeds, f.short_consumes);
                let image = f.image().unwrap();
                Ok((snapshot(image, false), feeds, short, pd))
            })
        };
        match got {
            Err(e) => {
                case.violation(
                    format!("{class}:{}", e.kind),
                    format!("chunking `{class}`: {} (at {} of {n} bytes; next missing byte in `{}`) [{} | {} | {}]", e.detail, e.at, st.region(e.at), st.layout_class, st.struct_class, st.desc),
                );
                return;
            }
            Ok((snap, feeds, short, pd)) => {
                case.obs("chunked_decodes", 1);
                case.obs("feed_calls", feeds);
                case.obs("feeds_with_unconsumed_bytes", short);
                case.obs_set("chunking_classes", class);
                if let Some((field, d)) = diff(&refsnap, &snap) {
                    case.violation(
                        format!("{class}:{field}"),
                        format!("chunking `{class}` ({pd}) differs from the one-buffer decode: {d} [{} | {} | {}]", st.layout_class, st.struct_class, st.desc),
                    );
                    return;
                }
            }
        }
    }
    let samples: usize = refsnap.renders.as_ref().map(|v| v.iter().map(|k| k.planes.iter().map(|p| p.bits.len()).sum::<usize>()).sum()).unwrap_or(0);
    case.obs("samples_compared_per_chunking", samples as u64);
}

pub fn run(args: &Args) -> i32 {
    let thorough = args.thorough();
    let mut ctx = Ctx { real: None, real_loaded: false, real_every: args.extra_u64("real-every", if thorough { 400 } else { 250 }) };
    run_cases(args, 0xC09, |case| {
        let mut rng = case.rng.fork();
        let use_real = ctx.real_every != 0 && rng.chance(1, ctx.real_every);
        if use_real && !ctx.real_loaded {
            ctx.real = load_real();
            ctx.real_loaded = true;
        }
        let (subset_name, classes): (&str, Vec<usize>) = if thorough {
            ("all", (0..CLASSES.len()).collect())
        } else {
            let s = SUBSETS[rng.below(SUBSETS.len() as u64) as usize];
            (s.0, s.1.to_vec())
        };
        if use_real {
            let Some(real) = ctx.real.as_ref() else {
                case.inconclusive("real file not available");
                return;
            };
            let mut st = real_stream(real, &mut rng);
            if std::env::var("VCHECK_DEBUG").is_ok() {
                eprintln!("real: cs {} bytes, frames {:?}", real.codestream.len(), real.frames.iter().map(|f| (f.offset, f.data_start, f.sections.len(), f.end)).collect::<Vec<_>>());
            }
            // slow to decode: three chunkings only
            let cl: Vec<usize> = { let mut c = classes.clone(); rng.shuffle(&mut c); c.truncate(3); c };
            let names: Vec<&str> = cl.iter().map(|&i| CLASSES[i]).collect();
            case.sig(format!("{}|{}|{}", st.layout_class, st.struct_class, names.join("+")), true);
            case.sample(format!("{{\"stream\":{},\"layout\":{},\"bytes\":{},\"chunkings\":{}}}", json_str(&st.desc), json_str(&st.layout_class), st.file.len(), json_str(&names.join("+"))));
            case.obs("real_file_cases", 1);
            check_stream(case, &mut st, false, &cl);
            return;
        }
        if rng.chance(1, 6) {
            // generated multi-frame stream (layers / animation / reference frames)
            let mg = thorough && rng.chance(1, 5);
            let Some((mut st, img)) = gen_anim_stream(&mut rng, if thorough { 200 } else { 48 }, mg, 30, 80) else {
                case.inconclusive("generator gave up");
                return;
            };
            case.sig(format!("{}|{}|{}", st.layout_class, st.struct_class, subset_name), st.file.len() > 24);
            case.sample(format!(
                "{{\"image\":{},\"layout\":{},\"structure\":{},\"bytes\":{},\"boundaries\":{},\"chunkings\":{}}}",
                json_str(&img.desc),
                json_str(&st.layout_class),
                json_str(&st.struct_class),
                st.file.len(),
                st.marks.len(),
                json_str(subset_name)
            ));
            case.obs("streams", 1);
            case.obs("multi_frame_streams", 1);
            case.obs("frames_in_multi_frame_streams", st.frames.len() as u64);
            case.obs("stream_bytes", st.file.len() as u64);
            case.obs(if st.container { "container_streams" } else { "bare_streams" }, 1);
            check_stream(case, &mut st, true, &classes);
            return;
        }
        let p = GenParams {
            size_weights: if thorough { [12, 40, 15, 25, 8] } else { [15, 45, 15, 20, 5] },
            max_dim: if thorough { 420 } else { 260 },
            bare_pct: 30,
            big_every: 80,
            prefer_max_len: None,
            want_multi_section: rng.chance(1, 8),
        };
        let Some((mut st, img)) = gen_stream(&mut rng, &p) else {
            case.inconclusive("generator gave up");
            return;
        };
        let nontrivial = img.num_samples >= 16 && st.file.len() > 24;
        case.sig(format!("{}|{}|{}", st.layout_class, st.struct_class, subset_name), nontrivial);
        case.sample(format!(
            "{{\"image\":{},\"layout\":{},\"structure\":{},\"bytes\":{},\"boundaries\":{},\"chunkings\":{}}}",
            json_str(&img.desc),
            json_str(&st.layout_class),
            json_str(&st.struct_class),
            st.file.len(),
            st.marks.len(),
            json_str(subset_name)
        ));
        case.obs("streams", 1);
        case.obs("stream_bytes", st.file.len() as u64);
        case.obs(if st.container { "container_streams" } else { "bare_streams" }, 1);
        if st.frames[0].sections.len() > 1 {
            case.obs("multi_section_streams", 1);
        }
        check_stream(case, &mut st, true, &classes);
    })
}
