//! Helpers around the decoder's public API.

use jxl_oxide::{JxlImage, JxlThreadPool};
use jxl_render::ImageBuffer;

#[derive(Clone, Copy, Debug, PartialEq, Eq)]
pub enum Pool {
    None,
    Rayon(usize),
}

pub fn make_pool(p: Pool) -> JxlThreadPool {
    match p {
        Pool::None => JxlThreadPool::none(),
        Pool::Rayon(n) => JxlThreadPool::rayon(Some(n)),
    }
}

pub fn open_image(bytes: &[u8], pool: Pool, wide: bool) -> Result<JxlImage, String> {
    JxlImage::builder()
        .pool(make_pool(pool))
        .force_wide_buffers(wide)
        .read(std::io::Cursor::new(bytes))
        .map_err(|e| format!("{e}"))
}

#[derive(Clone, Debug)]
pub enum Plane {
    Int { w: usize, h: usize, data: Vec<i32>, narrow: bool },
    Float { w: usize, h: usize, data: Vec<f32> },
}

impl Plane {
    pub fn dims(&self) -> (usize, usize) {
        match self {
            Plane::Int { w, h, .. } => (*w, *h),
            Plane::Float { w, h, .. } => (*w, *h),
        }
    }
}

pub fn plane_of(b: &ImageBuffer) -> Plane {
    match b {
        ImageBuffer::F32(g) => Plane::Float { w: g.width(), h: g.height(), data: g.buf().to_vec() },
        ImageBuffer::I32(g) => Plane::Int { w: g.width(), h: g.height(), data: g.buf().to_vec(), narrow: false },
        ImageBuffer::I16(g) => Plane::Int { w: g.width(), h: g.height(), data: g.buf().iter().map(|&v| v as i32).collect(), narrow: true },
    }
}

/// Render keyframe `k` and return all channel planes (colour then extra), unoriented.
pub fn render_planes(image: &JxlImage, k: usize) -> Result<Vec<Plane>, String> {
    let r = image.render_frame(k).map_err(|e| format!("{e}"))?;
    let mut v: Vec<Plane> = r.color_channels().iter().map(plane_of).collect();
    v.extend(r.extra_channels().1.iter().map(plane_of));
    Ok(v)
}

/// Decode the Modular image of frame `frame_idx` at the frame level (global + LF groups + pass
/// groups + inverse transforms) with sample type S, returning integer planes at native channel
/// resolution. Uses only public APIs of jxl-frame / jxl-modular, the same ones the renderer uses.
pub fn frame_level_modular<S: jxl_modular::Sample>(image: &JxlImage, frame_idx: usize) -> Result<Vec<(usize, usize, Vec<i32>)>, String> {
    let frame = image.frame(frame_idx).ok_or("no such frame")?;
    let fh = frame.header();
    let pool = JxlThreadPool::none();
    let lf_global = frame
        .try_parse_lf_global::<S>()
        .ok_or("lf_global not available")?
        .map_err(|e| format!("lf_global: {e}"))?;
    let mut gmodular = lf_global.gmodular.try_clone().map_err(|e| format!("{e}"))?;
    let ma = gmodular.ma_config.clone();
    let Some(mimage) = gmodular.modular.image_mut() else {
        return Ok(vec![]);
    };
    {
        let groups = mimage.prepare_groups(frame.pass_shifts()).map_err(|e| format!("prepare_groups: {e}"))?;
        for (idx, sub) in groups.lf_groups.into_iter().enumerate() {
            let r = frame
                .try_parse_lf_group::<S>(None, ma.as_ref(), Some(sub), idx as u32)
                .ok_or("lf group not available")?;
            r.map_err(|e| format!("lf group {idx}: {e}"))?;
        }
        for (pass_idx, pass) in groups.pass_groups.into_iter().enumerate() {
            for (group_idx, sub) in pass.into_iter().enumerate() {
                let Some(bs) = frame.pass_group_bitstream(pass_idx as u32, group_idx as u32) else {
                    if sub.is_empty() {
                        continue;
                    }
                    return Err(format!("pass group {pass_idx}/{group_idx} bitstream missing"));
                };
                let bs = bs.map_err(|e| format!("pass group bitstream: {e}"))?;
                let mut bitstream = bs.bitstream;
                jxl_frame::data::decode_pass_group_modular(
                    &mut bitstream,
                    fh,
                    ma.as_ref(),
                    pass_idx as u32,
                    group_idx as u32,
                    sub,
                    false,
                    None,
                    &pool,
                )
                .map_err(|e| format!("pass group {pass_idx}/{group_idx}: {e}"))?;
            }
        }
    }
    mimage.prepare_subimage().map_err(|e| format!("{e}"))?.finish(&pool);
    Ok(mimage
        .image_channels()
        .iter()
        .map(|g| (g.width(), g.height(), g.buf().iter().map(|v| v.to_i32()).collect()))
        .collect())
}
