//! Worker-side plumbing shared by all property checkers: argument parsing, deterministic case
//! loop, panic capture with location, three-valued verdicts, signature counting, JSON output.

use jxlgen::rng::Rng;
use std::collections::{BTreeMap, HashSet};
use std::io::Write;
use std::os::unix::fs::FileExt;
use std::panic::{catch_unwind, AssertUnwindSafe};
use std::sync::Mutex;
use std::time::Instant;

#[derive(Clone, Debug)]
pub struct Args {
    pub prop: String,
    pub seed: u64,
    pub tier: String,
    pub shard: (u64, u64),
    pub cases: u64,
    pub start: u64,
    pub only_case: Option<u64>,
    pub log: Option<String>,
    pub progress: Option<String>,
    pub time_budget: f64,
    pub replay_dir: String,
    pub extra: BTreeMap<String, String>,
}

impl Args {
    pub fn parse(argv: &[String]) -> Args {
        let mut a = Args {
            prop: argv.get(1).cloned().unwrap_or_default(),
            seed: 1,
            tier: "quick".into(),
            shard: (0, 1),
            cases: 100,
            start: 0,
            only_case: None,
            log: None,
            progress: None,
            time_budget: 1e9,
            replay_dir: "/verif/replay".into(),
            extra: BTreeMap::new(),
        };
        let mut i = 2;
        while i < argv.len() {
            let k = argv[i].as_str();
            let v = argv.get(i + 1).cloned().unwrap_or_default();
            match k {
                "--seed" => a.seed = v.parse().expect("seed"),
                "--tier" => a.tier = v,
                "--shard" => {
                    let (x, y) = v.split_once('/').expect("shard i/n");
                    a.shard = (x.parse().unwrap(), y.parse().unwrap());
                }
                "--cases" => a.cases = v.parse().expect("cases"),
                "--start" => a.start = v.parse().expect("start"),
                "--case" => a.only_case = Some(v.parse().expect("case")),
                "--log" => a.log = Some(v),
                "--progress" => a.progress = Some(v),
                "--time-budget" => a.time_budget = v.parse().expect("time"),
                "--replay-dir" => a.replay_dir = v,
                _ => {
                    a.extra.insert(k.trim_start_matches("--").to_string(), v);
                }
            }
            i += 2;
        }
        a
    }

    pub fn thorough(&self) -> bool {
        self.tier == "thorough"
    }

    pub fn extra_u64(&self, k: &str, default: u64) -> u64 {
        self.extra.get(k).and_then(|v| v.parse().ok()).unwrap_or(default)
    }
}

pub fn json_str(s: &str) -> String {
    let mut o = String::with_capacity(s.len() + 2);
    o.push('"');
    for c in s.chars() {
        match c {
            '"' => o.push_str("\\\""),
            '\\' => o.push_str("\\\\"),
            '\n' => o.push_str("\\n"),
            '\r' => o.push_str("\\r"),
            '\t' => o.push_str("\\t"),
            c if (c as u32) < 0x20 => o.push_str(&format!("\\u{:04x}", c as u32)),
            c => o.push(c),
        }
    }
    o.push('"');
    o
}

pub fn hex(b: &[u8]) -> String {
    let mut s = String::with_capacity(b.len() * 2);
    for x in b {
        s.push_str(&format!("{:02x}", x));
    }
    s
}

pub fn unhex(s: &str) -> Vec<u8> {
    (0..s.len() / 2)
        .map(|i| u8::from_str_radix(&s[2 * i..2 * i + 2], 16).unwrap())
        .collect()
}

pub fn fnv(s: &str) -> u64 {
    let mut h: u64 = 0xcbf29ce484222325;
    for b in s.bytes() {
        h ^= b as u64;
        h = h.wrapping_mul(0x100000001b3);
    }
    h
}

#[derive(Clone, Debug)]
pub struct Violation {
    pub case: u64,
    pub sig: String,
    pub detail: String,
    pub input: Option<Vec<u8>>,
}

/// Per-case handle given to the property checker.
pub struct Case<'a> {
    pub idx: u64,
    pub seed: u64,
    pub rng: Rng,
    pub tier_thorough: bool,
    rec: &'a mut Recorder,
    sig: Option<String>,
    nontrivial: bool,
    sample: Option<String>,
    /// bytes of the input under test (stored into replay files on violation / crash)
    pub input: Option<Vec<u8>>,
    violated: bool,
}

impl<'a> Case<'a> {
    /// Case signature used for distinct counting; `nontrivial` by the property's own rule.
    pub fn sig(&mut self, s: impl Into<String>, nontrivial: bool) {
        self.sig = Some(s.into());
        self.nontrivial = nontrivial;
    }
    /// A JSON value (already serialised) describing this case, a few are kept as samples.
    pub fn sample(&mut self, json: String) {
        self.sample = Some(json);
    }
    pub fn obs(&mut self, key: &str, n: u64) {
        *self.rec.obs.entry(key.to_string()).or_insert(0) += n;
    }
    pub fn obs_set(&mut self, key: &str, member: impl Into<String>) {
        self.rec
            .obs_sets
            .entry(key.to_string())
            .or_default()
            .insert(member.into());
    }
    pub fn violation(&mut self, sig: impl Into<String>, detail: impl Into<String>) {
        self.violated = true;
        let v = Violation {
            case: self.idx,
            sig: sig.into(),
            detail: detail.into(),
            input: self.input.clone(),
        };
        self.rec.violations.push(v);
    }
    pub fn inconclusive(&mut self, why: &str) {
        *self.rec.inconclusive.entry(why.to_string()).or_insert(0) += 1;
    }
    pub fn set_input(&mut self, b: &[u8]) {
        self.input = Some(b.to_vec());
        // keep a copy where the supervisor can find it if the process dies in this case
        if let Some(p) = &self.rec.input_dump {
            let _ = std::fs::write(p, b);
        }
    }
}

pub struct Recorder {
    pub prop: String,
    pub evaluations: u64,
    pub sigs: HashSet<u64>,
    pub sig_names: BTreeMap<String, u64>,
    pub samples: Vec<String>,
    pub violations: Vec<Violation>,
    pub harness_errors: Vec<String>,
    pub inconclusive: BTreeMap<String, u64>,
    pub obs: BTreeMap<String, u64>,
    pub obs_sets: BTreeMap<String, std::collections::BTreeSet<String>>,
    pub input_dump: Option<String>,
}

static LAST_PANIC: Mutex<Option<(String, String)>> = Mutex::new(None);

pub fn install_panic_hook() {
    std::panic::set_hook(Box::new(|info| {
        let loc = info
            .location()
            .map(|l| format!("{}:{}", l.file(), l.line()))
            .unwrap_or_else(|| "?".into());
        let msg = if let Some(s) = info.payload().downcast_ref::<&str>() {
            s.to_string()
        } else if let Some(s) = info.payload().downcast_ref::<String>() {
            s.clone()
        } else {
            "?".into()
        };
        // Panics inside the generic jxl-grid helpers say nothing about the defect: attribute them to
        // the first caller frame outside jxl-grid as well.
        let loc = if loc.starts_with("/repo/crates/jxl-grid/") {
            let bt = format!("{}", std::backtrace::Backtrace::force_capture());
            let caller = bt
                .lines()
                .filter_map(|l| l.trim().strip_prefix("at "))
                .filter(|l| l.starts_with("/repo/crates/") && !l.starts_with("/repo/crates/jxl-grid/"))
                .map(|l| {
                    // file:line:col -> file:line
                    let mut it = l.rsplitn(2, ':');
                    let _col = it.next();
                    it.next().unwrap_or(l).to_string()
                })
                .next();
            match caller {
                Some(c) => format!("{loc}<-{}", c.trim_start_matches("/repo/")),
                None => loc,
            }
        } else {
            loc
        };
        if std::env::var("VCHECK_BACKTRACE").is_ok() {
            eprintln!("panic at {loc}: {msg}\n{}", std::backtrace::Backtrace::force_capture());
        }
        if let Ok(mut g) = LAST_PANIC.lock() {
            // keep the first panic of a case (later ones may be secondary)
            if g.is_none() {
                *g = Some((loc, msg));
            }
        }
    }));
}

pub fn take_panic() -> Option<(String, String)> {
    LAST_PANIC.lock().ok().and_then(|mut g| g.take())
}

/// Is this panic location inside the decoder under test (as opposed to the harness)?
pub fn is_repo_location(loc: &str) -> bool {
    loc.starts_with("/repo/") || loc.starts_with("crates/")
        // std / dependency panics triggered by decoder code (slice index etc.) are attributed
        // with #[track_caller] to the caller, so a /rustc/ location means std internals
        || loc.starts_with("/rustc/") || loc.contains("/.cargo/registry/")
}

/// Run `f`, catching panics. Ok(v) or Err((location, message)).
pub fn guarded<T>(f: impl FnOnce() -> T) -> Result<T, (String, String)> {
    let _ = take_panic();
    match catch_unwind(AssertUnwindSafe(f)) {
        Ok(v) => Ok(v),
        Err(_) => Err(take_panic().unwrap_or(("?".into(), "?".into()))),
    }
}

pub fn cpu_time_s() -> f64 {
    // user+sys CPU time of this thread group via /proc/self/stat is overkill; use getrusage-like
    // clock through std: not available. Fall back to CLOCK_PROCESS_CPUTIME_ID via libc-free trick.
    let s = std::fs::read_to_string("/proc/self/stat").unwrap_or_default();
    let after = s.rsplit(')').next().unwrap_or("");
    let f: Vec<&str> = after.split_whitespace().collect();
    // fields after ')' start at index 0 = state; utime = 11, stime = 12
    let ut: f64 = f.get(11).and_then(|x| x.parse().ok()).unwrap_or(0.0);
    let st: f64 = f.get(12).and_then(|x| x.parse().ok()).unwrap_or(0.0);
    (ut + st) / 100.0
}

static WATCH_CASE: std::sync::atomic::AtomicU64 = std::sync::atomic::AtomicU64::new(u64::MAX);
static WATCH_START_MS: std::sync::atomic::AtomicU64 = std::sync::atomic::AtomicU64::new(0);

fn now_ms() -> u64 {
    std::time::SystemTime::now().duration_since(std::time::UNIX_EPOCH).map(|d| d.as_millis() as u64).unwrap_or(0)
}

/// Per-case wall-clock watchdog: a case exceeding `budget_s` makes the process exit with code 3
/// after noting the case in `<progress>.hang`; the supervisor re-runs that case alone with a much
/// larger budget before calling it a hang.
fn spawn_watchdog(budget_s: f64, progress: Option<String>) {
    std::thread::spawn(move || loop {
        std::thread::sleep(std::time::Duration::from_millis(200));
        let c = WATCH_CASE.load(std::sync::atomic::Ordering::SeqCst);
        if c == u64::MAX {
            continue;
        }
        let started = WATCH_START_MS.load(std::sync::atomic::Ordering::SeqCst);
        if now_ms().saturating_sub(started) as f64 / 1000.0 > budget_s {
            if let Some(p) = &progress {
                let _ = std::fs::write(format!("{p}.hang"), format!("{c}\n"));
            }
            eprintln!("WATCHDOG case {c} exceeded {budget_s} s");
            std::process::exit(3);
        }
    });
}

pub fn run_cases(args: &Args, salt: u64, mut f: impl FnMut(&mut Case)) -> i32 {
    install_panic_hook();
    let hang_budget: f64 = args.extra.get("hang-budget").and_then(|v| v.parse().ok()).unwrap_or(90.0);
    spawn_watchdog(hang_budget, args.progress.clone());
    let t0 = Instant::now();
    let mut rec = Recorder {
        prop: args.prop.clone(),
        evaluations: 0,
        sigs: HashSet::new(),
        sig_names: BTreeMap::new(),
        samples: Vec::new(),
        violations: Vec::new(),
        harness_errors: Vec::new(),
        inconclusive: BTreeMap::new(),
        obs: BTreeMap::new(),
        obs_sets: BTreeMap::new(),
        input_dump: args.progress.as_ref().map(|p| format!("{p}.input")),
    };
    let progress = args
        .progress
        .as_ref()
        .map(|p| std::fs::OpenOptions::new().create(true).write(true).open(p).unwrap());
    let indices: Vec<u64> = match args.only_case {
        Some(c) => vec![c],
        None => (0..args.cases)
            .filter(|i| i % args.shard.1 == args.shard.0)
            .filter(|&i| i >= args.start)
            .collect(),
    };
    let mut last_idx = None;
    let mut stopped_early = false;
    for idx in indices {
        if t0.elapsed().as_secs_f64() > args.time_budget {
            stopped_early = true;
            break;
        }
        if let Some(p) = &progress {
            let _ = p.write_at(format!("{:>20}\n", idx).as_bytes(), 0);
        }
        last_idx = Some(idx);
        WATCH_START_MS.store(now_ms(), std::sync::atomic::Ordering::SeqCst);
        WATCH_CASE.store(idx, std::sync::atomic::Ordering::SeqCst);
        let rng = Rng::derive(args.seed ^ salt, idx);
        let mut case = Case {
            idx,
            seed: args.seed,
            rng,
            tier_thorough: args.thorough(),
            rec: &mut rec,
            sig: None,
            nontrivial: false,
            sample: None,
            input: None,
            violated: false,
        };
        let r = guarded(|| f(&mut case));
        let (sig, nontrivial, sample, input, violated) = (
            case.sig.take(),
            case.nontrivial,
            case.sample.take(),
            case.input.take(),
            case.violated,
        );
        WATCH_CASE.store(u64::MAX, std::sync::atomic::Ordering::SeqCst);
        rec.evaluations += 1;
        match r {
            Ok(()) => {}
            Err((loc, msg)) => {
                if is_repo_location(&loc) && args.extra.get("ignore-panics").map_or(false, |v| v == "1") {
                    // sanitizer stages: panics are judged by C01, not here
                    *rec.obs.entry("decoder_panics_not_judged_here".to_string()).or_insert(0) += 1;
                } else if is_repo_location(&loc) {
                    rec.violations.push(Violation {
                        case: idx,
                        sig: format!("panic@{}", loc.trim_start_matches("/repo/")),
                        detail: format!("panic at {loc}: {msg}"),
                        input,
                    });
                } else {
                    rec.harness_errors
                        .push(format!("case {idx}: harness panic at {loc}: {msg}"));
                }
            }
        }
        if let Some(s) = sig {
            if nontrivial {
                if rec.sigs.insert(fnv(&s)) && rec.sig_names.len() < 400 {
                    rec.sig_names.insert(s.clone(), idx);
                }
            }
        }
        if let Some(s) = sample {
            if rec.samples.len() < 6 || (violated && rec.samples.len() < 12) {
                rec.samples.push(s);
            }
        }
        if args.only_case.is_some() {
            break;
        }
    }
    let wall = t0.elapsed().as_secs_f64();
    // summary JSON
    let mut o = String::new();
    o.push('{');
    o.push_str(&format!("\"prop\":{},", json_str(&args.prop)));
    o.push_str(&format!("\"shard\":{},", args.shard.0));
    o.push_str(&format!("\"evaluations\":{},", rec.evaluations));
    o.push_str(&format!("\"stopped_early\":{},", stopped_early));
    o.push_str(&format!(
        "\"last_case\":{},",
        last_idx.map(|x| x.to_string()).unwrap_or("null".into())
    ));
    o.push_str(&format!("\"wall_s\":{:.3},", wall));
    o.push_str(&format!("\"cpu_s\":{:.3},", cpu_time_s()));
    o.push_str("\"sigs\":[");
    let mut first = true;
    for s in &rec.sigs {
        if !first {
            o.push(',');
        }
        first = false;
        o.push_str(&s.to_string());
    }
    o.push_str("],\"sig_names\":[");
    first = true;
    for (s, _) in rec.sig_names.iter().take(60) {
        if !first {
            o.push(',');
        }
        first = false;
        o.push_str(&json_str(s));
    }
    o.push_str("],\"samples\":[");
    first = true;
    for s in &rec.samples {
        if !first {
            o.push(',');
        }
        first = false;
        o.push_str(s);
    }
    o.push_str("],\"obs\":{");
    first = true;
    for (k, v) in &rec.obs {
        if !first {
            o.push(',');
        }
        first = false;
        o.push_str(&format!("{}:{}", json_str(k), v));
    }
    o.push_str("},\"obs_sets\":{");
    first = true;
    for (k, v) in &rec.obs_sets {
        if !first {
            o.push(',');
        }
        first = false;
        o.push_str(&format!("{}:[", json_str(k)));
        let mut f2 = true;
        for m in v {
            if !f2 {
                o.push(',');
            }
            f2 = false;
            o.push_str(&json_str(m));
        }
        o.push(']');
    }
    o.push_str("},\"inconclusive\":{");
    first = true;
    for (k, v) in &rec.inconclusive {
        if !first {
            o.push(',');
        }
        first = false;
        o.push_str(&format!("{}:{}", json_str(k), v));
    }
    o.push_str("},\"harness_errors\":[");
    first = true;
    for s in rec.harness_errors.iter().take(20) {
        if !first {
            o.push(',');
        }
        first = false;
        o.push_str(&json_str(s));
    }
    o.push_str("],\"violations\":[");
    first = true;
    for v in rec.violations.iter().take(200) {
        if !first {
            o.push(',');
        }
        first = false;
        o.push_str(&format!(
            "{{\"case\":{},\"sig\":{},\"detail\":{},\"input_hex\":{}}}",
            v.case,
            json_str(&v.sig),
            json_str(&v.detail),
            match &v.input {
                Some(b) if b.len() <= 1 << 20 => json_str(&hex(b)),
                _ => "null".into(),
            }
        ));
    }
    o.push_str("]}");
    match &args.log {
        Some(p) => {
            let mut fh = std::fs::File::create(p).unwrap();
            fh.write_all(o.as_bytes()).unwrap();
            fh.write_all(b"\n").unwrap();
        }
        None => println!("{o}"),
    }
    if !rec.harness_errors.is_empty() {
        for e in &rec.harness_errors {
            eprintln!("HARNESS-ERROR {e}");
        }
        return 2;
    }
    if !rec.violations.is_empty() {
        for v in rec.violations.iter().take(20) {
            eprintln!("violation case={} sig={} {}", v.case, v.sig, v.detail);
        }
        return 1;
    }
    0
}
