//! C16: inverse block transforms match their mathematical definition.
//!
//! Workload (through hook H3, `jxl_render::verif_h3`): for each of the 27 `TransformType`s,
//! coefficient blocks (impulses at every position, dense gaussian blocks of several magnitudes,
//! sparse / low-pass / DC-only / all-zero / extreme-but-finite blocks) placed in buffers at
//! 32-byte aligned, 16-byte aligned and +4/+8/+12-byte misaligned addresses and with strides that
//! are / are not multiples of 4 floats, so that both the vector code and the generic fallback of
//! the x86_64 path are selected. Every block is run through
//!   * the generic (scalar) `transform`,
//!   * the x86_64 `transform` as dispatched at run time (SSE4.1 variant if detected, else SSE2),
//!   * the x86_64 SSE2 variant,
//! and every eighth case drives `transform_varblocks` (generic and the build-selected one) on a
//! random tiling of varblocks with LF insertion (LLF coefficients derived from LF samples), or
//! the forward `dct_2d` used for that derivation on all LF block shapes.
//!
//! Oracle: `jxlgen::dctref` — the transform definitions evaluated in f64 (see its module doc).
//!
//! ## Tolerance (justification)
//!
//! Let C be the coefficient block (exactly the f32 inputs, converted to f64 for the model),
//! eps = 2^-24 (f32 unit roundoff) and
//!     scale = max(||C||_2, ||ref||_inf).
//! With the format's normalisation every basis function has unit mean square, so ||C||_2 is the
//! RMS of the exact output, i.e. the natural size of the rounding noise of any f32 evaluation;
//! where coefficients interfere constructively (e.g. all-equal coefficients: pixel (0,0) is
//! ~2N times the RMS) the rounding error of that pixel is proportional to its own magnitude,
//! hence the max with ||ref||_inf. Accept iff  |out - ref| <= K(type) * eps * scale  pointwise,
//!     K = 8 M + 256 * max(0, log2(M) - 5),   M = max(W, H)
//! (64 for every 8x8 transform, 128 / 256 for M = 16 / 32, 768 / 1536 / 2816 for M = 64 / 128 /
//! 256; in relative terms 3.8e-6 ... 1.7e-4 of the scale).
//! * The term 8 M: the decoder's recursive IDCT multiplies half of the signal of each level n by
//!   1/(2 cos((2k+1) pi / 2n)), which reaches n/pi; rounding noise committed below that level is
//!   amplified accordingly, so the f32 error grows about linearly with the largest dimension.
//!   Measured maxima of |err| / (eps * scale) on the unchanged decoder over 3 M cases (2.6 M
//!   single blocks x 3 code paths, 32 M varblocks through transform_varblocks; all input
//!   classes): 11.7 (M = 8, all ten 8x8 transforms), 25.5 (M = 16), 51 (M = 32), i.e. about
//!   1.5 M; 8 M leaves a factor 5.
//! * The term 256 per level above 32: for n >= 64 the decoder builds the 1/(2cos) table with f32
//!   `cos`, whose entries close to pi/2 are off by up to 63 / 26 / 73 eps (n = 64 / 128 / 256;
//!   recomputed independently), instead of <= 1 eps for the literal tables of n <= 32. Each such
//!   level enters once per dimension (~150 eps); measured maxima: 142 (M = 64), 225 (M = 128),
//!   483 (M = 256), again a factor >= 5 below K. This is a precision weakness of the decoder
//!   (errors up to 2.9e-5 of the scale, ~10x the rounding level of the smaller transforms) that
//!   the property's own tolerance ("small relative tolerance", DESIGN: 2e-5 * gain with gain 2
//!   for an impulse) still accommodates; it is modelled explicitly instead of hidden in a
//!   uniformly loose bound: the small transforms keep their tight bound, so a wrong 5th
//!   significant digit in any shared constant (2e-5 relative = 330 eps) is caught there.
//! Generic-vs-x86 outputs must agree within the same K * eps * scale (they evaluate the same
//! function with a different operation order; measured maxima are the same as above); whether
//! they are bit-identical is recorded as an observation per expected path
//! (`x86_eq_generic_bits/*`): the fallback always is.
//! `transform_varblocks`: the LLF coefficients additionally carry the error of the forward LF
//! DCT and of the f32 scale table, which is small against the inverse transform's own noise
//! (measured maxima <= 1.3 x those of the bare transform: 11.7 / 25.5 / 48 / 105 / 189 / 361
//! for M = 8 ... 256); same bound K eps scale, the scale taken from the reference block
//! *after* LLF insertion.
//! Forward `dct_2d` on LF-sized blocks (1x2 ... 32x32): K = 24 with
//! scale = max(RMS(samples), ||ref||_inf) (Parseval: ||coefficients||_2 == RMS(samples)). The
//! forward recursion multiplies by 1/(2cos) *before* recursing and scales every level by 1/2,
//! so noise is not amplified: <= 10 levels of ~1 eps each; measured maximum 4.0.
//!
//! Bytes outside the block (row padding, guard zones) carry a NaN sentinel and must be
//! untouched afterwards.

use crate::common::*;
use jxl_grid::{MutableSubgrid, SharedSubgrid};
use jxl_modular::ChannelShift;
use jxl_render::verif_h3 as h3;
use jxl_vardct::{BlockInfo, TransformType};
use jxlgen::dctref::{self, Model, NUM_TYPES, TYPE_NAMES};
use jxlgen::rng::Rng;
use std::collections::BTreeMap;

const SALT: u64 = 0xC16_0DC7_1D07;
const EPS: f64 = 1.0 / 16777216.0; // 2^-24
const SENTINEL: u32 = 0x7fc0_5e71;
/// Forward LF DCT bound (see module doc).
const K_FWD: f64 = 24.0;

fn ttype(t: usize) -> TransformType {
    TransformType::try_from(t as u8).unwrap_or(TransformType::Dct8)
}

fn log2(n: usize) -> f64 {
    n.trailing_zeros() as f64
}

/// Tolerance scale: max(||input||_2, ||reference output||_inf).
fn scale_of(input: &[f64], want: &[f64]) -> f64 {
    let winf = want.iter().fold(0f64, |a, b| a.max(b.abs()));
    dctref::l2(input).max(winf)
}

/// K(type) of the module doc: 8 M + 256 max(0, log2 M - 5), M = larger block dimension.
fn k_of(t: usize) -> f64 {
    let (w, h) = dctref::type_size(t);
    k_of_dim(w.max(h))
}

fn k_of_dim(m: usize) -> f64 {
    let m = m.max(8);
    8.0 * m as f64 + 256.0 * (log2(m) - 5.0).max(0.0)
}

/// A w x h f32 block placed inside a larger buffer at a controlled address and stride.
struct Placed {
    buf: Vec<f32>,
    off: usize,
    stride: usize,
    w: usize,
    h: usize,
}

impl Placed {
    /// `mis`: offset in floats from a 32-byte aligned address (0..8).
    fn new(block: &[f32], w: usize, h: usize, mis: usize, stride: usize) -> Placed {
        let len = 16 + mis + stride * h + 16;
        let mut buf = vec![f32::from_bits(SENTINEL); len];
        let addr = buf.as_ptr() as usize;
        // first index >= 8 whose address is 32-byte aligned (Vec<f32> is at least 4-aligned)
        let mut a0 = 8;
        while (addr + a0 * 4) % 32 != 0 && a0 < 16 {
            a0 += 1;
        }
        let off = a0 + mis;
        for y in 0..h {
            buf[off + y * stride..off + y * stride + w].copy_from_slice(&block[y * w..(y + 1) * w]);
        }
        Placed { buf, off, stride, w, h }
    }

    fn byte_misalign16(&self) -> usize {
        (self.buf.as_ptr() as usize + self.off * 4) % 16
    }

    fn byte_misalign32(&self) -> usize {
        (self.buf.as_ptr() as usize + self.off * 4) % 32
    }

    fn grid(&mut self) -> MutableSubgrid<'_, f32> {
        let (w, h, s) = (self.w, self.h, self.stride);
        let end = self.off + s * (h - 1) + w;
        MutableSubgrid::from_buf(&mut self.buf[self.off..end], w, h, s)
    }

    fn extract(&self) -> Vec<f32> {
        let mut o = Vec::with_capacity(self.w * self.h);
        for y in 0..self.h {
            o.extend_from_slice(&self.buf[self.off + y * self.stride..][..self.w]);
        }
        o
    }

    /// Number of floats outside the block whose sentinel was overwritten.
    fn clobbered(&self) -> usize {
        let mut n = 0;
        for (i, v) in self.buf.iter().enumerate() {
            let inside = i >= self.off && {
                let r = i - self.off;
                r / self.stride < self.h && r % self.stride < self.w
            };
            if !inside && v.to_bits() != SENTINEL {
                n += 1;
            }
        }
        n
    }
}

#[derive(Clone, Copy)]
struct Align {
    mis: usize,
    stride_extra: usize,
}

fn pick_align(rng: &mut Rng) -> Align {
    // production buffers are aligned with strides that are multiples of 8: keep about half of
    // the cases there (vector path), the rest exercises the fallback
    let mis = *rng.pick(&[0usize, 0, 0, 4, 4, 1, 2, 3]);
    let stride_extra = *rng.pick(&[0usize, 0, 0, 4, 8, 24, 1, 3]);
    Align { mis, stride_extra }
}

fn align_class(p: &Placed) -> (String, bool) {
    let a = match (p.byte_misalign32(), p.byte_misalign16()) {
        (0, _) => "a32".to_string(),
        (_, 0) => "a16".to_string(),
        (_, m) => format!("m{m}"),
    };
    let s = if p.stride == p.w {
        "s=w"
    } else if p.stride % 4 == 0 {
        "s4k"
    } else {
        "sodd"
    };
    let vec_ok = p.byte_misalign16() == 0 && p.stride % 4 == 0 && p.w % 4 == 0 && p.h % 4 == 0;
    (format!("{a},{s}"), vec_ok)
}

struct Gen {
    class: String,
    block: Vec<f32>,
}

fn finite_f32(v: f64) -> f32 {
    let x = v as f32;
    if !x.is_finite() {
        return 0.0;
    }
    // no denormals (flush-to-zero behaviour is not part of the property)
    if x != 0.0 && x.abs() < 1e-30 {
        return 0.0;
    }
    x
}

fn amp(rng: &mut Rng) -> f64 {
    match rng.below(6) {
        0 => 1.0,
        1 => -1.0,
        _ => {
            let e = rng.f64() * 24.0 - 8.0; // 2^-8 .. 2^16
            let m = 1.0 + rng.f64();
            let s = if rng.bool() { 1.0 } else { -1.0 };
            s * m * e.exp2()
        }
    }
}

/// Impulse position number `p` of a w x h block: first the structurally special positions,
/// then a full-period scattered walk over all w*h positions.
fn impulse_pos(p: u64, w: usize, h: usize) -> (usize, usize) {
    let special: [(usize, usize); 16] = [
        (0, 0),
        (1, 0),
        (0, 1),
        (1, 1),
        (w - 1, 0),
        (0, h - 1),
        (w - 1, h - 1),
        (w / 2, 0),
        (0, h / 2),
        (w / 2, h / 2),
        (w / 2 - 1, h / 2 - 1),
        (w - 1, h / 2),
        (w / 2, h - 1),
        (2, 0),
        (0, 2),
        (3, 1),
    ];
    if (p as usize) < special.len() {
        return special[p as usize];
    }
    let n = (w * h) as u64;
    let step = (0x9E37_79B1u64 % n) | 1; // odd => coprime with the power of two n
    let q = ((p - 16).wrapping_mul(step).wrapping_add(7)) % n;
    ((q as usize) % w, (q as usize) / w)
}

fn gen_impulse(rng: &mut Rng, p: u64, w: usize, h: usize) -> Gen {
    let (u, v) = impulse_pos(p, w, h);
    let mut block = vec![0f32; w * h];
    block[v * w + u] = finite_f32(amp(rng));
    let q = format!(
        "{}{}",
        if u == 0 { "0" } else if u < w / 2 { "l" } else { "h" },
        if v == 0 { "0" } else if v < h / 2 { "l" } else { "h" }
    );
    Gen { class: format!("impulse:{q}"), block }
}

fn gen_dense(rng: &mut Rng, w: usize, h: usize) -> Gen {
    let kind = rng.below(5);
    let mut block = vec![0f32; w * h];
    let class;
    match kind {
        0 => {
            class = "dense:s1";
            for b in block.iter_mut() {
                *b = finite_f32(rng.gauss());
            }
        }
        1 => {
            class = "dense:s1e4";
            for b in block.iter_mut() {
                *b = finite_f32(rng.gauss() * 1.0e4);
            }
        }
        2 => {
            class = "dense:s1e-3";
            for b in block.iter_mut() {
                *b = finite_f32(rng.gauss() * 1.0e-3);
            }
        }
        3 => {
            // image-like: magnitude decays with frequency, large DC
            class = "dense:decay";
            for v in 0..h {
                for u in 0..w {
                    let f = 1.0 + (u * 8 / w + v * 8 / h) as f64 * 4.0 + (u + v) as f64;
                    block[v * w + u] = finite_f32(rng.gauss() * 200.0 / f);
                }
            }
        }
        _ => {
            // mixed magnitudes (log-uniform over 2^-8..2^16)
            class = "dense:mixed";
            for b in block.iter_mut() {
                *b = finite_f32(amp(rng));
            }
        }
    }
    Gen { class: class.into(), block }
}

fn gen_structured(rng: &mut Rng, w: usize, h: usize) -> Gen {
    let kind = rng.below(8);
    let mut block = vec![0f32; w * h];
    let class;
    match kind {
        0 => class = "zero",
        1 => {
            class = "dc-only";
            block[0] = finite_f32(amp(rng));
        }
        2 => {
            class = "sparse";
            let n = rng.urange(2, 6);
            for _ in 0..n {
                let i = rng.below((w * h) as u64) as usize;
                block[i] = finite_f32(amp(rng));
            }
        }
        3 => {
            class = "row";
            let v = rng.below(h as u64) as usize;
            for u in 0..w {
                block[v * w + u] = finite_f32(rng.gauss() * 10.0);
            }
        }
        4 => {
            class = "col";
            let u = rng.below(w as u64) as usize;
            for v in 0..h {
                block[v * w + u] = finite_f32(rng.gauss() * 10.0);
            }
        }
        5 => {
            // only the top-left 8x8 (or LLF-sized) corner populated
            class = "lowpass";
            for v in 0..(h / 8).max(2) {
                for u in 0..(w / 8).max(2) {
                    block[v * w + u] = finite_f32(rng.gauss() * 50.0);
                }
            }
        }
        6 => {
            // all coefficients equal (maximal constructive interference at pixel (0,0))
            class = "const";
            let a = finite_f32(amp(rng));
            for b in block.iter_mut() {
                *b = a;
            }
        }
        _ => {
            // large but finite
            class = "huge";
            for b in block.iter_mut() {
                *b = finite_f32(rng.gauss() * 1.0e12);
            }
        }
    }
    Gen { class: class.into(), block }
}

/// max |got - want|, index of the worst element; NaN/inf in `got` counts as infinite error.
fn max_err(got: &[f32], want: &[f64]) -> (f64, usize) {
    let mut worst = 0f64;
    let mut at = 0usize;
    for (i, (g, w)) in got.iter().zip(want).enumerate() {
        let e = if g.is_finite() { (*g as f64 - *w).abs() } else { f64::INFINITY };
        if e > worst {
            worst = e;
            at = i;
        }
    }
    (worst, at)
}

fn max_diff(a: &[f32], b: &[f32]) -> (f64, usize) {
    let mut worst = 0f64;
    let mut at = 0usize;
    for (i, (x, y)) in a.iter().zip(b).enumerate() {
        let e = if x.is_finite() && y.is_finite() {
            (*x as f64 - *y as f64).abs()
        } else if x.to_bits() == y.to_bits() {
            0.0
        } else {
            f64::INFINITY
        };
        if e > worst {
            worst = e;
            at = i;
        }
    }
    (worst, at)
}

fn block_bytes(t: usize, al: Align, block: &[f32]) -> Vec<u8> {
    let mut b = Vec::with_capacity(8 + block.len() * 4);
    b.push(t as u8);
    b.push(al.mis as u8);
    b.push(al.stride_extra as u8);
    b.push(0);
    for v in block.iter().take(64 * 64) {
        b.extend_from_slice(&v.to_le_bytes());
    }
    b
}

struct Stats {
    on: bool,
    ratios: BTreeMap<String, f64>,
}

impl Stats {
    fn note(&mut self, key: String, r: f64) {
        if self.on {
            let e = self.ratios.entry(key).or_insert(0.0);
            if r > *e {
                *e = r;
            }
        }
    }
}

fn single_block_case(case: &mut Case, model: &Model, stats: &mut Stats, t: usize, g: Gen) {
    let (w, h) = dctref::type_size(t);
    let name = TYPE_NAMES[t];
    let tt = ttype(t);
    let al = pick_align(&mut case.rng);
    let stride = w + al.stride_extra;

    let coeff64: Vec<f64> = g.block.iter().map(|v| *v as f64).collect();
    let want = model.inverse_transform(t, &coeff64);
    let s = scale_of(&coeff64, &want);
    let k = k_of(t);
    let tol = k * EPS * s;
    let tol_pair = k * EPS * s;

    // generic
    let mut pg = Placed::new(&g.block, w, h, al.mis, stride);
    let (aclass, vec_ok) = align_class(&pg);
    h3::generic_transform(&mut pg.grid(), tt);
    let out_g = pg.extract();
    // x86_64 (runtime dispatch) and SSE2 variant
    let mut px = Placed::new(&g.block, w, h, al.mis, stride);
    let variant = h3::x86_64_transform(&mut px.grid(), tt);
    let out_x = px.extract();
    let mut p2 = Placed::new(&g.block, w, h, al.mis, stride);
    h3::x86_64_transform_sse2(&mut p2.grid(), tt);
    let out_2 = p2.extract();

    // which code is expected to have run inside the x86 path
    let path = match t {
        1 | 14..=17 => "x86:generic-body", // Hornuss / AFV are shared with the generic module
        2 => "x86:scalar-dct2",
        3 | 12 | 13 => "x86:sse-unaligned-loads", // loadu/storeu: vector code at any alignment
        _ => {
            if vec_ok {
                "x86:vector"
            } else {
                "x86:fallback-generic"
            }
        }
    };
    case.sig(format!("{name}|{}|{aclass}|{path}", g.class), g.class != "zero");
    case.sample(format!(
        "{{\"type\":{},\"class\":{},\"align\":{},\"path\":{},\"variant\":{},\"scale\":{:e}}}",
        json_str(name),
        json_str(&g.class),
        json_str(&aclass),
        json_str(path),
        json_str(variant),
        s
    ));
    case.obs("blocks", 1);
    case.obs(&format!("path/{path}"), 1);
    case.obs_set("x86_variant", variant);
    case.obs_set("types", name);
    case.obs_set("align_classes", aclass.clone());

    let eq_bits = out_g.iter().zip(&out_x).all(|(a, b)| a.to_bits() == b.to_bits());
    case.obs(
        &format!("x86_eq_generic_bits/{}/{}", path, if eq_bits { "same" } else { "differ" }),
        1,
    );

    let report = |case: &mut Case, what: &str, detail: String| {
        case.set_input(&block_bytes(t, al, &g.block));
        case.violation(format!("{name}|{what}|{path}"), detail);
    };

    for (label, out) in [("generic", &out_g), ("x86", &out_x), ("x86-sse2", &out_2)] {
        let (e, at) = max_err(out, &want);
        if s > 0.0 {
            let cls = g.class.split(':').next().unwrap_or("").to_string() + if g.class.starts_with("dense") { &g.class[5..] } else { "" };
            stats.note(format!("{name}|{cls}|{label}"), e / (EPS * s));
            stats.note(format!("{name}|ALL|single"), e / (EPS * s));
        }
        if !(e <= tol) {
            report(
                case,
                &format!("ref-mismatch:{label}"),
                format!(
                    "type {name} class {} align {aclass} path {path} ({label}): pixel ({},{}) got {:e} want {:e} |err| {:e} > tol {:e} (K={k}, scale={:e})",
                    g.class, at % w, at / w, out[at], want[at], e, tol, s
                ),
            );
            break;
        }
    }
    for (label, out) in [("x86", &out_x), ("x86-sse2", &out_2)] {
        let (e, at) = max_diff(&out_g, out);
        if s > 0.0 {
            stats.note(format!("{name}|pair|{label}"), e / (EPS * s));
            stats.note(format!("{name}|ALL|pair"), e / (EPS * s));
        }
        if !(e <= tol_pair) {
            report(
                case,
                &format!("path-mismatch:{label}"),
                format!(
                    "type {name} class {} align {aclass} path {path}: generic {:e} vs {label} {:e} at ({},{}) diff {:e} > {:e}",
                    g.class, out_g[at], out[at], at % w, at / w, e, tol_pair
                ),
            );
            break;
        }
    }
    let clob = pg.clobbered() + px.clobbered() + p2.clobbered();
    if clob != 0 {
        report(
            case,
            "write-outside-block",
            format!("type {name} align {aclass}: {clob} floats outside the block were modified"),
        );
    }
}

/// Forward dct_2d (used to derive LLF from LF) on the block shapes that occur (1..32 x 1..32).
fn forward_dct_case(case: &mut Case, model: &Model, stats: &mut Stats, t: usize) {
    let (pw, ph) = dctref::type_size(t);
    let (w, h) = (pw / 8, ph / 8);
    let name = TYPE_NAMES[t];
    let al = pick_align(&mut case.rng);
    let stride = w + al.stride_extra;
    let kind = case.rng.below(3);
    let mut block = vec![0f32; w * h];
    let class = match kind {
        0 => {
            for b in block.iter_mut() {
                *b = finite_f32(case.rng.gauss());
            }
            "lf:gauss"
        }
        1 => {
            let i = case.rng.below((w * h) as u64) as usize;
            block[i] = finite_f32(amp(&mut case.rng));
            "lf:impulse"
        }
        _ => {
            let base = amp(&mut case.rng);
            for b in block.iter_mut() {
                *b = finite_f32(base + case.rng.gauss() * base.abs() * 0.01);
            }
            "lf:smooth"
        }
    };
    let pix64: Vec<f64> = block.iter().map(|v| *v as f64).collect();
    let want = model.dct2d(&pix64, w, h);
    // forward transform: ||coefficients||_2 == RMS of the samples (Parseval with this scaling)
    let winf = want.iter().fold(0f64, |a, b| a.max(b.abs()));
    let s = (dctref::l2(&pix64) / ((w * h) as f64).sqrt()).max(winf);
    let kk = K_FWD;
    let tol = kk * EPS * s;

    let mut pg = Placed::new(&block, w, h, al.mis, stride);
    let (aclass, vec_ok) = align_class(&pg);
    h3::generic_dct_2d(&mut pg.grid(), h3::DctDirection::Forward);
    let out_g = pg.extract();
    let mut px = Placed::new(&block, w, h, al.mis, stride);
    h3::x86_64_dct_2d(&mut px.grid(), h3::DctDirection::Forward);
    let out_x = px.extract();
    let path = if vec_ok { "x86:vector" } else { "x86:fallback-generic" };
    case.sig(format!("fwd{w}x{h}|{class}|{aclass}|{path}"), true);
    case.sample(format!(
        "{{\"fwd_dct\":\"{w}x{h}\",\"class\":{},\"align\":{},\"path\":{}}}",
        json_str(class),
        json_str(&aclass),
        json_str(path)
    ));
    case.obs("fwd_dct_blocks", 1);
    case.obs(&format!("fwd_path/{path}"), 1);
    for (label, out) in [("generic", &out_g), ("x86", &out_x)] {
        let (e, at) = max_err(out, &want);
        if s > 0.0 {
            stats.note(format!("fwd{w}x{h}|{label}"), e / (EPS * s));
        }
        if !(e <= tol) {
            case.set_input(&block_bytes(t, al, &block));
            case.violation(
                format!("fwd{w}x{h}|ref-mismatch:{label}|{path}"),
                format!(
                    "forward dct_2d {w}x{h} (LF of {name}) class {class} align {aclass} ({label}): coeff ({},{}) got {:e} want {:e} |err| {:e} > tol {:e}",
                    at % w, at / w, out[at], want[at], e, tol
                ),
            );
            break;
        }
    }
    if pg.clobbered() + px.clobbered() != 0 {
        case.violation(format!("fwd{w}x{h}|write-outside-block"), "sentinel overwritten".to_string());
    }
}

struct VarBlock {
    bx: usize,
    by: usize,
    t: usize,
}

/// Tile a gw x gh grid of 8x8 blocks with varblocks; `primary` is placed first.
fn tile(rng: &mut Rng, gw: usize, gh: usize, primary: usize, only_dct8: bool) -> (Vec<BlockInfo>, Vec<VarBlock>) {
    let mut info = vec![BlockInfo::Uninit; gw * gh];
    let mut blocks = Vec::new();
    let place = |info: &mut Vec<BlockInfo>, blocks: &mut Vec<VarBlock>, bx: usize, by: usize, t: usize| {
        let (pw, ph) = dctref::type_size(t);
        let (bw, bh) = (pw / 8, ph / 8);
        for y in 0..bh {
            for x in 0..bw {
                info[(by + y) * gw + bx + x] = BlockInfo::Occupied;
            }
        }
        info[by * gw + bx] = BlockInfo::Data { dct_select: ttype(t), hf_mul: 1 };
        blocks.push(VarBlock { bx, by, t });
    };
    if !only_dct8 {
        let (pw, ph) = dctref::type_size(primary);
        let (bw, bh) = (pw / 8, ph / 8);
        let bx = rng.urange(0, gw - bw);
        let by = rng.urange(0, gh - bh);
        place(&mut info, &mut blocks, bx, by, primary);
    }
    let small: [usize; 16] = [0, 1, 2, 3, 12, 13, 14, 15, 16, 17, 4, 6, 7, 8, 9, 0];
    for by in 0..gh {
        for bx in 0..gw {
            if !matches!(info[by * gw + bx], BlockInfo::Uninit) {
                continue;
            }
            let mut t = if only_dct8 { 0 } else { *rng.pick(&small) };
            let (pw, ph) = dctref::type_size(t);
            let (bw, bh) = (pw / 8, ph / 8);
            let mut fits = bx + bw <= gw && by + bh <= gh;
            if fits {
                for y in 0..bh {
                    for x in 0..bw {
                        if !matches!(info[(by + y) * gw + bx + x], BlockInfo::Uninit) {
                            fits = false;
                        }
                    }
                }
            }
            if !fits {
                t = *rng.pick(&[0usize, 1, 2, 3, 12, 13, 14, 15, 16, 17]);
            }
            place(&mut info, &mut blocks, bx, by, t);
        }
    }
    (info, blocks)
}

fn varblocks_case(case: &mut Case, model: &Model, stats: &mut Stats, t: usize) {
    let name = TYPE_NAMES[t];
    let (pw, ph) = dctref::type_size(t);
    let (bw, bh) = (pw / 8, ph / 8);
    let shifted = case.rng.chance(1, 4) && pw == 8 && ph == 8;
    // grid of 8x8 blocks
    let (gw, gh) = if shifted {
        (2 * case.rng.urange(1, 3), 2 * case.rng.urange(1, 3))
    } else {
        (bw + case.rng.urange(0, 3), bh + case.rng.urange(0, 3))
    };
    let (info, blocks) = tile(&mut case.rng, gw, gh, t, shifted);
    let shifts: [(i32, i32); 3] = if shifted {
        let mut s = [(0, 0); 3];
        for c in s.iter_mut() {
            *c = *case.rng.pick(&[(0, 0), (1, 0), (0, 1), (1, 1)]);
        }
        s
    } else {
        [(0, 0); 3]
    };
    let lf_sigma = *case.rng.pick(&[1.0f64, 100.0, 0.01]);
    let hf_sigma = *case.rng.pick(&[1.0f64, 10.0, 0.0, 1.0e3]);
    let al = pick_align(&mut case.rng);
    // alignment of the grid base: every varblock starts at a multiple of 8 floats from it
    let shift_class = if shifted {
        format!("shift{:?}", shifts).replace(' ', "")
    } else {
        "noshift".to_string()
    };

    // per channel data
    let mut lfs: Vec<(Vec<f32>, usize, usize)> = Vec::new();
    let mut coeffs: Vec<(Vec<f32>, usize, usize)> = Vec::new();
    for c in 0..3 {
        let (hs, vs) = shifts[c];
        let lw = gw >> hs;
        let lh = gh >> vs;
        let mut lf = vec![0f32; lw * lh];
        let base = case.rng.gauss() * lf_sigma;
        for v in lf.iter_mut() {
            *v = finite_f32(base + case.rng.gauss() * lf_sigma);
        }
        let mut co = vec![0f32; lw * 8 * lh * 8];
        for v in co.iter_mut() {
            *v = finite_f32(case.rng.gauss() * hf_sigma);
        }
        lfs.push((lf, lw, lh));
        coeffs.push((co, lw * 8, lh * 8));
    }

    // reference, per channel and varblock
    struct Want {
        c: usize,
        left: usize,
        top: usize,
        t: usize,
        pix: Vec<f64>,
        s: f64,
    }
    let mut wants: Vec<Want> = Vec::new();
    for c in 0..3 {
        let (hs, vs) = shifts[c];
        let (lf, lw, _lh) = &lfs[c];
        let (co, cw, _ch) = &coeffs[c];
        for vb in &blocks {
            // with subsampling only the blocks whose coordinates are multiples of the factor
            // map to a block of this channel (grid is all-Dct8 in that mode)
            if (vb.bx >> hs) << hs != vb.bx || (vb.by >> vs) << vs != vb.by {
                continue;
            }
            let sbx = vb.bx >> hs;
            let sby = vb.by >> vs;
            let (w, h) = dctref::type_size(vb.t);
            let (vbw, vbh) = (w / 8, h / 8);
            let mut blk = vec![0f64; w * h];
            for y in 0..h {
                for x in 0..w {
                    blk[y * w + x] = co[(sby * 8 + y) * cw + sbx * 8 + x] as f64;
                }
            }
            let mut l = vec![0f64; vbw * vbh];
            for y in 0..vbh {
                for x in 0..vbw {
                    l[y * vbw + x] = lf[(sby + y) * lw + sbx + x] as f64;
                }
            }
            if vbw * vbh == 1 {
                blk[0] = l[0];
            } else {
                let llf = model.llf_from_lf(&l, vbw, vbh);
                for y in 0..vbh {
                    for x in 0..vbw {
                        blk[y * w + x] = llf[y * vbw + x];
                    }
                }
            }
            let pix = model.inverse_transform(vb.t, &blk);
            let s = scale_of(&blk, &pix);
            wants.push(Want { c, left: sbx * 8, top: sby * 8, t: vb.t, pix, s });
        }
    }

    let info_grid = SharedSubgrid::from_buf(&info[..], gw, gh, gw);
    let shifts_cs = [
        ChannelShift::Raw(shifts[0].0, shifts[0].1),
        ChannelShift::Raw(shifts[1].0, shifts[1].1),
        ChannelShift::Raw(shifts[2].0, shifts[2].1),
    ];

    let mut aclass = String::new();
    let mut vec_ok = false;
    let mut outs: Vec<Vec<Vec<f32>>> = Vec::new();
    let mut clob = 0usize;
    for which in 0..2 {
        let mut placed: Vec<Placed> = coeffs
            .iter()
            .map(|(co, cw, ch)| Placed::new(co, *cw, *ch, al.mis, *cw + al.stride_extra))
            .collect();
        let (a, v) = align_class(&placed[0]);
        aclass = a;
        vec_ok = v;
        {
            let lf_grids: [SharedSubgrid<f32>; 3] = [
                SharedSubgrid::from_buf(&lfs[0].0[..], lfs[0].1, lfs[0].2, lfs[0].1),
                SharedSubgrid::from_buf(&lfs[1].0[..], lfs[1].1, lfs[1].2, lfs[1].1),
                SharedSubgrid::from_buf(&lfs[2].0[..], lfs[2].1, lfs[2].2, lfs[2].1),
            ];
            let mut it = placed.iter_mut();
            let (p0, p1, p2) = (it.next().unwrap(), it.next().unwrap(), it.next().unwrap());
            let mut grids = [p0.grid(), p1.grid(), p2.grid()];
            if which == 0 {
                h3::generic_transform_varblocks(&lf_grids, &mut grids, shifts_cs, &info_grid);
            } else {
                h3::selected_transform_varblocks(&lf_grids, &mut grids, shifts_cs, &info_grid);
            }
        }
        clob += placed.iter().map(|p| p.clobbered()).sum::<usize>();
        outs.push(placed.iter().map(|p| p.extract()).collect());
    }

    let path = if vec_ok { "sel:vector" } else { "sel:fallback-generic" };
    case.sig(format!("varblocks|{name}|{shift_class}|{aclass}|{path}"), true);
    case.sample(format!(
        "{{\"varblocks\":{},\"grid\":\"{gw}x{gh}\",\"nblocks\":{},\"shifts\":{},\"align\":{},\"lf_sigma\":{lf_sigma},\"hf_sigma\":{hf_sigma}}}",
        json_str(name),
        blocks.len(),
        json_str(&shift_class),
        json_str(&aclass)
    ));
    case.obs("varblocks_calls", 2);
    case.obs("varblocks_blocks_checked", wants.len() as u64 * 2);
    case.obs(&format!("varblocks_path/{path}"), 1);

    'outer: for (which, label) in [(0usize, "generic"), (1, "selected")] {
        for wnt in &wants {
            let (w, h) = dctref::type_size(wnt.t);
            let (co, cw) = (&outs[which][wnt.c], coeffs[wnt.c].1);
            let mut got = Vec::with_capacity(w * h);
            for y in 0..h {
                got.extend_from_slice(&co[(wnt.top + y) * cw + wnt.left..][..w]);
            }
            let (e, at) = max_err(&got, &wnt.pix);
            let tol = k_of(wnt.t) * EPS * wnt.s;
            if wnt.s > 0.0 {
                stats.note(format!("{}|varblocks|{label}", TYPE_NAMES[wnt.t]), e / (EPS * wnt.s));
                stats.note(format!("{}|ALL|varblocks", TYPE_NAMES[wnt.t]), e / (EPS * wnt.s));
            }
            if !(e <= tol) {
                let mut bytes = vec![t as u8, gw as u8, gh as u8, al.mis as u8];
                bytes.extend_from_slice(format!("{:?}", shifts).as_bytes());
                case.set_input(&bytes);
                case.violation(
                    format!("varblocks|{}|ref-mismatch:{label}|{path}", TYPE_NAMES[wnt.t]),
                    format!(
                        "transform_varblocks ({label}) grid {gw}x{gh} {shift_class} align {aclass}: channel {} varblock {} at px ({},{}) pixel ({},{}) got {:e} want {:e} |err| {:e} > tol {:e}",
                        wnt.c, TYPE_NAMES[wnt.t], wnt.left, wnt.top, at % w, at / w, got[at], wnt.pix[at], e, tol
                    ),
                );
                break 'outer;
            }
        }
    }
    if clob != 0 {
        case.violation("varblocks|write-outside-grid".to_string(), format!("{clob} floats outside the coefficient grids were modified"));
    }
}

pub fn run(args: &Args) -> i32 {
    let (d, d0) = dctref::afv_basis_defect();
    if !(d < 1e-12) || d0 != 0.0 {
        eprintln!("HARNESS-ERROR c16: AFV basis table of the reference model is not orthonormal ({d:e}, {d0:e})");
        return 2;
    }
    let model = Model::new();
    let mut stats = Stats { on: args.extra.contains_key("explore"), ratios: BTreeMap::new() };
    let only_type: Option<usize> = args.extra.get("type").and_then(|v| v.parse().ok());
    let rc = run_cases(args, SALT, |case| {
        let t = only_type.unwrap_or((case.idx % NUM_TYPES as u64) as usize);
        let j = case.idx / NUM_TYPES as u64;
        let (w, h) = dctref::type_size(t);
        case.obs_set(
            "cpu_features",
            format!(
                "sse4.1={} avx2={} fma={}",
                is_x86_feature_detected!("sse4.1"),
                is_x86_feature_detected!("avx2"),
                is_x86_feature_detected!("fma")
            ),
        );
        case.obs_set("afv_table_orthonormality_defect", format!("{d:.1e}"));
        match j % 8 {
            3 => {
                let g = gen_dense(&mut case.rng, w, h);
                single_block_case(case, &model, &mut stats, t, g);
            }
            6 => {
                let g = gen_structured(&mut case.rng, w, h);
                single_block_case(case, &model, &mut stats, t, g);
            }
            7 => {
                if (j / 8) % 4 == 3 && w * h > 64 {
                    forward_dct_case(case, &model, &mut stats, t);
                } else {
                    varblocks_case(case, &model, &mut stats, t);
                }
            }
            m => {
                // impulse number p: 5 impulse slots per 8 cases
                let rank = match m {
                    0 => 0,
                    1 => 1,
                    2 => 2,
                    4 => 3,
                    _ => 4,
                };
                let p = (j / 8) * 5 + rank;
                let g = gen_impulse(&mut case.rng, p, w, h);
                case.obs("impulse_cases", 1);
                single_block_case(case, &model, &mut stats, t, g);
            }
        }
    });
    if stats.on {
        for (k, v) in &stats.ratios {
            eprintln!("RATIO {k} {v:.2}");
        }
    }
    rc
}
