//! C12: 16-bit and 32-bit Modular buffers give identical results.
//!
//! Streams truthfully declare modular_16bit_buffers (depth <= 12, every value of every stage
//! within +-(2^12-1)). Decoded with default (narrow, SIMD) buffers and with wide buffers forced;
//! all planes must be bit-identical, and both equal the encoder truth.

use crate::common::*;
use crate::dec::*;
use jxlgen::imggen::*;
use jxlgen::modmodel::{SqueezeParam, Transform};

fn planes_equal(a: &[Plane], b: &[Plane]) -> Result<(), String> {
    if a.len() != b.len() {
        return Err(format!("{} vs {} planes", a.len(), b.len()));
    }
    for (c, (x, y)) in a.iter().zip(b).enumerate() {
        if x.dims() != y.dims() {
            return Err(format!("plane {c} dims {:?} vs {:?}", x.dims(), y.dims()));
        }
        let (xa, ya): (Vec<i64>, Vec<i64>) = match (x, y) {
            (Plane::Int { data: p, .. }, Plane::Int { data: q, .. }) => (p.iter().map(|&v| v as i64).collect(), q.iter().map(|&v| v as i64).collect()),
            (Plane::Float { data: p, .. }, Plane::Float { data: q, .. }) => (p.iter().map(|v| v.to_bits() as i64).collect(), q.iter().map(|v| v.to_bits() as i64).collect()),
            // one side integer, the other float: compare numerically through the float
            (Plane::Int { data: p, .. }, Plane::Float { data: q, .. }) | (Plane::Float { data: q, .. }, Plane::Int { data: p, .. }) => {
                let _ = (p, q);
                return Err(format!("plane {c}: buffer kinds differ (int vs float)"));
            }
        };
        if let Some(i) = xa.iter().zip(&ya).position(|(p, q)| p != q) {
            return Err(format!("plane {c} differs at index {i} ({}x{}): narrow {} vs wide {}", x.dims().0, x.dims().1, xa[i], ya[i]));
        }
    }
    Ok(())
}

pub fn run(args: &Args) -> i32 {
    let thorough = args.thorough();
    run_cases(args, 0xC12, |case| {
        let mut rng = case.rng.fork();
        // a third of the cases: squeeze-focused sweep over (w, h) around lane multiples
        let tiny = args.extra.contains_key("tiny");
        let sweep = tiny || rng.chance(1, 3);
        let mut opts = ImgOpts { narrow: true, allow_float: false, max_dim: if thorough { 600 } else { 300 }, ..Default::default() };
        let mut kind = "random";
        if sweep {
            let dim = |rng: &mut jxlgen::rng::Rng| -> u32 {
                match rng.below(4) {
                    0 | 1 => rng.u32range(1, 70),
                    2 => rng.u32range(120, 136),
                    _ => rng.u32range(250, 262),
                }
            };
            let (w, h) = if tiny {
                // Miri: small, but wide enough for the vector bodies (>16 / >32 columns)
                (*rng.pick(&[17u32, 18, 33, 35, 40, 9]), *rng.pick(&[1u32, 2, 8, 9, 17]))
            } else {
                (dim(&mut rng), dim(&mut rng))
            };
            opts.fixed_dims = Some((w, h));
            opts.max_extra = 1;
            opts.allow_local = false;
            opts.group_size_shift = Some(if w.max(h) > 128 { 1 } else { 0 });
            let horizontal = rng.bool();
            let n = if rng.bool() { 1 } else { 2 };
            let mut sq = vec![SqueezeParam { horizontal, in_place: rng.bool(), begin_c: 0, num_c: 1 }];
            if n == 2 {
                sq.push(SqueezeParam { horizontal: !horizontal, in_place: rng.bool(), begin_c: 0, num_c: 1 });
            }
            let mut trs = vec![];
            if rng.chance(1, 3) {
                trs.push(Transform::Rct { begin_c: 0, rct_type: rng.below(42) as u32 });
            }
            trs.push(if rng.chance(1, 4) { Transform::Squeeze(vec![]) } else { Transform::Squeeze(sq) });
            opts.force_transforms = Some(trs);
            kind = if horizontal { "sweep-h" } else { "sweep-v" };
        } else {
            opts.size_class = match rng.below(6) { 0 => 0, 1 | 2 | 3 => 1, 4 => 2, _ => 3 };
            if rng.chance(1, 3) {
                // whole i16 range, no transforms: the predictors' own arithmetic (n + w - nw etc.) must
                // not be done in 16 bits
                opts.narrow_full_range = true;
                kind = "random-i16range";
            }
        }
        let mut img = None;
        for _ in 0..40 {
            if sweep && opts.force_transforms.as_ref().map_or(false, |t| matches!(t[0], Transform::Rct { .. })) {
                // RCT needs 3 colour channels: the generator returns None for grey, retry
            }
            if let Some(i) = gen_modular_image(&mut rng, &opts) {
                img = Some(i);
                break;
            }
        }
        let Some(img) = img else {
            case.inconclusive("generator gave up");
            return;
        };
        case.set_input(&img.bytes);
        let (w, h) = (img.ih.size.width, img.ih.size.height);
        let tr = img.enc_desc.split("tr=[").nth(1).and_then(|s| s.split(']').next()).unwrap_or("").to_string();
        let trc: Vec<String> = tr.split(',').filter(|s| !s.is_empty()).map(|s| if s.starts_with("rct") { "rct".into() } else { s.to_string() }).collect();
        let wc = if w <= 70 { format!("w{}", w % 16) } else { format!("W{}", w % 16) };
        let hc = if h <= 70 { format!("h{}", h % 16) } else { format!("H{}", h % 16) };
        let pool = if !cfg!(miri) && rng.chance(1, 3) { Pool::Rayon(3) } else { Pool::None };
        case.sig(format!("{kind}|{}|{wc}|{hc}|{:?}", trc.join("+"), pool), img.num_samples >= 4);
        case.obs_set("wh_mod16_cells", format!("{}x{}", w % 16, h % 16));
        case.sample(format!("{{\"image\":{},\"encoding\":{},\"pool\":\"{:?}\"}}", json_str(&img.desc), json_str(&img.enc_desc), pool));
        let narrow = match open_image(&img.bytes, pool, false).and_then(|i| render_planes(&i, 0)) {
            Ok(p) => p,
            Err(e) => {
                case.violation("narrow-decode-err", format!("{e} [{} | {}]", img.desc, img.enc_desc));
                return;
            }
        };
        let wide = match open_image(&img.bytes, pool, true).and_then(|i| render_planes(&i, 0)) {
            Ok(p) => p,
            Err(e) => {
                case.violation("wide-decode-err", format!("{e} [{} | {}]", img.desc, img.enc_desc));
                return;
            }
        };
        // narrow buffers are i16 planes, wide i32: compare values
        let norm = |p: &Plane| -> Plane {
            match p {
                Plane::Int { w, h, data, .. } => Plane::Int { w: *w, h: *h, data: data.clone(), narrow: false },
                f => f.clone(),
            }
        };
        let n2: Vec<Plane> = narrow.iter().map(norm).collect();
        let w2: Vec<Plane> = wide.iter().map(norm).collect();
        if narrow.iter().any(|p| matches!(p, Plane::Int { narrow: true, .. })) {
            case.obs("narrow_i16_planes_seen", 1);
        }
        if let Err(e) = planes_equal(&n2, &w2) {
            case.violation("narrow-wide-differ", format!("{e} [{} | {}] pool={pool:?}", img.desc, img.enc_desc));
            return;
        }
        // and both equal the truth (non-subsampled channels)
        for (c, (t, p)) in img.truth.iter().zip(&w2).enumerate() {
            if img.infos[c].hshift != 0 {
                continue;
            }
            if let Plane::Int { data, .. } = p {
                if data != &t.data {
                    case.violation("truth-mismatch", format!("channel {c} differs from the encoder truth [{} | {}]", img.desc, img.enc_desc));
                    return;
                }
            }
        }
        case.obs("images_compared", 1);
        case.obs("samples_compared", img.num_samples as u64);
    })
}
