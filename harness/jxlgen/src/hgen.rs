//! Random *valid* header bundles covering the conditional layout of the format.

use crate::bits::{f16_to_f32, f32_to_f16_bits};
use crate::headers::*;
use crate::rng::Rng;

pub fn random_f16_finite(rng: &mut Rng) -> u16 {
    loop {
        let v = match rng.below(4) {
            0 => rng.next_u32() as u16,
            1 => *rng.pick(&[0u16, 0x8000, 0x3c00, 0xbc00, 0x0001, 0x03ff, 0x0400, 0x7bff, 0xfbff]),
            2 => f32_to_f16_bits((rng.f64() * 2.0 - 1.0) as f32),
            _ => f32_to_f16_bits((rng.gauss() * 10.0) as f32),
        };
        if (v >> 10) & 0x1f != 0x1f {
            return v;
        }
    }
}

/// Positive finite, > 0
pub fn random_f16_positive(rng: &mut Rng) -> u16 {
    loop {
        let v = random_f16_finite(rng) & 0x7fff;
        if v != 0 {
            return v;
        }
    }
}

pub fn random_name(rng: &mut Rng) -> String {
    let len = match rng.below(8) {
        0 | 1 => 0,
        2 => rng.urange(1, 15),
        3 => *rng.pick(&[15usize, 16, 17, 47, 48, 49]),
        4 => rng.urange(16, 47),
        5 => rng.urange(48, 200),
        6 => *rng.pick(&[1071usize, 1070, 1000]),
        _ => rng.urange(0, 30),
    };
    // build a UTF-8 string of exactly `len` bytes
    let mut s = String::new();
    while s.len() < len {
        let left = len - s.len();
        let c = match rng.below(6) {
            0 if left >= 2 => char::from_u32(0xe9).unwrap(),    // 2 bytes
            1 if left >= 3 => char::from_u32(0x20ac).unwrap(),  // 3 bytes
            2 if left >= 4 => char::from_u32(0x1f600).unwrap(), // 4 bytes
            3 => ' ',
            _ => (b'a' + rng.below(26) as u8) as char,
        };
        s.push(c);
    }
    debug_assert_eq!(s.len(), len);
    s
}

pub fn random_dim(rng: &mut Rng) -> u32 {
    match rng.below(8) {
        0 => rng.u32range(1, 8),
        1 => rng.u32range(1, 512),
        2 => rng.u32range(513, 8192),
        3 => rng.u32range(8193, 262144),
        4 => rng.u32range(262145, 1 << 30),
        5 => 8 * rng.u32range(1, 32),
        6 => *rng.pick(&[1u32, 512, 513, 8192, 8193, 262144, 262145, 1 << 30, 256, 255, 257]),
        _ => rng.u32range(1, 4096),
    }
}

pub fn random_size_header(rng: &mut Rng) -> SizeHeader {
    let h = random_dim(rng);
    let w = if rng.chance(2, 5) {
        let r = rng.u32range(1, 7);
        ratio_width(r, h)
    } else {
        random_dim(rng)
    };
    // explicit width must be encodable (<= 2^30) unless implied by a ratio
    let w = if w > (1 << 30) && !(1..=7).any(|r| ratio_width(r, h) == w) {
        1 << 30
    } else {
        w
    };
    let mut s = SizeHeader::with_random_repr(w, h, rng);
    if s.ratio == 0 && s.width > (1 << 30) {
        s.width = 1 << 30;
    }
    s
}

pub fn random_preview(rng: &mut Rng) -> PreviewHeader {
    let dim = |rng: &mut Rng| match rng.below(6) {
        0 => rng.u32range(1, 64),
        1 => rng.u32range(65, 320),
        2 => rng.u32range(321, 1344),
        3 => rng.u32range(1345, 5440),
        4 => 8 * *rng.pick(&[16u32, 32, 1, 31, 33, 100, 544]),
        _ => *rng.pick(&[1u32, 64, 65, 320, 321, 1344, 1345, 5440]),
    };
    let h = dim(rng);
    let w = if rng.chance(2, 5) {
        let r = rng.u32range(1, 7);
        ratio_width(r, h)
    } else {
        dim(rng)
    };
    let w = if w > 5440 && !(1..=7).any(|r| ratio_width(r, h) == w) {
        5440
    } else {
        w
    };
    PreviewHeader::with_random_repr(w, h, rng)
}

pub fn random_bit_depth(rng: &mut Rng) -> BitDepth {
    match rng.below(8) {
        0 => BitDepth::Int { bits: 8 },
        1 => BitDepth::Int { bits: *rng.pick(&[10u32, 12, 16]) },
        2 | 3 => BitDepth::Int { bits: rng.u32range(1, 31) },
        4 => BitDepth::Float { bits: 32, exp_bits: 8 },
        5 => BitDepth::Float { bits: 16, exp_bits: 5 },
        6 => BitDepth::Float { bits: 24, exp_bits: 7 },
        _ => {
            let exp = rng.u32range(2, 8);
            let mant = rng.u32range(2, 23);
            BitDepth::Float { bits: exp + 1 + mant, exp_bits: exp }
        }
    }
}

pub fn random_ec_info(rng: &mut Rng) -> ExtraChannelInfo {
    if rng.chance(1, 5) {
        return ExtraChannelInfo::default_alpha();
    }
    let ty = match rng.below(10) {
        0 | 1 => EcType::Alpha { associated: rng.bool() },
        2 => EcType::Depth,
        3 => EcType::Spot {
            rgbs: [
                random_f16_finite(rng),
                random_f16_finite(rng),
                random_f16_finite(rng),
                random_f16_finite(rng),
            ],
        },
        4 => EcType::SelectionMask,
        5 => EcType::Black,
        6 => EcType::Cfa {
            channel: match rng.below(4) {
                0 => 1,
                1 => rng.u32range(0, 3),
                2 => rng.u32range(3, 18),
                _ => rng.u32range(19, 274),
            },
        },
        7 => EcType::Thermal,
        8 => EcType::NonOptional,
        _ => EcType::Optional,
    };
    let dim_shift = match rng.below(4) {
        0 | 1 => 0,
        2 => *rng.pick(&[3u32, 4]),
        _ => rng.u32range(1, 8),
    };
    ExtraChannelInfo::new(ty, random_bit_depth(rng), dim_shift, &random_name(rng))
}

pub fn random_xy(rng: &mut Rng) -> Xy {
    let c = |rng: &mut Rng| -> i32 {
        match rng.below(6) {
            0 => rng.range(0, 1_000_000) as i32,
            1 => rng.range(-262144, 262143) as i32,
            2 => rng.range(-(1 << 21), (1 << 21) - 1) as i32,
            // extremes of the four selector ranges (after signed packing)
            3 => *rng.pick(&[0i32, -1, 262143, -262144, 262144, -262145, 524287, -524288, 524288, 1048575, -1048576, 1048576, 2097151, -2097152]),
            4 => rng.range(-2097152, 2097151) as i32,
            _ => rng.range(200_000, 700_000) as i32,
        }
    };
    Xy { x: c(rng), y: c(rng) }
}

pub fn random_colour_encoding(rng: &mut Rng, allow_icc: bool) -> ColourEncoding {
    if rng.chance(1, 4) {
        return ColourEncoding::default();
    }
    let want_icc = allow_icc && rng.chance(1, 6);
    let colour_space = rng.below(4) as u32;
    let white_point = match rng.below(5) {
        0 | 1 => WhitePoint::D65,
        2 => WhitePoint::Custom(random_xy(rng)),
        3 => WhitePoint::E,
        _ => WhitePoint::Dci,
    };
    let primaries = match rng.below(5) {
        0 | 1 => Primaries::Srgb,
        2 => Primaries::Custom([random_xy(rng), random_xy(rng), random_xy(rng)]),
        3 => Primaries::Bt2100,
        _ => Primaries::P3,
    };
    let tf = match rng.below(9) {
        0 => Tf::Gamma(match rng.below(3) {
            0 => rng.u32range(1, (1 << 24) - 1),
            1 => *rng.pick(&[1u32, 10_000_000, 4_545_455, (1 << 24) - 1, 1221]),
            _ => rng.u32range(1_000_000, 10_000_000),
        }),
        1 => Tf::Bt709,
        2 => Tf::Unknown,
        3 => Tf::Linear,
        4 | 5 => Tf::Srgb,
        6 => Tf::Pq,
        7 => Tf::Dci,
        _ => Tf::Hlg,
    };
    let mut ce = ColourEncoding {
        all_default: false,
        want_icc,
        colour_space,
        white_point,
        primaries,
        tf,
        rendering_intent: rng.below(4) as u32,
    };
    // fields that are not coded take their implied values
    if want_icc {
        ce.white_point = WhitePoint::D65;
        ce.primaries = Primaries::Srgb;
        ce.tf = Tf::Srgb;
        ce.rendering_intent = 1;
    } else {
        if colour_space == 2 {
            ce.white_point = WhitePoint::D65;
        }
        if colour_space == 2 || colour_space == 1 {
            ce.primaries = Primaries::Srgb;
        }
    }
    ce
}

pub fn random_tone_mapping(rng: &mut Rng) -> ToneMapping {
    if rng.chance(1, 3) {
        return ToneMapping::default();
    }
    let intensity_target = random_f16_positive(rng);
    let it = f16_to_f32(intensity_target);
    // 0 <= min_nits <= intensity_target
    let min_nits = loop {
        let v = if rng.bool() { 0 } else { random_f16_finite(rng) & 0x7fff };
        if f16_to_f32(v) <= it {
            break v;
        }
    };
    let relative = rng.bool();
    let linear_below = loop {
        let v = if rng.bool() { 0 } else { random_f16_finite(rng) & 0x7fff };
        if !relative || f16_to_f32(v) <= 1.0 {
            break v;
        }
    };
    ToneMapping {
        all_default: false,
        intensity_target,
        min_nits,
        relative_to_max_display: relative,
        linear_below,
    }
}

#[derive(Clone, Debug, Default)]
pub struct HeaderOpts {
    /// allow want_icc (then the caller must write an ICC stream after the header)
    pub allow_icc: bool,
    pub max_extra: usize,
}

pub fn random_metadata(rng: &mut Rng, opts: &HeaderOpts) -> ImageMetadata {
    let mut m = ImageMetadata::default();
    if !rng.chance(1, 8) {
        m.all_default = false;
        m.extra_fields = rng.chance(3, 5);
        if m.extra_fields {
            if rng.chance(2, 3) {
                m.orientation = rng.u32range(1, 8);
            }
            if rng.chance(1, 3) {
                m.intrinsic_size = Some(random_size_header(rng));
            }
            if rng.chance(1, 3) {
                m.preview = Some(random_preview(rng));
            }
            if rng.chance(1, 2) {
                m.animation = Some(AnimationHeader {
                    tps_numerator: match rng.below(4) {
                        0 => 100,
                        1 => 1000,
                        2 => rng.u32range(1, 1024),
                        _ => rng.u32range(1, 1 << 30),
                    },
                    tps_denominator: match rng.below(4) {
                        0 => 1,
                        1 => 1001,
                        2 => rng.u32range(1, 256),
                        _ => rng.u32range(1, 1024),
                    },
                    num_loops: match rng.below(4) {
                        0 => 0,
                        1 => rng.u32range(0, 7),
                        2 => rng.u32range(0, 65535),
                        _ => rng.next_u32(),
                    },
                    have_timecodes: rng.bool(),
                });
            }
            m.tone_mapping = random_tone_mapping(rng);
        }
        m.bit_depth = random_bit_depth(rng);
        m.modular_16bit_buffers = rng.bool();
        let n = match rng.below(8) {
            0 | 1 | 2 => 0,
            3 => 1,
            4 => rng.urange(2, 17),
            5 => rng.urange(1, 40),
            6 => rng.urange(0, 5),
            _ => {
                if rng.chance(1, 10) {
                    rng.urange(18, 256)
                } else {
                    rng.urange(0, 3)
                }
            }
        };
        let n = n.min(opts.max_extra);
        m.ec_info = (0..n).map(|_| random_ec_info(rng)).collect();
        m.xyb_encoded = rng.bool();
        m.colour_encoding = random_colour_encoding(rng, opts.allow_icc);
        m.extensions = Extensions::random(rng);
    }
    m.default_m = rng.chance(2, 3);
    if !m.default_m {
        if m.xyb_encoded {
            let all_default = rng.bool();
            let mut o = OpsinInverse {
                all_default,
                inv_mat: [0; 9],
                opsin_bias: [0; 3],
                quant_bias: [0; 3],
                quant_bias_numerator: 0,
            };
            if !all_default {
                for v in o.inv_mat.iter_mut() {
                    *v = random_f16_finite(rng);
                }
                for v in o.opsin_bias.iter_mut() {
                    *v = random_f16_finite(rng);
                }
                for v in o.quant_bias.iter_mut() {
                    *v = random_f16_finite(rng);
                }
                o.quant_bias_numerator = random_f16_finite(rng);
            }
            m.opsin_inverse = Some(o);
        }
        m.cw_mask = rng.below(8) as u32;
        if m.cw_mask & 1 != 0 {
            m.up2 = Some((0..15).map(|_| random_f16_finite(rng)).collect());
        }
        if m.cw_mask & 2 != 0 {
            m.up4 = Some((0..55).map(|_| random_f16_finite(rng)).collect());
        }
        if m.cw_mask & 4 != 0 {
            m.up8 = Some((0..210).map(|_| random_f16_finite(rng)).collect());
        }
    }
    m
}

pub fn random_image_header(rng: &mut Rng, opts: &HeaderOpts) -> ImageHeader {
    ImageHeader {
        size: random_size_header(rng),
        metadata: random_metadata(rng, opts),
    }
}

pub fn random_passes(rng: &mut Rng) -> Passes {
    if rng.chance(1, 2) {
        return Passes::single();
    }
    let num_passes = match rng.below(4) {
        0 => 2,
        1 => 3,
        _ => rng.u32range(2, 11),
    };
    let num_ds = rng.u32range(0, 4.min(num_passes - 1));
    let shift = (0..num_passes - 1).map(|_| rng.below(4) as u32).collect();
    // downsample strictly decreasing from {8,4,2,1}; last_pass strictly increasing < num_passes
    let mut ds: Vec<u32> = vec![8, 4, 2, 1];
    while ds.len() > num_ds as usize {
        let i = rng.below(ds.len() as u64) as usize;
        ds.remove(i);
    }
    // last_pass is coded with at most 3 bits
    let mut lp: Vec<u32> = (0..(num_passes - 1).min(8)).collect();
    while lp.len() > num_ds as usize {
        let i = rng.below(lp.len() as u64) as usize;
        lp.remove(i);
    }
    Passes {
        num_passes,
        shift,
        downsample: ds,
        last_pass: lp,
    }
}

pub fn random_restoration_filter(rng: &mut Rng) -> RestorationFilter {
    if rng.chance(1, 3) {
        return RestorationFilter::default();
    }
    let gab_enabled = rng.bool();
    let custom = if gab_enabled && rng.bool() {
        // avoid |1 + 4 (w0 + w1)| ~ 0
        let mut w = [0u16; 6];
        for c in 0..3 {
            loop {
                let a = random_f16_finite(rng);
                let b = random_f16_finite(rng);
                let s = 1.0 + (f16_to_f32(a) + f16_to_f32(b)) * 4.0;
                if s.abs() > 1e-3 {
                    w[2 * c] = a;
                    w[2 * c + 1] = b;
                    break;
                }
            }
        }
        Some(w)
    } else {
        None
    };
    let iters = rng.below(4) as u32;
    let mut f = [0u16; 8];
    for v in f.iter_mut() {
        *v = random_f16_finite(rng);
    }
    RestorationFilter {
        all_default: false,
        gab: Gabor {
            enabled: gab_enabled,
            custom,
        },
        epf: Epf {
            iters,
            sharp_lut: if iters > 0 && rng.bool() { Some(f) } else { None },
            channel_scale: if iters > 0 && rng.bool() {
                Some((
                    [random_f16_finite(rng), random_f16_finite(rng), random_f16_finite(rng)],
                    rng.next_u32(),
                ))
            } else {
                None
            },
            sigma: if iters > 0 && rng.bool() {
                Some([
                    random_f16_finite(rng),
                    random_f16_finite(rng),
                    random_f16_finite(rng),
                    random_f16_finite(rng),
                ])
            } else {
                None
            },
            sigma_for_modular: random_f16_positive(rng),
        },
        extensions: Extensions::random(rng),
    }
}

fn random_crop_coord(rng: &mut Rng) -> i32 {
    match rng.below(6) {
        0 => rng.range(-127, 127) as i32,
        1 => rng.range(-1151, 1151) as i32,
        2 => rng.range(-9343, 9343) as i32,
        3 => rng.range(-(1 << 29), 1 << 29) as i32,
        4 => *rng.pick(&[0i32, -1, 127, -128, 128, 1151, -1152, 1152, 9343, -9344, 9344]),
        _ => rng.range(-300, 300) as i32,
    }
}

fn random_crop_dim(rng: &mut Rng) -> u32 {
    match rng.below(6) {
        0 => rng.u32range(1, 255),
        1 => rng.u32range(256, 2303),
        2 => rng.u32range(2304, 18687),
        3 => rng.u32range(18688, 1 << 20),
        4 => *rng.pick(&[1u32, 255, 256, 2303, 2304, 18687, 18688]),
        _ => rng.u32range(1, 600),
    }
}

/// Random valid frame header for `ih`. `max_groups` bounds the number of TOC entries implied.
pub fn random_frame_header(rng: &mut Rng, ih: &ImageHeader, max_entries: u32) -> FrameHeader {
    let md = &ih.metadata;
    let n_ec = md.ec_info.len();
    assert!(
        md.ec_info.iter().all(|e| e.dim_shift <= 6),
        "no valid frame exists for dim_shift > 6"
    );
    loop {
        let mut f = FrameHeader::modular(ih);
        if rng.chance(1, 12) {
            // all_default: regular VarDCT frame, everything default
            f.all_default = true;
            f.modular = false;
            f.group_size_shift = 1;
            f.x_qm_scale = if md.xyb_encoded { 3 } else { 2 };
            f.restoration_filter = RestorationFilter::default();
            f.is_last = true;
            f.save_before_ct = false;
        } else {
            f.frame_type = match rng.below(6) {
                0 | 1 | 2 => FrameType::Regular,
                3 => FrameType::LfFrame,
                4 => FrameType::ReferenceOnly,
                _ => FrameType::SkipProgressive,
            };
            f.modular = rng.bool();
            f.flags = 0;
            for b in [FLAG_NOISE, FLAG_PATCHES, FLAG_SPLINES, FLAG_SKIP_ADAPTIVE_LF_SMOOTHING] {
                if rng.chance(1, 4) {
                    f.flags |= b;
                }
            }
            if f.frame_type == FrameType::LfFrame {
                f.lf_level = rng.u32range(1, 4);
            }
            if rng.chance(1, 6) && !(f.frame_type == FrameType::LfFrame && f.lf_level >= 4) {
                f.flags |= FLAG_USE_LF_FRAME;
            }
            if rng.chance(1, 10) {
                // unknown high flag bits exercise the long U64 forms
                f.flags |= 1u64 << rng.urange(8, 63);
            }
            f.do_ycbcr = !md.xyb_encoded && rng.chance(1, 3);
            if f.do_ycbcr && !f.use_lf_frame() {
                for v in f.jpeg_upsampling.iter_mut() {
                    *v = rng.below(4) as u32;
                }
            }
            f.group_size_shift = if f.modular { rng.below(4) as u32 } else { 1 };
            if !f.use_lf_frame() {
                f.upsampling = *rng.pick(&[1u32, 1, 2, 4, 8]);
                let cs = f.upsampling.trailing_zeros();
                let mut ok = true;
                f.ec_upsampling = md
                    .ec_info
                    .iter()
                    .map(|e| {
                        // need cs <= s + dim_shift <= 6 and s + dim_shift - cs <= 7 + gss
                        let cands: Vec<u32> = (0..4)
                            .filter(|s| {
                                let t = s + e.dim_shift;
                                t >= cs && t <= 6 && t - cs <= 7 + f.group_size_shift
                            })
                            .collect();
                        if cands.is_empty() {
                            ok = false;
                            1
                        } else {
                            1 << *rng.pick(&cands)
                        }
                    })
                    .collect();
                if !ok {
                    continue;
                }
            } else {
                f.upsampling = 1;
                f.ec_upsampling = vec![1; n_ec];
                // validation still applies to the defaults: dim_shift <= 6
                if md.ec_info.iter().any(|e| e.dim_shift > 6) {
                    f.flags &= !FLAG_USE_LF_FRAME;
                    continue;
                }
            }
            if md.xyb_encoded && !f.modular {
                f.x_qm_scale = rng.below(8) as u32;
                f.b_qm_scale = rng.below(8) as u32;
            } else {
                f.x_qm_scale = 2;
                f.b_qm_scale = 2;
            }
            f.passes = if f.frame_type != FrameType::ReferenceOnly {
                random_passes(rng)
            } else {
                Passes::single()
            };
            if f.frame_type != FrameType::LfFrame {
                f.have_crop = rng.chance(1, 2);
            }
            if f.have_crop {
                if f.frame_type != FrameType::ReferenceOnly {
                    f.x0 = random_crop_coord(rng);
                    f.y0 = random_crop_coord(rng);
                }
                f.width = random_crop_dim(rng);
                f.height = random_crop_dim(rng);
                if rng.chance(1, 4) {
                    // exactly covering forms
                    f.x0 = if f.frame_type != FrameType::ReferenceOnly { -(rng.below(3) as i32) } else { 0 };
                    f.y0 = f.x0;
                    f.width = ih.size.width.saturating_add(rng.below(3) as u32 + (-f.x0) as u32).min(1 << 30);
                    f.height = ih.size.height.saturating_add(rng.below(3) as u32 + (-f.y0) as u32).min(1 << 30);
                }
            }
            if (f.width as u64) * (f.height as u64) > (1u64 << 40) {
                continue;
            }
            let alpha_idx: Vec<u32> = md
                .ec_info
                .iter()
                .enumerate()
                .filter(|(_, e)| matches!(e.ty, EcType::Alpha { .. }))
                .map(|(i, _)| i as u32)
                .filter(|&i| i <= 10)
                .collect();
            let random_bi = |rng: &mut Rng| -> BlendingInfo {
                let mut modes = vec![BlendMode::Replace, BlendMode::Add, BlendMode::Mul];
                if n_ec == 0 || !alpha_idx.is_empty() {
                    modes.push(BlendMode::Blend);
                    modes.push(BlendMode::MulAdd);
                }
                let mode = *rng.pick(&modes);
                let uses_alpha = matches!(mode, BlendMode::Blend | BlendMode::MulAdd);
                BlendingInfo {
                    mode,
                    alpha_channel: if uses_alpha && n_ec > 0 { *rng.pick(&alpha_idx) } else { 0 },
                    clamp: rng.bool(),
                    source: rng.below(4) as u32,
                }
            };
            if f.frame_type.is_normal() {
                f.blending_info = random_bi(rng);
                f.ec_blending_info = (0..n_ec).map(|_| random_bi(rng)).collect();
                if f.ec_source_ambiguous(ih) {
                    // align the extra channels with the main mode's replace-ness
                    let main_replace = f.blending_info.mode == BlendMode::Replace;
                    for e in f.ec_blending_info.iter_mut() {
                        if (e.mode == BlendMode::Replace) != main_replace {
                            e.mode = if main_replace { BlendMode::Replace } else { BlendMode::Add };
                        }
                    }
                }
                if let Some(a) = &md.animation {
                    f.duration = match rng.below(4) {
                        0 => 0,
                        1 => 1,
                        2 => rng.u32range(0, 255),
                        _ => rng.next_u32(),
                    };
                    if a.have_timecodes {
                        f.timecode = rng.next_u32();
                    }
                }
                f.is_last = rng.bool();
            } else {
                f.is_last = false;
            }
            // canonicalise uncoded fields of blending infos to their defaults
            let canon = |bi: &mut BlendingInfo, fh: &FrameHeader| {
                let uses_alpha = matches!(bi.mode, BlendMode::Blend | BlendMode::MulAdd);
                if !(n_ec > 0 && uses_alpha) {
                    bi.alpha_channel = 0;
                }
                if !((n_ec > 0 && uses_alpha) || bi.mode == BlendMode::Mul) {
                    bi.clamp = false;
                }
                if bi.mode == BlendMode::Replace && fh.full_frame(ih) {
                    bi.source = 0;
                }
            };
            let snapshot = f.clone();
            canon(&mut f.blending_info, &snapshot);
            for e in f.ec_blending_info.iter_mut() {
                canon(e, &snapshot);
            }
            if f.frame_type != FrameType::LfFrame && !f.is_last {
                f.save_as_reference = rng.below(4) as u32;
            } else {
                f.save_as_reference = 0;
            }
            f.save_before_ct = if f.save_before_ct_coded(ih) {
                rng.bool()
            } else {
                !f.frame_type.is_normal()
            };
            f.name = random_name(rng);
            f.restoration_filter = random_restoration_filter(rng);
            f.extensions = Extensions::random(rng);
        }
        if f.width == 0 || f.height == 0 {
            continue;
        }
        let groups = {
            let (w, h) = f.color_sample_size();
            (w as u64).div_ceil(f.group_dim() as u64) * (h as u64).div_ceil(f.group_dim() as u64)
        };
        if groups * f.passes.num_passes as u64 + 2 > max_entries as u64 {
            continue;
        }
        if f.toc_entries() > max_entries {
            continue;
        }
        return f;
    }
}
