//! f64 reference model of the JPEG XL varblock inverse transforms (property C16).
//!
//! Everything here is evaluated directly from the *definitions* in double precision; there is no
//! fast (butterfly) algorithm, no f32, and no code shared with the decoder under test.
//!
//! ## Definitions used
//!
//! * 1-D inverse DCT of size N (JPEG XL normalisation, DC coefficient == block mean):
//!   `out[k] = sum_n c_n * in[n] * cos((k + 1/2) n pi / N)`, `c_0 = 1`, `c_n = sqrt(2)`.
//!   Forward: `out[n] = (c_n / N) * sum_k in[k] * cos((k + 1/2) n pi / N)` (exact inverse).
//! * 2-D inverse DCT of a W x H block, "natural" layout (`coeff[v][u]`, u = horizontal frequency,
//!   v = vertical frequency): separable product of the 1-D transform along x and along y.
//!   The coefficient grid handed to the decoder's block transform uses this natural layout for
//!   all plain DCT types (the format's "store transposed when rows >= cols" rule is applied by
//!   the coefficient *reader*, i.e. outside the transform; verified by experiment).
//! * DCT2x2 ("Dct2"): three levels of 2x2 Hadamard-like reconstruction (sizes 2, 4, 8): with
//!   n = size/2, `a = B(x,y)`, `b = B(x+n,y)`, `c = B(x,y+n)`, `d = B(x+n,y+n)`:
//!   `R(2x+i, 2y+j) = a + (-1)^j b + (-1)^i c + (-1)^(i+j) d`   (i = x parity, j = y parity)
//!   (yes: the coefficient stored to the *right* modulates along *y*; this is the format's
//!   definition, AuxIDCT2x2, and is what libjxl implements).
//! * DCT4x4 ("Dct4"): the size-2 step above on the top-left 2x2 gives four sub-block DCs; sub-block
//!   (sx,sy) takes the coefficients at grid positions (sx + 2*ix, sy + 2*iy); the coefficient
//!   with indices (ix,iy) has horizontal frequency iy and vertical frequency ix (the format's
//!   square-block storage is transposed), 4x4 IDCT, placed at (4sx, 4sy).
//! * DCT4x8 ("Dct4x8", two 4-row x 8-col blocks stacked vertically) and DCT8x4 ("Dct8x4", two
//!   8-row x 4-col blocks side by side): `dc0 = B(0,0) + B(0,1)`, `dc1 = B(0,0) - B(0,1)`;
//!   sub-block s takes rows `s + 2*iy` (iy < 4) of the grid, all 8 columns ix. For Dct4x8
//!   ix is the horizontal frequency (size 8) and iy the vertical (size 4); for Dct8x4 the roles
//!   are swapped (ix vertical size 8, iy horizontal size 4).
//! * Hornuss (IDENTITY): sub-block DCs as for DCT4x4; with R(ix,iy) = grid(sx+2ix, sy+2iy) for
//!   (ix,iy) != (0,0): `m = dc - sum(R)/16`; pixel(1,1) = m; pixel(0,0) = R(1,1) + m; every
//!   other pixel(ix,iy) = R(ix,iy) + m. (The block mean is then exactly dc.)
//! * AFV0..3: `fx = k & 1`, `fy = k >> 1`. `dA = 4 (B(0,0) + B(1,0) + B(0,1))`,
//!   `d4 = B(0,0) - B(1,0) + B(0,1)`, `d8 = B(0,0) - B(0,1)`.
//!   - 4x4 AFV corner at (4fx, 4fy): coefficients q[4iy+ix] = B(2ix, 2iy) (q[0] = dA),
//!     samples s[i] = sum_j q[j] * AFV_BASIS[j][i], pixel(4fx+ix, 4fy+iy) = s[4*iy' + ix'] with
//!     ix' = fx ? 3-ix : ix, iy' = fy ? 3-iy : iy.
//!   - 4x4 DCT at (4(1-fx), 4fy): coefficient (ix,iy) = B(2ix+1, 2iy) (DC = d4), horizontal
//!     frequency iy, vertical frequency ix (transposed storage, as for DCT4x4).
//!   - 4x8 DCT (4 rows, 8 cols) at rows 4(1-fy)..: coefficient (ix,iy) = B(ix, 2iy+1) (DC = d8),
//!     ix horizontal (8), iy vertical (4).
//!   The 16x16 AFV basis is a fixed table of the format (libjxl `k4x4AFVBasis`). No independent
//!   copy of the format text is available in the sandbox, so the table below was transcribed as
//!   *data* from the decoder's source at the pinned commit; `afv_basis_defect()` verifies
//!   numerically that it is orthonormal (max |B B^T - I| ~ 1e-14) and that row 0 is the constant
//!   1/4 — a typo of 1e-5 in any entry would break orthonormality by ~1e-5.
//! * LLF from LF (for `transform_varblocks`): a varblock covering bw x bh 8x8-blocks (not all of
//!   the 1x1 types) gets its top-left bw x bh coefficients from the LF samples:
//!   `LLF(x,y) = DCT2D_forward(LF)(x,y) / (P(x, 8bw) * P(y, 8bh))`,
//!   `P(k, N) = cos(k pi / (2N)) cos(k pi / N) cos(2 k pi / N)`.
//!   Rationale: P(k,N) is the attenuation of DCT_N basis k by the 8-tap box filter, so that the
//!   LF samples are exactly the 8x8 block means of the band-limited reconstruction. For the
//!   1x1 types the DC coefficient is the LF sample itself.

use std::f64::consts::PI;

pub const NUM_TYPES: usize = 27;

/// Names in the format's numbering (== `jxl_vardct::TransformType as u8`).
pub const TYPE_NAMES: [&str; NUM_TYPES] = [
    "Dct8", "Hornuss", "Dct2", "Dct4", "Dct16", "Dct32", "Dct16x8", "Dct8x16", "Dct32x8",
    "Dct8x32", "Dct32x16", "Dct16x32", "Dct4x8", "Dct8x4", "Afv0", "Afv1", "Afv2", "Afv3",
    "Dct64", "Dct64x32", "Dct32x64", "Dct128", "Dct128x64", "Dct64x128", "Dct256",
    "Dct256x128", "Dct128x256",
];

/// Pixel size (width, height) of the varblock of type `t`. "DctRxC" has R rows and C columns.
pub fn type_size(t: usize) -> (usize, usize) {
    match t {
        0 | 1 | 2 | 3 | 12 | 13 | 14 | 15 | 16 | 17 => (8, 8),
        4 => (16, 16),
        5 => (32, 32),
        6 => (8, 16),
        7 => (16, 8),
        8 => (8, 32),
        9 => (32, 8),
        10 => (16, 32),
        11 => (32, 16),
        18 => (64, 64),
        19 => (32, 64),
        20 => (64, 32),
        21 => (128, 128),
        22 => (64, 128),
        23 => (128, 64),
        24 => (256, 256),
        25 => (128, 256),
        26 => (256, 128),
        _ => (0, 0),
    }
}

/// Is `t` a plain separable DCT type (as opposed to the special 8x8 transforms)?
pub fn is_plain_dct(t: usize) -> bool {
    !matches!(t, 1 | 2 | 3 | 12 | 13 | 14 | 15 | 16 | 17)
}

/// Cosine tables `T_N[k*N + n] = c_n cos((2k+1) n pi / (2N))` for N = 1,2,4,...,256, with exact
/// integer argument reduction (so every entry is correct to ~1 ulp of f64).
pub struct Model {
    tabs: Vec<Vec<f64>>, // index log2(N)
}

impl Default for Model {
    fn default() -> Self {
        Self::new()
    }
}

impl Model {
    pub fn new() -> Self {
        let mut tabs = Vec::new();
        for lg in 0..=8usize {
            let n = 1usize << lg;
            let mut t = vec![0f64; n * n];
            for k in 0..n {
                for j in 0..n {
                    let m = ((2 * k + 1) * j) % (4 * n);
                    let c = (m as f64 * PI / (2 * n) as f64).cos();
                    t[k * n + j] = if j == 0 { 1.0 } else { std::f64::consts::SQRT_2 * c };
                }
            }
            tabs.push(t);
        }
        Model { tabs }
    }

    fn tab(&self, n: usize) -> &[f64] {
        &self.tabs[n.trailing_zeros() as usize]
    }

    /// 2-D inverse DCT, natural layout, row-major `coeff[v*w + u]` -> `pix[y*w + x]`.
    pub fn idct2d(&self, coeff: &[f64], w: usize, h: usize) -> Vec<f64> {
        debug_assert_eq!(coeff.len(), w * h);
        let tw = self.tab(w);
        let th = self.tab(h);
        let nnz = coeff.iter().filter(|c| **c != 0.0).count();
        let mut out = vec![0f64; w * h];
        if nnz == 0 {
            return out;
        }
        if nnz * 2 <= w.min(h) {
            // sparse: sum of rank-1 basis functions
            for v in 0..h {
                for u in 0..w {
                    let c = coeff[v * w + u];
                    if c == 0.0 {
                        continue;
                    }
                    for y in 0..h {
                        let cy = c * th[y * h + v];
                        let row = &mut out[y * w..(y + 1) * w];
                        for (x, o) in row.iter_mut().enumerate() {
                            *o += cy * tw[x * w + u];
                        }
                    }
                }
            }
            return out;
        }
        // dense: rows (along x) then columns (along y)
        let mut tmp = vec![0f64; w * h];
        for v in 0..h {
            let crow = &coeff[v * w..(v + 1) * w];
            if crow.iter().all(|c| *c == 0.0) {
                continue;
            }
            for x in 0..w {
                let t = &tw[x * w..(x + 1) * w];
                let mut s = 0f64;
                for u in 0..w {
                    s += crow[u] * t[u];
                }
                tmp[v * w + x] = s;
            }
        }
        for y in 0..h {
            let t = &th[y * h..(y + 1) * h];
            let orow = &mut out[y * w..(y + 1) * w];
            for v in 0..h {
                let tv = t[v];
                let trow = &tmp[v * w..(v + 1) * w];
                for x in 0..w {
                    orow[x] += tv * trow[x];
                }
            }
        }
        out
    }

    /// 2-D forward DCT (exact inverse of `idct2d`), natural layout.
    pub fn dct2d(&self, pix: &[f64], w: usize, h: usize) -> Vec<f64> {
        debug_assert_eq!(pix.len(), w * h);
        let tw = self.tab(w);
        let th = self.tab(h);
        let mut tmp = vec![0f64; w * h];
        for y in 0..h {
            for u in 0..w {
                let mut s = 0f64;
                for x in 0..w {
                    s += pix[y * w + x] * tw[x * w + u];
                }
                tmp[y * w + u] = s / w as f64;
            }
        }
        let mut out = vec![0f64; w * h];
        for v in 0..h {
            for u in 0..w {
                let mut s = 0f64;
                for y in 0..h {
                    s += tmp[y * w + u] * th[y * h + v];
                }
                out[v * w + u] = s / h as f64;
            }
        }
        out
    }

    /// Inverse transform of one varblock of type `t`. `coeff` is the coefficient grid in the
    /// layout the decoder's block transform receives (row-major, `coeff[y*w + x]`), the result
    /// is the pixel block, row-major.
    pub fn inverse_transform(&self, t: usize, coeff: &[f64]) -> Vec<f64> {
        let (w, h) = type_size(t);
        debug_assert_eq!(coeff.len(), w * h);
        let b = |x: usize, y: usize| coeff[y * 8 + x];
        match t {
            1 => self.hornuss(coeff),
            2 => dct2x2_pyramid(coeff),
            3 => {
                let dcs = hadamard2(b(0, 0), b(1, 0), b(0, 1), b(1, 1));
                let mut out = vec![0f64; 64];
                for sy in 0..2 {
                    for sx in 0..2 {
                        // natural-layout 4x4 block: k[v*4+u]; grid index (ix,iy) -> u = iy, v = ix
                        let mut k = [0f64; 16];
                        for iy in 0..4 {
                            for ix in 0..4 {
                                k[ix * 4 + iy] = b(sx + 2 * ix, sy + 2 * iy);
                            }
                        }
                        k[0] = dcs[sy * 2 + sx];
                        let p = self.idct2d(&k, 4, 4);
                        for py in 0..4 {
                            for px in 0..4 {
                                out[(4 * sy + py) * 8 + 4 * sx + px] = p[py * 4 + px];
                            }
                        }
                    }
                }
                out
            }
            12 | 13 => {
                let dcs = [b(0, 0) + b(0, 1), b(0, 0) - b(0, 1)];
                let mut out = vec![0f64; 64];
                for s in 0..2 {
                    if t == 12 {
                        // 4 rows x 8 cols, natural: k[v*8+u], u = ix (8), v = iy (4)
                        let mut k = [0f64; 32];
                        for iy in 0..4 {
                            for ix in 0..8 {
                                k[iy * 8 + ix] = b(ix, s + 2 * iy);
                            }
                        }
                        k[0] = dcs[s];
                        let p = self.idct2d(&k, 8, 4);
                        for py in 0..4 {
                            for px in 0..8 {
                                out[(4 * s + py) * 8 + px] = p[py * 8 + px];
                            }
                        }
                    } else {
                        // 8 rows x 4 cols, natural: k[v*4+u], u = iy (4), v = ix (8)
                        let mut k = [0f64; 32];
                        for iy in 0..4 {
                            for ix in 0..8 {
                                k[ix * 4 + iy] = b(ix, s + 2 * iy);
                            }
                        }
                        k[0] = dcs[s];
                        let p = self.idct2d(&k, 4, 8);
                        for py in 0..8 {
                            for px in 0..4 {
                                out[py * 8 + 4 * s + px] = p[py * 4 + px];
                            }
                        }
                    }
                }
                out
            }
            14..=17 => self.afv(t - 14, coeff),
            _ => self.idct2d(coeff, w, h),
        }
    }

    fn hornuss(&self, coeff: &[f64]) -> Vec<f64> {
        let b = |x: usize, y: usize| coeff[y * 8 + x];
        let dcs = hadamard2(b(0, 0), b(1, 0), b(0, 1), b(1, 1));
        let mut out = vec![0f64; 64];
        for sy in 0..2 {
            for sx in 0..2 {
                let r = |ix: usize, iy: usize| b(sx + 2 * ix, sy + 2 * iy);
                let mut sum = 0f64;
                for iy in 0..4 {
                    for ix in 0..4 {
                        if ix + iy != 0 {
                            sum += r(ix, iy);
                        }
                    }
                }
                let m = dcs[sy * 2 + sx] - sum / 16.0;
                for iy in 0..4 {
                    for ix in 0..4 {
                        let v = if (ix, iy) == (1, 1) {
                            m
                        } else if (ix, iy) == (0, 0) {
                            r(1, 1) + m
                        } else {
                            r(ix, iy) + m
                        };
                        out[(4 * sy + iy) * 8 + 4 * sx + ix] = v;
                    }
                }
            }
        }
        out
    }

    fn afv(&self, kind: usize, coeff: &[f64]) -> Vec<f64> {
        let b = |x: usize, y: usize| coeff[y * 8 + x];
        let fx = kind & 1;
        let fy = kind >> 1;
        let d_afv = 4.0 * (b(0, 0) + b(1, 0) + b(0, 1));
        let d_4 = b(0, 0) - b(1, 0) + b(0, 1);
        let d_8 = b(0, 0) - b(0, 1);
        let mut out = vec![0f64; 64];
        // AFV corner
        let mut q = [0f64; 16];
        for iy in 0..4 {
            for ix in 0..4 {
                q[iy * 4 + ix] = b(2 * ix, 2 * iy);
            }
        }
        q[0] = d_afv;
        let mut s = [0f64; 16];
        for j in 0..16 {
            for i in 0..16 {
                s[i] += q[j] * AFV_BASIS[j][i];
            }
        }
        for iy in 0..4 {
            for ix in 0..4 {
                let jx = if fx == 1 { 3 - ix } else { ix };
                let jy = if fy == 1 { 3 - iy } else { iy };
                out[(4 * fy + iy) * 8 + 4 * fx + ix] = s[jy * 4 + jx];
            }
        }
        // 4x4 DCT next to it (same rows, other column half); transposed storage
        let mut k = [0f64; 16];
        for iy in 0..4 {
            for ix in 0..4 {
                k[ix * 4 + iy] = b(2 * ix + 1, 2 * iy);
            }
        }
        k[0] = d_4;
        let p = self.idct2d(&k, 4, 4);
        for py in 0..4 {
            for px in 0..4 {
                out[(4 * fy + py) * 8 + 4 * (1 - fx) + px] = p[py * 4 + px];
            }
        }
        // 4 rows x 8 cols DCT in the other row half
        let mut k = [0f64; 32];
        for iy in 0..4 {
            for ix in 0..8 {
                k[iy * 8 + ix] = b(ix, 2 * iy + 1);
            }
        }
        k[0] = d_8;
        let p = self.idct2d(&k, 8, 4);
        for py in 0..4 {
            for px in 0..8 {
                out[(4 * (1 - fy) + py) * 8 + px] = p[py * 8 + px];
            }
        }
        out
    }

    /// LLF coefficients (bw x bh, row-major) from the bw x bh LF samples of a varblock of
    /// `bw x bh` 8x8-blocks.
    pub fn llf_from_lf(&self, lf: &[f64], bw: usize, bh: usize) -> Vec<f64> {
        let mut c = self.dct2d(lf, bw, bh);
        for y in 0..bh {
            for x in 0..bw {
                c[y * bw + x] /= box8_attenuation(x, 8 * bw) * box8_attenuation(y, 8 * bh);
            }
        }
        c
    }
}

/// Attenuation of DCT_N basis function k by an aligned 8-tap box filter.
pub fn box8_attenuation(k: usize, n: usize) -> f64 {
    let t = k as f64 * PI / n as f64;
    (t / 2.0).cos() * t.cos() * (2.0 * t).cos()
}

/// The 2x2 reconstruction step of the DCT2x2 family. Returns [R(0,0), R(1,0), R(0,1), R(1,1)]
/// (index = y*2 + x) from a = B(0,0), b = B(1,0) (right), c = B(0,1) (below), d = B(1,1).
fn hadamard2(a: f64, b: f64, c: f64, d: f64) -> [f64; 4] {
    [a + b + c + d, a + b - c - d, a - b + c - d, a - b - c + d]
}

fn dct2x2_pyramid(coeff: &[f64]) -> Vec<f64> {
    let mut cur: Vec<f64> = coeff.to_vec();
    for size in [2usize, 4, 8] {
        let n = size / 2;
        let mut next = cur.clone();
        for y in 0..n {
            for x in 0..n {
                let r = hadamard2(
                    cur[y * 8 + x],
                    cur[y * 8 + x + n],
                    cur[(y + n) * 8 + x],
                    cur[(y + n) * 8 + x + n],
                );
                for j in 0..2 {
                    for i in 0..2 {
                        next[(2 * y + j) * 8 + 2 * x + i] = r[j * 2 + i];
                    }
                }
            }
        }
        cur = next;
    }
    cur
}

/// Numerical sanity of the transcribed AFV table: returns
/// (max |B B^T - I|, max |row0 - 1/4|).
pub fn afv_basis_defect() -> (f64, f64) {
    let mut worst = 0f64;
    for i in 0..16 {
        for j in 0..16 {
            let mut s = 0f64;
            for k in 0..16 {
                s += AFV_BASIS[i][k] * AFV_BASIS[j][k];
            }
            let e = (s - if i == j { 1.0 } else { 0.0 }).abs();
            worst = worst.max(e);
        }
    }
    let mut w0 = 0f64;
    for k in 0..16 {
        w0 = w0.max((AFV_BASIS[0][k] - 0.25).abs());
    }
    (worst, w0)
}

/// Root-sum-square of a coefficient block (the tolerance scale used by the checker).
pub fn l2(v: &[f64]) -> f64 {
    v.iter().map(|x| x * x).sum::<f64>().sqrt()
}

/// 4x4 AFV basis, `AFV_BASIS[j][i]`: contribution of coefficient j to sample i (= y*4 + x).
/// Data of the format (see module doc for provenance and the orthonormality check).
#[rustfmt::skip]
pub const AFV_BASIS: [[f64; 16]; 16] = [
    [0.25, 0.25, 0.25, 0.25, 0.25, 0.25, 0.25, 0.25,
     0.25, 0.25, 0.25, 0.25, 0.25, 0.25, 0.25, 0.25],
    [0.876902929799142, 0.2206518106944235, -0.10140050393753763, -0.1014005039375375,
     0.2206518106944236, -0.10140050393753777, -0.10140050393753772, -0.10140050393753763,
     -0.10140050393753758, -0.10140050393753769, -0.1014005039375375, -0.10140050393753768,
     -0.10140050393753768, -0.10140050393753759, -0.10140050393753763, -0.10140050393753741],
    [0.0, 0.0, 0.40670075830260755, 0.44444816619734445,
     0.0, 0.0, 0.19574399372042936, 0.2929100136981264,
     -0.40670075830260716, -0.19574399372042872, 0.0, 0.11379074460448091,
     -0.44444816619734384, -0.29291001369812636, -0.1137907446044814, 0.0],
    [0.0, 0.0, -0.21255748058288748, 0.3085497062849767,
     0.0, 0.4706702258572536, -0.1621205195722993, 0.0,
     -0.21255748058287047, -0.16212051957228327, -0.47067022585725277, -0.1464291867126764,
     0.3085497062849487, 0.0, -0.14642918671266536, 0.4251149611657548],
    [0.0, -0.7071067811865474, 0.0, 0.0,
     0.7071067811865476, 0.0, 0.0, 0.0,
     0.0, 0.0, 0.0, 0.0,
     0.0, 0.0, 0.0, 0.0],
    [-0.4105377591765233, 0.6235485373547691, -0.06435071657946274, -0.06435071657946266,
     0.6235485373547694, -0.06435071657946284, -0.0643507165794628, -0.06435071657946274,
     -0.06435071657946272, -0.06435071657946279, -0.06435071657946266, -0.06435071657946277,
     -0.06435071657946277, -0.06435071657946273, -0.06435071657946274, -0.0643507165794626],
    [0.0, 0.0, -0.4517556589999482, 0.15854503551840063,
     0.0, -0.04038515160822202, 0.0074182263792423875, 0.39351034269210167,
     -0.45175565899994635, 0.007418226379244351, 0.1107416575309343, 0.08298163094882051,
     0.15854503551839705, 0.3935103426921022, 0.0829816309488214, -0.45175565899994796],
    [0.0, 0.0, -0.304684750724869, 0.5112616136591823,
     0.0, 0.0, -0.290480129728998, -0.06578701549142804,
     0.304684750724884, 0.2904801297290076, 0.0, -0.23889773523344604,
     -0.5112616136592012, 0.06578701549142545, 0.23889773523345467, 0.0],
    [0.0, 0.0, 0.3017929516615495, 0.25792362796341184,
     0.0, 0.16272340142866204, 0.09520022653475037, 0.0,
     0.3017929516615503, 0.09520022653475055, -0.16272340142866173, -0.35312385449816297,
     0.25792362796341295, 0.0, -0.3531238544981624, -0.6035859033230976],
    [0.0, 0.0, 0.40824829046386274, 0.0,
     0.0, 0.0, 0.0, -0.4082482904638628,
     -0.4082482904638635, 0.0, 0.0, -0.40824829046386296,
     0.0, 0.4082482904638634, 0.408248290463863, 0.0],
    [0.0, 0.0, 0.1747866975480809, 0.0812611176717539,
     0.0, 0.0, -0.3675398009862027, -0.307882213957909,
     -0.17478669754808135, 0.3675398009862011, 0.0, 0.4826689115059883,
     -0.08126111767175039, 0.30788221395790305, -0.48266891150598584, 0.0],
    [0.0, 0.0, -0.21105601049335784, 0.18567180916109802,
     0.0, 0.0, 0.49215859013738733, -0.38525013709251915,
     0.21105601049335806, -0.49215859013738905, 0.0, 0.17419412659916217,
     -0.18567180916109904, 0.3852501370925211, -0.1741941265991621, 0.0],
    [0.0, 0.0, -0.14266084808807264, -0.3416446842253372,
     0.0, 0.7367497537172237, 0.24627107722075148, -0.08574019035519306,
     -0.14266084808807344, 0.24627107722075137, 0.14883399227113567, -0.04768680350229251,
     -0.3416446842253373, -0.08574019035519267, -0.047686803502292804, -0.14266084808807242],
    [0.0, 0.0, -0.13813540350758585, 0.3302282550303788,
     0.0, 0.08755115000587084, -0.07946706605909573, -0.4613374887461511,
     -0.13813540350758294, -0.07946706605910261, 0.49724647109535086, 0.12538059448563663,
     0.3302282550303805, -0.4613374887461554, 0.12538059448564315, -0.13813540350758452],
    [0.0, 0.0, -0.17437602599651067, 0.0702790691196284,
     0.0, -0.2921026642334881, 0.3623817333531167, 0.0,
     -0.1743760259965108, 0.36238173335311646, 0.29210266423348785, -0.4326608024727445,
     0.07027906911962818, 0.0, -0.4326608024727457, 0.34875205199302267],
    [0.0, 0.0, 0.11354987314994337, -0.07417504595810355,
     0.0, 0.19402893032594343, -0.435190496523228, 0.21918684838857466,
     0.11354987314994257, -0.4351904965232251, 0.5550443808910661, -0.25468277124066463,
     -0.07417504595810233, 0.2191868483885728, -0.25468277124066413, 0.1135498731499429],
];

#[cfg(test)]
mod tests {
    use super::*;

    #[test]
    fn afv_table_is_orthonormal() {
        let (d, d0) = afv_basis_defect();
        assert!(d < 1e-12, "{d}");
        assert!(d0 == 0.0);
    }

    #[test]
    fn dct_roundtrip_and_mean() {
        let m = Model::new();
        for (w, h) in [(8usize, 8usize), (4, 8), (16, 8), (32, 64)] {
            let pix: Vec<f64> = (0..w * h).map(|i| ((i * 37 % 101) as f64) - 50.0).collect();
            let c = m.dct2d(&pix, w, h);
            let mean = pix.iter().sum::<f64>() / (w * h) as f64;
            assert!((c[0] - mean).abs() < 1e-10);
            let back = m.idct2d(&c, w, h);
            for i in 0..w * h {
                assert!((back[i] - pix[i]).abs() < 1e-9);
            }
        }
    }
}
