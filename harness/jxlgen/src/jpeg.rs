//! JPEG (ISO/IEC 10918-1, Huffman coding, 8-bit precision) *structure model*, file writer and
//! random generator.  Written from the JPEG definition (Annex B marker syntax, Annex F sequential
//! coding, Annex G progressive coding incl. successive approximation and EOB runs); shares no code
//! with the decoder under test.  The model keeps everything a JPEG XL reconstruction box can
//! describe: marker order, APPn/COM payloads, garbage between markers, quantisation tables split
//! over DQT markers, Huffman tables split over DHT markers (and redefined between scans), scan
//! scripts, restart intervals, padding bits, superfluous ZRL symbols before EOB ("extra zero
//! runs"), prematurely flushed EOB runs ("reset points"), tail bytes after EOI, and the quantised
//! coefficients of every block.

use crate::entropy::{huffman_lengths, random_complete_lengths};
use crate::rng::Rng;

/// zig-zag index -> (column, row) inside the 8x8 block (Figure A.6)
pub fn zigzag() -> [(usize, usize); 64] {
    let mut v = [(0usize, 0usize); 64];
    let mut k = 0;
    for s in 0..15usize {
        let cols: Vec<usize> = (0..8).filter(|&c| s >= c && s - c < 8).collect();
        if s % 2 == 1 {
            for &c in cols.iter().rev() {
                v[k] = (c, s - c);
                k += 1;
            }
        } else {
            for &c in cols.iter() {
                v[k] = (c, s - c);
                k += 1;
            }
        }
    }
    v
}

#[derive(Clone, Debug, PartialEq)]
pub struct QuantTable {
    /// 0 = 8-bit entries, 1 = 16-bit entries
    pub precision: u8,
    /// destination Tq 0..3
    pub id: u8,
    /// zig-zag order, every entry >= 1
    pub values: [u16; 64],
}

#[derive(Clone, Debug, PartialEq)]
pub struct HuffTable {
    pub is_ac: bool,
    /// destination Th 0..3
    pub id: u8,
    /// counts[l] = number of codes of length l (1..=16); counts[0] unused
    pub counts: [u8; 17],
    pub values: Vec<u8>,
}

#[derive(Clone, Debug)]
pub struct Component {
    pub id: u8,
    pub h: u8,
    pub v: u8,
    /// quantisation table destination Tq referenced in SOF
    pub tq: u8,
    /// block grid (padded to whole MCUs of an interleaved scan)
    pub bw: usize,
    pub bh: usize,
    /// bw*bh blocks, 64 coefficients each in zig-zag order
    pub coeffs: Vec<i16>,
}

impl Component {
    pub fn block(&self, bx: usize, by: usize) -> &[i16] {
        let o = (by * self.bw + bx) * 64;
        &self.coeffs[o..o + 64]
    }
}

#[derive(Clone, Debug, PartialEq)]
pub struct ScanComp {
    pub comp_idx: usize,
    pub dc_tbl: u8,
    pub ac_tbl: u8,
}

#[derive(Clone, Debug)]
pub struct Scan {
    pub comps: Vec<ScanComp>,
    pub ss: u8,
    pub se: u8,
    pub ah: u8,
    pub al: u8,
    /// block indices (in scan coding order) before which a pending EOB run is flushed although
    /// it could have continued; ascending
    pub reset_points: Vec<u32>,
    /// (block index, number of superfluous ZRL symbols emitted at the end of the block);
    /// ascending by block index
    pub extra_zero_runs: Vec<(u32, u32)>,
    /// free hint stored in the reconstruction box
    pub last_needed_pass: u8,
}

#[derive(Clone, Copy, Debug, PartialEq, Eq)]
pub enum AppKind {
    Raw,
    Icc,
    Exif,
    Xmp,
}

#[derive(Clone, Debug)]
pub enum Seg {
    /// marker 0xE0..=0xEF; payload = bytes after the two length bytes
    App { marker: u8, kind: AppKind, payload: Vec<u8> },
    Com(Vec<u8>),
    /// indices into `JpegSpec::quant` (a contiguous run)
    Dqt(Vec<usize>),
    /// indices into `JpegSpec::huff` (a contiguous run)
    Dht(Vec<usize>),
    Sof,
    Dri,
    Sos(usize),
    /// bytes between marker segments that are not a marker
    Garbage(Vec<u8>),
    Eoi,
}

#[derive(Clone, Debug, PartialEq, Eq)]
pub enum PadMode {
    /// all padding bits 1 (what every encoder does); not recorded in the reconstruction box
    Ones,
    /// all 1 but recorded explicitly in the box
    OnesExplicit,
    Zeros,
    Random(u64),
}

pub const HEADER_ICC: &[u8] = b"ICC_PROFILE\0";
pub const HEADER_EXIF: &[u8] = b"Exif\0\0";
pub const HEADER_XMP: &[u8] = b"http://ns.adobe.com/xap/1.0/\0";

#[derive(Clone, Debug)]
pub struct JpegSpec {
    pub width: u32,
    pub height: u32,
    /// 0xC0 baseline, 0xC1 extended sequential, 0xC2 progressive
    pub sof: u8,
    pub components: Vec<Component>,
    /// file order
    pub quant: Vec<QuantTable>,
    /// file order
    pub huff: Vec<HuffTable>,
    pub scans: Vec<Scan>,
    /// value of every DRI segment
    pub restart_interval: u32,
    pub segments: Vec<Seg>,
    pub pad: PadMode,
    pub tail: Vec<u8>,
    /// class description (for signatures)
    pub class: String,
}

impl JpegSpec {
    pub fn is_progressive(&self) -> bool {
        self.sof == 0xC2
    }
    pub fn hmax(&self) -> usize {
        self.components.iter().map(|c| c.h as usize).max().unwrap_or(1)
    }
    pub fn vmax(&self) -> usize {
        self.components.iter().map(|c| c.v as usize).max().unwrap_or(1)
    }
    pub fn is_rgb(&self) -> bool {
        self.components.len() == 3 && self.components.iter().map(|c| c.id).eq([b'R', b'G', b'B'])
    }
    /// Concatenated ICC profile carried by typed APP2 segments.
    pub fn icc(&self) -> Option<Vec<u8>> {
        let mut v = Vec::new();
        let mut any = false;
        for s in &self.segments {
            if let Seg::App { kind: AppKind::Icc, payload, .. } = s {
                any = true;
                v.extend_from_slice(&payload[HEADER_ICC.len() + 2..]);
            }
        }
        any.then_some(v)
    }
    pub fn exif(&self) -> Option<Vec<u8>> {
        self.segments.iter().find_map(|s| match s {
            Seg::App { kind: AppKind::Exif, payload, .. } => Some(payload[HEADER_EXIF.len()..].to_vec()),
            _ => None,
        })
    }
    pub fn xmp(&self) -> Option<Vec<u8>> {
        self.segments.iter().find_map(|s| match s {
            Seg::App { kind: AppKind::Xmp, payload, .. } => Some(payload[HEADER_XMP.len()..].to_vec()),
            _ => None,
        })
    }
    /// (MCUs per row, MCU rows, per scan component blocks per MCU (h, v))
    pub fn scan_geometry(&self, scan: &Scan) -> (usize, usize, Vec<(usize, usize)>) {
        let (hm, vm) = (self.hmax(), self.vmax());
        let (w, h) = (self.width as usize, self.height as usize);
        if scan.comps.len() > 1 {
            (
                w.div_ceil(8 * hm),
                h.div_ceil(8 * vm),
                scan.comps.iter().map(|c| (self.components[c.comp_idx].h as usize, self.components[c.comp_idx].v as usize)).collect(),
            )
        } else {
            let c = &self.components[scan.comps[0].comp_idx];
            // x_i = ceil(X * H_i / Hmax) samples, ceil(x_i / 8) blocks (A.2.3 / A.2.4)
            ((w * c.h as usize).div_ceil(8 * hm), (h * c.v as usize).div_ceil(8 * vm), vec![(1, 1)])
        }
    }
    /// Blocks of a scan in coding order: (scan component slot, bx, by, MCU index).
    pub fn scan_blocks(&self, scan: &Scan) -> Vec<(usize, usize, usize, usize)> {
        let (mx, my, per) = self.scan_geometry(scan);
        let mut v = Vec::with_capacity(mx * my * per.iter().map(|p| p.0 * p.1).sum::<usize>());
        for y in 0..my {
            for x in 0..mx {
                for (slot, &(hs, vs)) in per.iter().enumerate() {
                    for dy in 0..vs {
                        for dx in 0..hs {
                            v.push((slot, x * hs + dx, y * vs + dy, y * mx + x));
                        }
                    }
                }
            }
        }
        v
    }
}

// ---------------------------------------------------------------------------------------------
// entropy coding to tokens

#[derive(Clone, Copy, Debug)]
pub enum Tok {
    Sym { ac: bool, tbl: u8, sym: u8 },
    Bits { v: u32, n: u8 },
    Rst(u8),
}

fn bitlen(v: u32) -> u32 {
    32 - v.leading_zeros()
}

/// magnitude category and the appended bits of a signed value (F.1.2.1 / F.1.2.2)
fn cat_bits(v: i32) -> (u32, u32) {
    let n = bitlen(v.unsigned_abs());
    let bits = if v >= 0 { v as u32 } else { (v - 1) as u32 & ((1u32 << n) - 1) };
    (n, bits)
}

struct ScanEnc {
    toks: Vec<Tok>,
    eobrun: u32,
    eob_tbl: u8,
    be: Vec<u8>,
}

impl ScanEnc {
    fn sym(&mut self, ac: bool, tbl: u8, sym: u8) {
        self.toks.push(Tok::Sym { ac, tbl, sym });
    }
    fn bits(&mut self, v: u32, n: u32) {
        if n > 0 {
            self.toks.push(Tok::Bits { v, n: n as u8 });
        }
    }
    /// G.1.2.2: emit the pending EOB run (EOBn symbol + run length bits + buffered correction bits)
    fn flush_eobrun(&mut self) {
        if self.eobrun == 0 {
            return;
        }
        let n = 31 - self.eobrun.leading_zeros();
        self.sym(true, self.eob_tbl, (n << 4) as u8);
        self.bits(self.eobrun & ((1 << n) - 1), n);
        self.eobrun = 0;
        let be = std::mem::take(&mut self.be);
        for b in be {
            self.bits(b as u32, 1);
        }
    }
    fn end_of_band(&mut self, tbl: u8, br: Vec<u8>) {
        if self.eobrun == 0 {
            self.eob_tbl = tbl;
        }
        self.eobrun += 1;
        self.be.extend(br);
        if self.eobrun == 0x7fff {
            self.flush_eobrun();
        }
    }
}

/// point transform of an AC coefficient: magnitude shifted, sign kept (G.1.2.1)
fn ac_pt(v: i16, al: u8) -> i32 {
    let v = v as i32;
    if v < 0 {
        -((-v) >> al)
    } else {
        v >> al
    }
}

/// Entropy-code one scan into tokens. `ri` = restart interval in force (0 = none).
pub fn encode_scan(spec: &JpegSpec, scan: &Scan, ri: u32) -> Vec<Tok> {
    let prog = spec.is_progressive();
    let blocks = spec.scan_blocks(scan);
    let mut e = ScanEnc { toks: Vec::with_capacity(blocks.len() * 8), eobrun: 0, eob_tbl: 0, be: Vec::new() };
    let mut pred = vec![0i32; scan.comps.len()];
    let mut rst_n = 0u8;
    let mut ezr_it = scan.extra_zero_runs.iter().peekable();
    let mut rp_it = scan.reset_points.iter().peekable();
    let mut last_mcu = 0usize;
    for (block_idx, &(slot, bx, by, mcu)) in blocks.iter().enumerate() {
        let block_idx = block_idx as u32;
        if mcu != last_mcu {
            last_mcu = mcu;
            if ri > 0 && mcu as u32 % ri == 0 {
                e.flush_eobrun();
                e.toks.push(Tok::Rst(rst_n));
                rst_n = (rst_n + 1) & 7;
                pred.iter_mut().for_each(|p| *p = 0);
            }
        }
        let sc = &scan.comps[slot];
        let c = &spec.components[sc.comp_idx];
        let blk = c.block(bx, by);
        let mut ezr = 0u32;
        while let Some(&&(b, n)) = ezr_it.peek() {
            if b < block_idx {
                ezr_it.next();
            } else {
                if b == block_idx {
                    ezr = n;
                    ezr_it.next();
                }
                break;
            }
        }
        while let Some(&&b) = rp_it.peek() {
            if b < block_idx {
                rp_it.next();
            } else {
                if b == block_idx {
                    e.flush_eobrun();
                    rp_it.next();
                }
                break;
            }
        }
        if !prog {
            // F.1.2: DC difference then run/size coded AC coefficients
            let dc = blk[0] as i32;
            let (n, bits) = cat_bits(dc - pred[slot]);
            pred[slot] = dc;
            e.sym(false, sc.dc_tbl, n as u8);
            e.bits(bits, n);
            let mut r = 0u32;
            for &v in &blk[1..64] {
                if v == 0 {
                    r += 1;
                    continue;
                }
                while r > 15 {
                    e.sym(true, sc.ac_tbl, 0xf0);
                    r -= 16;
                }
                let (n, bits) = cat_bits(v as i32);
                e.sym(true, sc.ac_tbl, ((r << 4) | n) as u8);
                e.bits(bits, n);
                r = 0;
            }
            for _ in 0..ezr {
                e.sym(true, sc.ac_tbl, 0xf0);
            }
            if r > 16 * ezr {
                e.sym(true, sc.ac_tbl, 0x00);
            }
            continue;
        }
        if scan.ss == 0 {
            if scan.ah == 0 {
                // G.1.2.1 first DC scan: arithmetic shift, then as sequential DC
                let dc = (blk[0] as i32) >> scan.al;
                let (n, bits) = cat_bits(dc - pred[slot]);
                pred[slot] = dc;
                e.sym(false, sc.dc_tbl, n as u8);
                e.bits(bits, n);
            } else {
                e.bits((((blk[0] as i32) >> scan.al) & 1) as u32, 1);
            }
            continue;
        }
        let (ss, se) = (scan.ss as usize, scan.se as usize);
        if scan.ah == 0 {
            // G.1.2.2 first AC scan of a band
            let mut r = 0u32;
            for k in ss..=se {
                let v = ac_pt(blk[k], scan.al);
                if v == 0 {
                    r += 1;
                    continue;
                }
                e.flush_eobrun();
                while r > 15 {
                    e.sym(true, sc.ac_tbl, 0xf0);
                    r -= 16;
                }
                let (n, bits) = cat_bits(v);
                e.sym(true, sc.ac_tbl, ((r << 4) | n) as u8);
                e.bits(bits, n);
                r = 0;
            }
            if ezr > 0 {
                e.flush_eobrun();
                for _ in 0..ezr {
                    e.sym(true, sc.ac_tbl, 0xf0);
                }
            }
            if r > 16 * ezr {
                e.end_of_band(sc.ac_tbl, Vec::new());
            }
        } else {
            // G.1.2.3 refinement scan of a band
            let abs: Vec<u32> = (ss..=se).map(|k| ((blk[k] as i32).unsigned_abs()) >> scan.al).collect();
            let eob_pos = abs.iter().rposition(|&t| t == 1);
            let mut r = 0u32;
            let mut br: Vec<u8> = Vec::new();
            let mut zrl_left = ezr;
            for (i, &t) in abs.iter().enumerate() {
                if t == 0 {
                    r += 1;
                    if r == 16 {
                        let before_eob = eob_pos.is_some_and(|p| i < p);
                        if before_eob || zrl_left > 0 {
                            if !before_eob {
                                zrl_left -= 1;
                            }
                            e.flush_eobrun();
                            e.sym(true, sc.ac_tbl, 0xf0);
                            for b in br.drain(..) {
                                e.bits(b as u32, 1);
                            }
                            r = 0;
                        }
                    }
                    continue;
                }
                if t > 1 {
                    br.push((t & 1) as u8);
                    continue;
                }
                e.flush_eobrun();
                e.sym(true, sc.ac_tbl, ((r << 4) | 1) as u8);
                e.bits((blk[ss + i] > 0) as u32, 1);
                for b in br.drain(..) {
                    e.bits(b as u32, 1);
                }
                r = 0;
            }
            if r > 0 || !br.is_empty() {
                e.end_of_band(sc.ac_tbl, br);
            }
        }
    }
    e.flush_eobrun();
    e.toks
}

// ---------------------------------------------------------------------------------------------
// bytes

struct EncTable {
    code: [u32; 256],
    len: [u8; 256],
}

/// canonical code assignment of Annex C
fn enc_table(t: &HuffTable) -> EncTable {
    let mut et = EncTable { code: [0; 256], len: [0; 256] };
    let mut code = 0u32;
    let mut k = 0usize;
    for l in 1..=16usize {
        for _ in 0..t.counts[l] {
            if let Some(&v) = t.values.get(k) {
                et.code[v as usize] = code;
                et.len[v as usize] = l as u8;
            }
            code += 1;
            k += 1;
        }
        code <<= 1;
    }
    et
}

struct Ecs<'a> {
    out: &'a mut Vec<u8>,
    acc: u64,
    n: u32,
}

impl Ecs<'_> {
    fn put(&mut self, v: u32, n: u32) {
        self.acc = (self.acc << n) | (v as u64 & ((1u64 << n) - 1));
        self.n += n;
        while self.n >= 8 {
            let b = (self.acc >> (self.n - 8)) as u8;
            self.out.push(b);
            if b == 0xff {
                self.out.push(0);
            }
            self.n -= 8;
        }
    }
}

struct PadSrc {
    mode: PadMode,
    rng: Rng,
    used: Vec<u8>,
}

impl PadSrc {
    fn bit(&mut self) -> u32 {
        let b = match self.mode {
            PadMode::Ones | PadMode::OnesExplicit => 1,
            PadMode::Zeros => 0,
            PadMode::Random(_) => self.rng.below(2) as u32,
        };
        self.used.push(b as u8);
        b
    }
}

#[derive(Clone, Debug)]
pub struct JpegWritten {
    pub bytes: Vec<u8>,
    /// every padding bit written, in file order (first bit of a padding group = first in the file)
    pub padding_bits: Vec<u8>,
}

fn be16(out: &mut Vec<u8>, v: usize) {
    out.push((v >> 8) as u8);
    out.push(v as u8);
}

pub fn write_jpeg_ex(spec: &JpegSpec) -> Result<JpegWritten, String> {
    write_jpeg_opt(spec, false)
}

/// `reverse_pad_groups`: emit every group of padding bits in reverse order (the recorded list is
/// unchanged). Used to characterise a decoder that reads the stored padding bits backwards.
pub fn write_jpeg_opt(spec: &JpegSpec, reverse_pad_groups: bool) -> Result<JpegWritten, String> {
    let mut out: Vec<u8> = vec![0xff, 0xd8];
    let mut dc_t: [Option<EncTable>; 4] = [None, None, None, None];
    let mut ac_t: [Option<EncTable>; 4] = [None, None, None, None];
    let mut ri = 0u32;
    let seed = if let PadMode::Random(s) = spec.pad { s } else { 0 };
    let mut pad = PadSrc { mode: spec.pad.clone(), rng: Rng::new(seed ^ 0x9ad), used: Vec::new() };
    for seg in &spec.segments {
        match seg {
            Seg::App { marker, payload, .. } => {
                if payload.len() > 65533 {
                    return Err("APP payload too long".into());
                }
                out.extend_from_slice(&[0xff, *marker]);
                be16(&mut out, payload.len() + 2);
                out.extend_from_slice(payload);
            }
            Seg::Com(p) => {
                if p.len() > 65533 {
                    return Err("COM payload too long".into());
                }
                out.extend_from_slice(&[0xff, 0xfe]);
                be16(&mut out, p.len() + 2);
                out.extend_from_slice(p);
            }
            Seg::Dqt(idx) => {
                out.extend_from_slice(&[0xff, 0xdb]);
                let len: usize = 2 + idx.iter().map(|&i| 1 + 64 * (1 + spec.quant[i].precision as usize)).sum::<usize>();
                be16(&mut out, len);
                for &i in idx {
                    let q = &spec.quant[i];
                    out.push((q.precision << 4) | q.id);
                    for &v in &q.values {
                        if q.precision == 0 {
                            out.push(v as u8);
                        } else {
                            be16(&mut out, v as usize);
                        }
                    }
                }
            }
            Seg::Dht(idx) => {
                out.extend_from_slice(&[0xff, 0xc4]);
                let len: usize = 2 + idx.iter().map(|&i| 17 + spec.huff[i].values.len()).sum::<usize>();
                be16(&mut out, len);
                for &i in idx {
                    let t = &spec.huff[i];
                    out.push(((t.is_ac as u8) << 4) | t.id);
                    out.extend_from_slice(&t.counts[1..17]);
                    out.extend_from_slice(&t.values);
                    let et = enc_table(t);
                    if t.is_ac {
                        ac_t[(t.id & 3) as usize] = Some(et);
                    } else {
                        dc_t[(t.id & 3) as usize] = Some(et);
                    }
                }
            }
            Seg::Sof => {
                out.extend_from_slice(&[0xff, spec.sof]);
                be16(&mut out, 8 + 3 * spec.components.len());
                out.push(8);
                be16(&mut out, spec.height as usize);
                be16(&mut out, spec.width as usize);
                out.push(spec.components.len() as u8);
                for c in &spec.components {
                    out.extend_from_slice(&[c.id, (c.h << 4) | c.v, c.tq]);
                }
            }
            Seg::Dri => {
                out.extend_from_slice(&[0xff, 0xdd, 0, 4]);
                be16(&mut out, spec.restart_interval as usize);
                ri = spec.restart_interval;
            }
            Seg::Sos(si) => {
                let scan = spec.scans.get(*si).ok_or("bad scan index")?;
                out.extend_from_slice(&[0xff, 0xda]);
                be16(&mut out, 6 + 2 * scan.comps.len());
                out.push(scan.comps.len() as u8);
                for sc in &scan.comps {
                    out.extend_from_slice(&[spec.components[sc.comp_idx].id, (sc.dc_tbl << 4) | sc.ac_tbl]);
                }
                out.extend_from_slice(&[scan.ss, scan.se, (scan.ah << 4) | scan.al]);
                let toks = encode_scan(spec, scan, ri);
                let mut w = Ecs { out: &mut out, acc: 0, n: 0 };
                let finish = |w: &mut Ecs, pad: &mut PadSrc| {
                    let need = (8 - w.n % 8) % 8;
                    let mut g: Vec<u32> = (0..need).map(|_| pad.bit()).collect();
                    if reverse_pad_groups {
                        g.reverse();
                    }
                    for b in g {
                        w.put(b, 1);
                    }
                };
                for t in &toks {
                    match *t {
                        Tok::Sym { ac, tbl, sym } => {
                            let tab = if ac { &ac_t[(tbl & 3) as usize] } else { &dc_t[(tbl & 3) as usize] };
                            let tab = tab.as_ref().ok_or_else(|| format!("scan {si}: table {}{} undefined", if ac { "AC" } else { "DC" }, tbl))?;
                            let l = tab.len[sym as usize];
                            if l == 0 {
                                return Err(format!("scan {si}: symbol {sym:#x} not in {} table {tbl}", if ac { "AC" } else { "DC" }));
                            }
                            w.put(tab.code[sym as usize], l as u32);
                        }
                        Tok::Bits { v, n } => w.put(v, n as u32),
                        Tok::Rst(n) => {
                            finish(&mut w, &mut pad);
                            w.out.extend_from_slice(&[0xff, 0xd0 + n]);
                        }
                    }
                }
                finish(&mut w, &mut pad);
            }
            Seg::Garbage(g) => out.extend_from_slice(g),
            Seg::Eoi => {
                out.extend_from_slice(&[0xff, 0xd9]);
                out.extend_from_slice(&spec.tail);
            }
        }
    }
    Ok(JpegWritten { bytes: out, padding_bits: pad.used })
}

/// The ORIGINAL file (empty on an inconsistent spec, which the generator never produces).
pub fn write_jpeg(spec: &JpegSpec) -> Vec<u8> {
    write_jpeg_ex(spec).map(|w| w.bytes).unwrap_or_default()
}

// ---------------------------------------------------------------------------------------------
// random generator

#[derive(Clone, Debug)]
pub struct JpegGenOpts {
    pub max_dim: u32,
    /// Some(k): force size class k (0 tiny, 1 small, 2 medium, 3 multi-group, 4 multi-LF-group)
    pub size_class: Option<u32>,
    pub allow_progressive: bool,
    pub allow_subsampling: bool,
    /// ICC / Exif / XMP typed segments
    pub allow_meta: bool,
    /// extra zero runs, reset points, garbage, odd padding, tail, 16-bit tables, coefficient extremes
    pub allow_weird: bool,
    /// quantisation tables whose DQT order differs from their ids
    pub allow_qorder: bool,
    /// scans that interleave only a subset of the components
    pub allow_partial_interleave: bool,
    /// only structures libjpeg can decode (no AC magnitude > 1023, no DC difference > 2047 ...)
    pub libjpeg_safe: bool,
    /// directed: grey progressive image with more than 32767 blocks and almost no AC content, so
    /// that EOB runs reach the 32767 limit
    pub eob_long: bool,
    /// valid ICC profiles to embed (3-component / grey); when both are empty a structurally
    /// plausible random profile is used (fine for transport, not for colour management)
    pub icc_rgb: Vec<Vec<u8>>,
    pub icc_gray: Vec<Vec<u8>>,
    /// subsampled images may have scans that do not contain all components (incl. progressive)
    pub allow_noninterleaved_subsampled: bool,
    /// padding bits that are neither all 0 nor all 1
    pub allow_pad_random: bool,
}

impl Default for JpegGenOpts {
    fn default() -> Self {
        Self {
            max_dim: 300,
            size_class: None,
            allow_progressive: true,
            allow_subsampling: true,
            allow_meta: true,
            allow_weird: true,
            allow_qorder: true,
            allow_partial_interleave: true,
            libjpeg_safe: false,
            eob_long: false,
            icc_rgb: vec![],
            icc_gray: vec![],
            allow_noninterleaved_subsampled: true,
            allow_pad_random: true,
        }
    }
}

const STD_DC_LUM_COUNTS: [u8; 16] = [0, 1, 5, 1, 1, 1, 1, 1, 1, 0, 0, 0, 0, 0, 0, 0];
const STD_DC_CHR_COUNTS: [u8; 16] = [0, 3, 1, 1, 1, 1, 1, 1, 1, 1, 1, 0, 0, 0, 0, 0];
const STD_AC_LUM_COUNTS: [u8; 16] = [0, 2, 1, 3, 3, 2, 4, 3, 5, 5, 4, 4, 0, 0, 1, 0x7d];
const STD_AC_CHR_COUNTS: [u8; 16] = [0, 2, 1, 2, 4, 4, 3, 4, 7, 5, 4, 4, 0, 1, 2, 0x77];
const STD_AC_LUM_VALUES: [u8; 162] = [
    0x01, 0x02, 0x03, 0x00, 0x04, 0x11, 0x05, 0x12, 0x21, 0x31, 0x41, 0x06, 0x13, 0x51, 0x61, 0x07, 0x22, 0x71, 0x14, 0x32, 0x81, 0x91, 0xa1, 0x08,
    0x23, 0x42, 0xb1, 0xc1, 0x15, 0x52, 0xd1, 0xf0, 0x24, 0x33, 0x62, 0x72, 0x82, 0x09, 0x0a, 0x16, 0x17, 0x18, 0x19, 0x1a, 0x25, 0x26, 0x27, 0x28,
    0x29, 0x2a, 0x34, 0x35, 0x36, 0x37, 0x38, 0x39, 0x3a, 0x43, 0x44, 0x45, 0x46, 0x47, 0x48, 0x49, 0x4a, 0x53, 0x54, 0x55, 0x56, 0x57, 0x58, 0x59,
    0x5a, 0x63, 0x64, 0x65, 0x66, 0x67, 0x68, 0x69, 0x6a, 0x73, 0x74, 0x75, 0x76, 0x77, 0x78, 0x79, 0x7a, 0x83, 0x84, 0x85, 0x86, 0x87, 0x88, 0x89,
    0x8a, 0x92, 0x93, 0x94, 0x95, 0x96, 0x97, 0x98, 0x99, 0x9a, 0xa2, 0xa3, 0xa4, 0xa5, 0xa6, 0xa7, 0xa8, 0xa9, 0xaa, 0xb2, 0xb3, 0xb4, 0xb5, 0xb6,
    0xb7, 0xb8, 0xb9, 0xba, 0xc2, 0xc3, 0xc4, 0xc5, 0xc6, 0xc7, 0xc8, 0xc9, 0xca, 0xd2, 0xd3, 0xd4, 0xd5, 0xd6, 0xd7, 0xd8, 0xd9, 0xda, 0xe1, 0xe2,
    0xe3, 0xe4, 0xe5, 0xe6, 0xe7, 0xe8, 0xe9, 0xea, 0xf1, 0xf2, 0xf3, 0xf4, 0xf5, 0xf6, 0xf7, 0xf8, 0xf9, 0xfa,
];
const STD_AC_CHR_VALUES: [u8; 162] = [
    0x00, 0x01, 0x02, 0x03, 0x11, 0x04, 0x05, 0x21, 0x31, 0x06, 0x12, 0x41, 0x51, 0x07, 0x61, 0x71, 0x13, 0x22, 0x32, 0x81, 0x08, 0x14, 0x42, 0x91,
    0xa1, 0xb1, 0xc1, 0x09, 0x23, 0x33, 0x52, 0xf0, 0x15, 0x62, 0x72, 0xd1, 0x0a, 0x16, 0x24, 0x34, 0xe1, 0x25, 0xf1, 0x17, 0x18, 0x19, 0x1a, 0x26,
    0x27, 0x28, 0x29, 0x2a, 0x35, 0x36, 0x37, 0x38, 0x39, 0x3a, 0x43, 0x44, 0x45, 0x46, 0x47, 0x48, 0x49, 0x4a, 0x53, 0x54, 0x55, 0x56, 0x57, 0x58,
    0x59, 0x5a, 0x63, 0x64, 0x65, 0x66, 0x67, 0x68, 0x69, 0x6a, 0x73, 0x74, 0x75, 0x76, 0x77, 0x78, 0x79, 0x7a, 0x82, 0x83, 0x84, 0x85, 0x86, 0x87,
    0x88, 0x89, 0x8a, 0x92, 0x93, 0x94, 0x95, 0x96, 0x97, 0x98, 0x99, 0x9a, 0xa2, 0xa3, 0xa4, 0xa5, 0xa6, 0xa7, 0xa8, 0xa9, 0xaa, 0xb2, 0xb3, 0xb4,
    0xb5, 0xb6, 0xb7, 0xb8, 0xb9, 0xba, 0xc2, 0xc3, 0xc4, 0xc5, 0xc6, 0xc7, 0xc8, 0xc9, 0xca, 0xd2, 0xd3, 0xd4, 0xd5, 0xd6, 0xd7, 0xd8, 0xd9, 0xda,
    0xe2, 0xe3, 0xe4, 0xe5, 0xe6, 0xe7, 0xe8, 0xe9, 0xea, 0xf2, 0xf3, 0xf4, 0xf5, 0xf6, 0xf7, 0xf8, 0xf9, 0xfa,
];

/// One of the four Annex K example tables (None if the typed-in constants were inconsistent).
pub fn standard_table(is_ac: bool, chroma: bool, id: u8) -> Option<HuffTable> {
    let (c, v): (&[u8; 16], Vec<u8>) = match (is_ac, chroma) {
        (false, false) => (&STD_DC_LUM_COUNTS, (0..12).collect()),
        (false, true) => (&STD_DC_CHR_COUNTS, (0..12).collect()),
        (true, false) => (&STD_AC_LUM_COUNTS, STD_AC_LUM_VALUES.to_vec()),
        (true, true) => (&STD_AC_CHR_COUNTS, STD_AC_CHR_VALUES.to_vec()),
    };
    let mut counts = [0u8; 17];
    counts[1..].copy_from_slice(c);
    let n: usize = c.iter().map(|&x| x as usize).sum();
    let mut seen = [false; 256];
    for &x in &v {
        if seen[x as usize] {
            return None;
        }
        seen[x as usize] = true;
    }
    // Kraft with room for the reserved all-ones code
    let kraft: u64 = (1..=16).map(|l| (counts[l] as u64) << (16 - l)).sum();
    if n != v.len() || kraft + 1 > 1 << 16 {
        return None;
    }
    Some(HuffTable { is_ac, id, counts, values: v })
}

/// Build a Huffman table containing every symbol with a non-zero count. style: 0 = from the
/// statistics, 1 = random canonical code. `extras` unused symbols are added.
pub fn build_table(rng: &mut Rng, is_ac: bool, id: u8, counts: &[u64; 256], style: u32, extras: usize) -> HuffTable {
    let mut syms: Vec<(u8, u64)> = counts.iter().enumerate().filter(|(_, &c)| c > 0).map(|(s, &c)| (s as u8, c)).collect();
    let mut unused: Vec<u8> = (0..=255u8).filter(|&s| counts[s as usize] == 0 && (is_ac || s < 16)).collect();
    rng.shuffle(&mut unused);
    for &s in unused.iter().take(extras.min(200)) {
        syms.push((s, 0));
    }
    if syms.is_empty() {
        syms.push((0, 0));
    }
    let n = syms.len();
    // lengths for n real symbols + 1 reserved code (index n)
    let lens: Vec<u8> = if style == 0 {
        let mut c: Vec<u64> = syms.iter().map(|&(_, c)| c * 4 + 2 + rng.below(3)).collect();
        c.push(1);
        huffman_lengths(&c, 16)
    } else {
        let mut l = random_complete_lengths(rng, n + 1, 16);
        // the reserved code must be one of the longest
        let mx = *l.iter().max().unwrap_or(&1);
        if let Some(p) = l.iter().position(|&x| x == mx) {
            l.swap(p, n);
        }
        l
    };
    let mx = lens.iter().copied().max().unwrap_or(1);
    let mut lens = lens;
    if lens[n] != mx {
        // give the reserved code the longest length (swap with a longest real symbol)
        if let Some(p) = lens[..n].iter().position(|&x| x == mx) {
            lens.swap(p, n);
        }
    }
    let mut order: Vec<usize> = (0..n).collect();
    rng.shuffle(&mut order);
    order.sort_by_key(|&i| lens[i]);
    let mut hc = [0u8; 17];
    let mut values = Vec::with_capacity(n);
    for &i in &order {
        hc[lens[i] as usize] += 1;
        values.push(syms[i].0);
    }
    HuffTable { is_ac, id, counts: hc, values }
}

fn random_quant(rng: &mut Rng, id: u8, p16: bool, zz: &[(usize, usize); 64]) -> QuantTable {
    let base = match rng.below(4) {
        0 => 1.0,
        1 => rng.range(2, 8) as f64,
        2 => rng.range(8, 40) as f64,
        _ => rng.range(40, 120) as f64,
    };
    let slope = rng.f64() * 0.4;
    let skew = rng.f64() * 0.3;
    let mut values = [1u16; 64];
    let flat = rng.chance(1, 8);
    for (k, v) in values.iter_mut().enumerate() {
        let (c, r) = zz[k];
        let f = base * (1.0 + slope * (c + r) as f64 + skew * c as f64) + rng.range(-2, 2) as f64;
        let mut q = if flat { base } else { f }.round().clamp(1.0, 255.0) as u16;
        if p16 && rng.chance(1, 6) {
            q = match rng.below(3) {
                0 => rng.range(256, 1000) as u16,
                1 => rng.range(1000, 65535) as u16,
                _ => 65535,
            };
        }
        *v = q;
    }
    if rng.chance(1, 10) {
        values[rng.below(64) as usize] = if p16 { 65535 } else { 255 };
        values[rng.below(64) as usize] = 1;
    }
    QuantTable { precision: p16 as u8, id, values }
}

fn gen_coeffs(rng: &mut Rng, bw: usize, bh: usize, o: &JpegGenOpts) -> Vec<i16> {
    let mut v = vec![0i16; bw * bh * 64];
    let style = rng.below(4); // 0 sparse, 1 medium, 2 dense-ish, 3 mostly empty
    let ac_max: i64 = if !o.allow_weird || o.libjpeg_safe { 1023 } else { 2047 };
    let mut dc: i64 = rng.range(-600, 600);
    let dc_lim: i64 = if o.libjpeg_safe { 1000 } else { 2047 };
    for b in 0..bw * bh {
        let blk = &mut v[b * 64..b * 64 + 64];
        dc = (dc + rng.range(-40, 40)).clamp(-dc_lim, dc_lim);
        if rng.chance(1, 40) {
            dc = rng.range(-dc_lim, dc_lim);
        }
        if o.allow_weird && rng.chance(1, 120) {
            dc = *rng.pick(&[-dc_lim, dc_lim, -1024.min(dc_lim), 1023.min(dc_lim), 0, -1, 1]);
        }
        blk[0] = dc as i16;
        let pat = rng.below(100);
        let empty_pct = [35, 15, 5, 85][style as usize];
        if pat < empty_pct {
            continue;
        }
        let mag = |rng: &mut Rng| -> i16 {
            let m = match rng.below(20) {
                0..=9 => 1,
                10..=14 => rng.range(2, 3),
                15..=17 => rng.range(4, 31),
                18 => rng.range(32, 1023),
                _ => {
                    if rng.chance(1, 6) {
                        *rng.pick(&[1023, ac_max, 512, 255, 256])
                    } else {
                        rng.range(1, 7)
                    }
                }
            };
            (if rng.bool() { m } else { -m }) as i16
        };
        match rng.below(24) {
            0 => {
                // only the last coefficient
                blk[63] = mag(rng);
            }
            1 => {
                // completely dense
                for c in blk[1..].iter_mut() {
                    *c = mag(rng);
                }
            }
            2 => {
                // long zero runs between coefficients
                let mut k = 1 + rng.below(4) as usize;
                while k < 64 {
                    blk[k] = mag(rng);
                    k += rng.urange(15, 34);
                }
            }
            3 => {
                // dense low band, then one far away
                for c in blk[1..rng.urange(2, 12)].iter_mut() {
                    *c = mag(rng);
                }
                blk[rng.urange(40, 63)] = mag(rng);
            }
            _ => {
                let nnz = match style {
                    0 | 3 => rng.urange(1, 4),
                    1 => rng.urange(1, 12),
                    _ => rng.urange(4, 40),
                };
                for _ in 0..nnz {
                    let u = rng.f64();
                    let k = 1 + ((u * u) * 63.0) as usize;
                    blk[k.min(63)] = mag(rng);
                }
            }
        }
    }
    v
}

fn split_bands(rng: &mut Rng, maxn: usize) -> Vec<(u8, u8)> {
    let n = rng.urange(1, maxn.max(1));
    let mut cuts: Vec<u8> = Vec::new();
    while cuts.len() + 1 < n {
        let c = rng.range(1, 62) as u8; // band ends at c
        if !cuts.contains(&c) {
            cuts.push(c);
        }
    }
    cuts.sort();
    let mut v = Vec::new();
    let mut s = 1u8;
    for c in cuts {
        v.push((s, c));
        s = c + 1;
    }
    v.push((s, 63));
    v
}

fn mk_scan(comps: Vec<ScanComp>, ss: u8, se: u8, ah: u8, al: u8) -> Scan {
    Scan { comps, ss, se, ah, al, reset_points: vec![], extra_zero_runs: vec![], last_needed_pass: 0 }
}

/// Plan the scan script. Returns (scans, script class).
fn plan_scans(rng: &mut Rng, ncomp: usize, prog: bool, subsampled: bool, o: &JpegGenOpts) -> (Vec<Scan>, String) {
    let sc = |c: usize| ScanComp { comp_idx: c, dc_tbl: 0, ac_tbl: 0 };
    if !prog {
        if ncomp == 1 {
            return (vec![mk_scan(vec![sc(0)], 0, 63, 0, 0)], "seq1".into());
        }
        let k = rng.below(20);
        let partial_ok = o.allow_partial_interleave;
        return match k {
            0..=11 => (vec![mk_scan((0..ncomp).map(sc).collect(), 0, 63, 0, 0)], "seqI".into()),
            12..=15 => {
                let mut ord: Vec<usize> = (0..ncomp).collect();
                if rng.chance(1, 3) {
                    rng.shuffle(&mut ord);
                }
                (ord.into_iter().map(|c| mk_scan(vec![sc(c)], 0, 63, 0, 0)).collect(), "seqN".into())
            }
            16 | 17 if partial_ok => (
                vec![mk_scan(vec![sc(0)], 0, 63, 0, 0), mk_scan(vec![sc(1), sc(2)], 0, 63, 0, 0)],
                if subsampled { "seqP12s".into() } else { "seqP12".into() },
            ),
            18 | 19 if partial_ok => (
                vec![mk_scan(vec![sc(0), sc(1)], 0, 63, 0, 0), mk_scan(vec![sc(2)], 0, 63, 0, 0)],
                if subsampled { "seqP01s".into() } else { "seqP01".into() },
            ),
            _ => (vec![mk_scan((0..ncomp).map(sc).collect(), 0, 63, 0, 0)], "seqI".into()),
        };
    }
    // progressive
    let mut scans = Vec::new();
    let mut chains: Vec<std::collections::VecDeque<Scan>> = Vec::new();
    let dc_al = *rng.pick(&[0u8, 0, 0, 1, 1, 2, 3]);
    let dc_inter = ncomp > 1 && rng.chance(4, 5);
    let mut cls = format!("prog:dc{}{}", dc_al, if dc_inter { "I" } else { "N" });
    if dc_inter {
        scans.push(mk_scan((0..ncomp).map(sc).collect(), 0, 0, 0, dc_al));
    } else {
        for c in 0..ncomp {
            scans.push(mk_scan(vec![sc(c)], 0, 0, 0, dc_al));
        }
    }
    // DC refinements
    let dc_ref_inter = ncomp > 1 && rng.chance(2, 3);
    if dc_ref_inter {
        let mut ch = std::collections::VecDeque::new();
        for a in (1..=dc_al).rev() {
            ch.push_back(mk_scan((0..ncomp).map(sc).collect(), 0, 0, a, a - 1));
        }
        chains.push(ch);
    } else {
        for c in 0..ncomp {
            let mut ch = std::collections::VecDeque::new();
            for a in (1..=dc_al).rev() {
                ch.push_back(mk_scan(vec![sc(c)], 0, 0, a, a - 1));
            }
            chains.push(ch);
        }
    }
    let mut max_al = 0;
    let mut nbands = 0;
    for c in 0..ncomp {
        let bands = split_bands(rng, if ncomp == 1 { 4 } else { 3 });
        nbands += bands.len();
        let uniform = rng.chance(1, 3);
        let ual = *rng.pick(&[0u8, 1, 1, 2]);
        if uniform && ual > 0 && bands.len() > 1 {
            // first scans per band at the same Al, refinements over the whole 1..63 range
            let mut ch = std::collections::VecDeque::new();
            for &(s, e) in &bands {
                ch.push_back(mk_scan(vec![sc(c)], s, e, 0, ual));
            }
            for a in (1..=ual).rev() {
                ch.push_back(mk_scan(vec![sc(c)], 1, 63, a, a - 1));
            }
            max_al = max_al.max(ual);
            chains.push(ch);
        } else {
            for &(s, e) in &bands {
                let al = *rng.pick(&[0u8, 0, 0, 1, 1, 2, 3]);
                max_al = max_al.max(al);
                let mut ch = std::collections::VecDeque::new();
                ch.push_back(mk_scan(vec![sc(c)], s, e, 0, al));
                for a in (1..=al).rev() {
                    ch.push_back(mk_scan(vec![sc(c)], s, e, a, a - 1));
                }
                chains.push(ch);
            }
        }
    }
    cls.push_str(&format!(":b{}:al{}", nbands.min(6), max_al));
    loop {
        let live: Vec<usize> = (0..chains.len()).filter(|&i| !chains[i].is_empty()).collect();
        if live.is_empty() {
            break;
        }
        let i = if rng.chance(1, 2) { live[0] } else { *rng.pick(&live) };
        if let Some(s) = chains[i].pop_front() {
            scans.push(s);
        }
    }
    (scans, cls)
}

fn random_payload(rng: &mut Rng, n: usize) -> Vec<u8> {
    match rng.below(4) {
        0 => vec![rng.below(256) as u8; n],
        1 => (0..n).map(|i| (i * 7) as u8).collect(),
        2 => (0..n).map(|_| if rng.chance(1, 5) { 0xff } else { rng.below(256) as u8 }).collect(),
        _ => (0..n).map(|_| rng.below(256) as u8).collect(),
    }
}

fn random_len(rng: &mut Rng, weird: bool) -> usize {
    match rng.below(40) {
        0 if weird => 65533,
        1 if weird => rng.urange(4000, 65533),
        2 => 0,
        3 | 4 => rng.urange(200, 1500),
        _ => rng.urange(0, 60),
    }
}

/// bytes that cannot be mistaken for a marker
fn random_garbage(rng: &mut Rng, safe: bool) -> Vec<u8> {
    let n = if rng.chance(1, 12) { 0 } else { rng.urange(1, 24) };
    let mut v = Vec::with_capacity(n);
    for _ in 0..n {
        let b = match rng.below(6) {
            0 => 0xff,
            1 => 0,
            _ => rng.below(256) as u8,
        };
        v.push(b);
    }
    // FF must be followed by 00, FF or a value below C0 (and FF FF is a fill sequence: fine)
    for i in 0..v.len() {
        if i > 0 && v[i - 1] == 0xff && v[i] >= 0xc0 && v[i] != 0xff {
            v[i] = if rng.bool() { 0 } else { v[i] & 0x7f };
        }
        // libjpeg takes FF xx (xx != 0) for a marker even below C0
        if safe && i > 0 && v[i - 1] == 0xff && v[i] != 0xff {
            v[i] = 0;
        }
    }
    v
}

pub fn random_jpeg(rng: &mut Rng, o: &JpegGenOpts) -> JpegSpec {
    let zz = zigzag();
    // ---- dimensions
    let class = o.size_class.unwrap_or_else(|| match rng.below(20) {
        0..=2 => 0,
        3..=13 => 1,
        14..=17 => 2,
        _ => 3,
    });
    let md = o.max_dim.max(1) as i64;
    let dim = |rng: &mut Rng, class: u32| -> u32 {
        (match class {
            0 => rng.range(1, 16),
            1 => rng.range(1, 64),
            2 => rng.range(17, 300),
            _ => rng.range(257, 600),
        })
        .min(md) as u32
    };
    let (mut width, mut height) = (dim(rng, class), dim(rng, class));
    if class == 4 {
        // more than one LF group (2048 px) in one direction
        let long = rng.range(2049, 2300) as u32;
        let short = rng.range(1, 40) as u32;
        (width, height) = if rng.bool() { (long, short) } else { (short, long) };
    }
    if class == 3 && rng.chance(1, 2) {
        // only one dimension beyond a group
        if rng.bool() {
            width = dim(rng, 1);
        } else {
            height = dim(rng, 1);
        }
    }
    if o.eob_long {
        width = *rng.pick(&[64u32, 40, 72]);
        height = 8 * (32768 / (width / 8) + rng.range(2, 40) as u32);
    }
    // ---- components
    let kind = if o.eob_long { 0 } else { rng.below(16) };
    let (ids, ckind): (Vec<u8>, &str) = match kind {
        0..=3 => (vec![1], "g"),
        4 => (vec![*rng.pick(&[0u8, 2, 7, 0x47, 255])], "gx"),
        5..=11 => (vec![1, 2, 3], "ycc"),
        12 | 13 => (vec![b'R', b'G', b'B'], "rgb"),
        _ => {
            let a = rng.below(256) as u8;
            let mut v = vec![a, a.wrapping_add(1 + rng.below(5) as u8), a.wrapping_add(9 + rng.below(30) as u8)];
            if v == [1, 2, 3] || v == [b'R', b'G', b'B'] {
                v[2] = v[2].wrapping_add(1);
            }
            (v, "cust")
        }
    };
    let n = ids.len();
    // ---- sampling factors
    let (samp, sclass): (Vec<(u8, u8)>, &str) = if n == 1 {
        if !o.eob_long && o.allow_subsampling && o.allow_weird && rng.chance(1, 25) {
            (vec![*rng.pick(&[(2u8, 2u8), (2, 1), (1, 2)])], "g-odd")
        } else {
            (vec![(1, 1)], "444")
        }
    } else if ckind == "rgb" || !o.allow_subsampling {
        (vec![(1, 1); 3], "444")
    } else {
        match rng.below(20) {
            0..=8 => (vec![(1, 1); 3], "444"),
            9..=12 => (vec![(2, 2), (1, 1), (1, 1)], "420"),
            13 | 14 => (vec![(2, 1), (1, 1), (1, 1)], "422"),
            15 | 16 => (vec![(1, 2), (1, 1), (1, 1)], "440"),
            17 => (vec![(2, 2), (2, 1), (1, 1)], "mix"),
            18 => (vec![(2, 2), (1, 2), (2, 1)], "mix"),
            _ => {
                if o.allow_weird {
                    (vec![(2, 2); 3], "all22")
                } else {
                    (vec![(1, 1); 3], "444")
                }
            }
        }
    };
    let subsampled = samp.iter().any(|&s| s != samp[0]) || (n == 1 && samp[0] != (1, 1));
    let hmax = samp.iter().map(|s| s.0).max().unwrap_or(1) as usize;
    let vmax = samp.iter().map(|s| s.1).max().unwrap_or(1) as usize;
    let mcus_x = (width as usize).div_ceil(8 * hmax);
    let mcus_y = (height as usize).div_ceil(8 * vmax);
    // ---- quantisation tables
    let nq = if n == 1 { 1 } else { *rng.pick(&[1usize, 2, 2, 2, 3]) };
    let p16 = o.allow_weird && rng.chance(1, 8);
    let mut qids: Vec<u8> = (0..nq as u8).collect();
    let mut qorder = "id";
    if o.allow_qorder && rng.chance(1, 14) {
        // ids that differ from the position in the file
        let mut all = [0u8, 1, 2, 3];
        rng.shuffle(&mut all);
        qids = all[..nq].to_vec();
        if qids.iter().enumerate().any(|(i, &q)| q as usize != i) {
            qorder = "perm";
        }
    }
    let quant: Vec<QuantTable> = qids
        .iter()
        .map(|&id| {
            let w = p16 && rng.chance(2, 3);
            random_quant(rng, id, w, &zz)
        })
        .collect();
    let comp_q: Vec<usize> = (0..n).map(|c| if nq == 1 { 0 } else if nq == 2 { (c > 0) as usize } else { c.min(nq - 1) }).collect();
    // ---- components with coefficients
    let components: Vec<Component> = (0..n)
        .map(|c| {
            let (h, v) = samp[c];
            let (bw, bh) = (mcus_x * h as usize, mcus_y * v as usize);
            Component { id: ids[c], h, v, tq: quant[comp_q[c]].id, bw, bh, coeffs: gen_coeffs(rng, bw, bh, o) }
        })
        .collect();
    let mut components = components;
    if o.eob_long {
        for c in components.iter_mut() {
            let nb = c.bw * c.bh;
            // AC content only at both ends so that one run of empty blocks exceeds 32767
            let keep: Vec<usize> = (0..6).map(|_| if rng.bool() { rng.below(4) as usize } else { nb - 1 - rng.below(4) as usize }).collect();
            for b in 0..nb {
                if !keep.contains(&b) {
                    for k in 1..64 {
                        c.coeffs[b * 64 + k] = 0;
                    }
                }
            }
        }
    }
    // ---- scan script
    let restrict = subsampled && n > 1 && !o.allow_noninterleaved_subsampled;
    let prog = o.eob_long || (!restrict && o.allow_progressive && rng.chance(2, 5));
    let sof = if prog { 0xC2 } else if rng.chance(1, 6) { 0xC1 } else { 0xC0 };
    let (mut scans, mut script) = plan_scans(rng, n, prog, subsampled, o);
    if restrict {
        let nb: usize = samp.iter().map(|s| s.0 as usize * s.1 as usize).sum();
        if nb <= 10 {
            scans = vec![mk_scan((0..n).map(|c| ScanComp { comp_idx: c, dc_tbl: 0, ac_tbl: 0 }).collect(), 0, 63, 0, 0)];
            script = "seqI".into();
        }
    }
    {
        // B.2.3: an interleaved scan may hold at most 10 blocks per MCU
        let mut v = Vec::new();
        for s in scans {
            let nb: usize = s.comps.iter().map(|c| samp[c.comp_idx].0 as usize * samp[c.comp_idx].1 as usize).sum();
            if s.comps.len() > 1 && nb > 10 {
                for c in &s.comps {
                    v.push(Scan { comps: vec![c.clone()], ..s.clone() });
                }
            } else {
                v.push(s);
            }
        }
        scans = v;
    }
    // table destinations
    let max_id: u8 = if sof == 0xC0 { 1 } else { 3 };
    let comp_dc: Vec<u8> = (0..n).map(|c| if rng.chance(1, 2) { (c > 0) as u8 } else { rng.below(max_id as u64 + 1) as u8 }).collect();
    let comp_ac: Vec<u8> = (0..n).map(|c| if rng.chance(1, 2) { (c > 0) as u8 } else { rng.below(max_id as u64 + 1) as u8 }).collect();
    let per_scan_tables = scans.len() > 1 && rng.chance(1, 2);
    for s in scans.iter_mut() {
        let rnd_ac = rng.below(max_id as u64 + 1) as u8;
        for sc in s.comps.iter_mut() {
            sc.dc_tbl = comp_dc[sc.comp_idx];
            sc.ac_tbl = if prog && per_scan_tables { rnd_ac } else { comp_ac[sc.comp_idx] };
            if prog && s.ss > 0 {
                sc.dc_tbl = if rng.chance(1, 4) { rng.below(4) as u8 } else { 0 };
            }
            if prog && s.ss == 0 {
                sc.ac_tbl = if rng.chance(1, 4) { rng.below(4) as u8 } else { 0 };
                if s.ah > 0 && rng.chance(1, 4) {
                    sc.dc_tbl = rng.below(4) as u8;
                }
            }
        }
        s.last_needed_pass = if rng.chance(1, 5) { rng.below(11) as u8 } else { 0 };
    }
    // ---- restart interval
    let total_mcus = mcus_x * mcus_y;
    let restart_interval: u32 = if o.eob_long || rng.chance(3, 5) {
        0
    } else {
        match rng.below(5) {
            0 => 1,
            1 => mcus_x as u32,
            2 => rng.range(1, 8) as u32,
            3 => rng.range(1, total_mcus.max(1) as i64) as u32,
            _ => rng.range(1, (total_mcus / 20).max(2) as i64) as u32,
        }
    };
    let has_dri = restart_interval > 0 || rng.chance(1, 12);
    // the DRI segment takes effect from this scan on
    let dri_from = if has_dri && scans.len() > 1 && rng.chance(1, 4) { rng.below(scans.len() as u64) as usize } else { 0 };
    let mut spec = JpegSpec {
        width,
        height,
        sof,
        components,
        quant,
        huff: vec![],
        scans: vec![],
        restart_interval,
        segments: vec![],
        pad: PadMode::Ones,
        tail: vec![],
        class: String::new(),
    };
    // ---- extra zero runs / reset points
    let mut xcls = String::new();
    if o.allow_weird {
        for (si, s) in scans.iter_mut().enumerate() {
            let _ = si;
            let is_dc_only = prog && s.ss == 0;
            if is_dc_only {
                continue;
            }
            let want_ezr = rng.chance(1, 6);
            let want_rp = prog && rng.chance(1, 5);
            if !want_ezr && !want_rp {
                continue;
            }
            let blocks = spec.scan_blocks(s);
            if want_ezr {
                let (ss, se) = if prog { (s.ss as usize, s.se as usize) } else { (1, 63) };
                let rate = *rng.pick(&[2u64, 5, 20]);
                for (bi, &(slot, bx, by, _)) in blocks.iter().enumerate() {
                    if !rng.chance(1, rate) {
                        continue;
                    }
                    let blk = spec.components[s.comps[slot].comp_idx].block(bx, by);
                    // trailing zeros of the band as this scan sees it
                    let tz = if prog && s.ah > 0 {
                        let abs: Vec<u32> = (ss..=se).map(|k| (blk[k] as i32).unsigned_abs() >> s.al).collect();
                        let from = abs.iter().rposition(|&t| t == 1).map_or(0, |p| p + 1);
                        abs[from..].iter().filter(|&&t| t == 0).count()
                    } else {
                        let al = if prog { s.al } else { 0 };
                        (ss..=se).rev().take_while(|&k| ac_pt(blk[k], al) == 0).count()
                    };
                    if tz >= 16 {
                        let nmax = (tz / 16) as i64;
                        s.extra_zero_runs.push((bi as u32, rng.range(1, nmax) as u32));
                    }
                }
                if !s.extra_zero_runs.is_empty() && !xcls.contains("z") {
                    xcls.push('z');
                }
            }
            if want_rp {
                let k = rng.urange(1, 6);
                let mut pts: Vec<u32> = (0..k).map(|_| rng.below(blocks.len() as u64) as u32).collect();
                pts.sort();
                pts.dedup();
                s.reset_points = pts;
                if !xcls.contains('r') {
                    xcls.push('r');
                }
            }
        }
    }
    spec.scans = scans;
    // ---- Huffman tables and the scan part of the marker list
    let nsc = spec.scans.len();
    let ri_of = |si: usize| if has_dri && si >= dri_from { restart_interval } else { 0 };
    let needs_of = |spec: &JpegSpec, si: usize| -> Vec<((bool, u8), [u64; 256])> {
        let mut m: Vec<((bool, u8), [u64; 256])> = Vec::new();
        for t in encode_scan(spec, &spec.scans[si], ri_of(si)) {
            if let Tok::Sym { ac, tbl, sym } = t {
                let p = match m.iter().position(|e| e.0 == (ac, tbl)) {
                    Some(p) => p,
                    None => {
                        m.push(((ac, tbl), [0u64; 256]));
                        m.len() - 1
                    }
                };
                m[p].1[sym as usize] += 1;
            }
        }
        m
    };
    let std_ok = |is_ac: bool, c: &[u64; 256]| -> bool {
        match standard_table(is_ac, false, 0) {
            Some(t) => (0..256).all(|s| c[s] == 0 || t.values.contains(&(s as u8))),
            None => false,
        }
    };
    let table_style = rng.below(10); // 0..=2 standard when possible, 3..=6 optimal, else random codes
    let make = |rng: &mut Rng, is_ac: bool, id: u8, c: &[u64; 256]| -> HuffTable {
        if table_style <= 2 && std_ok(is_ac, c) {
            if let Some(t) = standard_table(is_ac, rng.bool(), id) {
                return t;
            }
        }
        let extras = if rng.chance(1, 3) { rng.urange(1, 12) } else { 0 };
        build_table(rng, is_ac, id, c, if table_style <= 6 { 0 } else { 1 }, extras)
    };
    // scan_items[si] = DHT groups (vectors of huff indices) to emit before scan si
    let mut dht_before: Vec<Vec<usize>> = vec![Vec::new(); nsc];
    if !per_scan_tables {
        let mut all: Vec<((bool, u8), [u64; 256])> = Vec::new();
        for si in 0..nsc {
            for (k, c) in needs_of(&spec, si) {
                match all.iter().position(|e| e.0 == k) {
                    Some(p) => {
                        for s in 0..256 {
                            all[p].1[s] += c[s];
                        }
                    }
                    None => all.push((k, c)),
                }
            }
        }
        rng.shuffle(&mut all);
        for ((ac, id), c) in all {
            let t = make(rng, ac, id, &c);
            dht_before[0].push(spec.huff.len());
            spec.huff.push(t);
        }
    } else {
        // current definition per destination: symbols available
        let mut cur: Vec<((bool, u8), Vec<u8>)> = Vec::new();
        for si in 0..nsc {
            for ((ac, id), c) in needs_of(&spec, si) {
                let covered = cur.iter().find(|e| e.0 == (ac, id)).is_some_and(|e| (0..256).all(|s| c[s] == 0 || e.1.contains(&(s as u8))));
                if covered && rng.chance(2, 3) {
                    continue;
                }
                let t = make(rng, ac, id, &c);
                cur.retain(|e| e.0 != (ac, id));
                cur.push(((ac, id), t.values.clone()));
                dht_before[si].push(spec.huff.len());
                spec.huff.push(t);
            }
        }
    }
    // the reconstruction box cannot describe fewer than two Huffman tables: add a spare one
    while spec.huff.len() < 2 {
        let mut c = [0u64; 256];
        c[0] = 1;
        c[1] = 1;
        let used: Vec<(bool, u8)> = spec.huff.iter().map(|t| (t.is_ac, t.id)).collect();
        let (ac, id) = [(false, 0u8), (true, 0), (false, 1), (true, 1)].into_iter().find(|k| !used.contains(k)).unwrap_or((true, 3));
        let t = build_table(rng, ac, id, &c, 0, 2);
        dht_before[0].push(spec.huff.len());
        spec.huff.push(t);
    }
    // ---- marker list
    let weird = o.allow_weird;
    let mut head: Vec<Seg> = Vec::new(); // before SOF-ish part
    // metadata segments
    let mut meta: Vec<Seg> = Vec::new();
    let mut mcls = String::new();
    if rng.chance(1, 2) {
        let mut p = b"JFIF\0\x01\x01\0\0\x01\0\x01\0\0".to_vec();
        if rng.chance(1, 4) {
            p.extend(random_payload(rng, 5));
        }
        meta.push(Seg::App { marker: 0xe0, kind: AppKind::Raw, payload: p });
    }
    if o.allow_meta && rng.chance(1, 4) {
        let len = match rng.below(6) {
            0 => rng.urange(1, 40),
            1 if weird => 65533 - HEADER_EXIF.len(),
            _ => rng.urange(8, 600),
        };
        let mut p = HEADER_EXIF.to_vec();
        let mut tiff = if rng.bool() { b"II*\0\x08\0\0\0".to_vec() } else { b"MM\0*\0\0\0\x08".to_vec() };
        tiff.extend(random_payload(rng, len));
        tiff.truncate(len.max(1));
        p.extend(tiff);
        meta.push(Seg::App { marker: 0xe1, kind: AppKind::Exif, payload: p });
        mcls.push('E');
        if rng.chance(1, 6) {
            // a second Exif-looking segment is carried verbatim
            let mut p = HEADER_EXIF.to_vec();
            p.extend(random_payload(rng, 12));
            meta.push(Seg::App { marker: 0xe1, kind: AppKind::Raw, payload: p });
        }
    }
    if o.allow_meta && rng.chance(1, 4) {
        let len = match rng.below(6) {
            0 => rng.urange(1, 20),
            1 if weird => 65533 - HEADER_XMP.len(),
            _ => rng.urange(20, 900),
        };
        let mut p = HEADER_XMP.to_vec();
        let mut x = b"<x:xmpmeta xmlns:x=\"adobe:ns:meta/\">".to_vec();
        x.extend((0..len).map(|_| b' ' + rng.below(90) as u8));
        x.truncate(len.max(1));
        p.extend(x);
        meta.push(Seg::App { marker: 0xe1, kind: AppKind::Xmp, payload: p });
        mcls.push('X');
    }
    let mut icc_segs: Vec<Seg> = Vec::new();
    if o.allow_meta && rng.chance(1, 4) {
        let ntags = rng.urange(0, 12);
        let pool: &Vec<Vec<u8>> = if n == 1 && !o.icc_gray.is_empty() && (o.icc_rgb.is_empty() || rng.chance(2, 3)) { &o.icc_gray } else { &o.icc_rgb };
        let mut profile = if pool.is_empty() { crate::icc::random_structured_profile(rng, ntags) } else { rng.pick(pool).clone() };
        // sometimes pad (multi-chunk profiles); the header size field is kept consistent
        let extra = match rng.below(8) {
            0 if weird => rng.urange(65520, 140000),
            1 => rng.urange(1, 3000),
            _ => 0,
        };
        if extra > 0 && profile.len() >= 128 {
            let pad = random_payload(rng, extra);
            profile.extend(pad);
            let n = profile.len() as u32;
            profile[0..4].copy_from_slice(&n.to_be_bytes());
        }
        // profile size field should match for tidy parsing by other tools; the transport does not care
        let chunk_max = if profile.len() > 65519 || rng.chance(1, 2) { 65519 } else { rng.urange(1, profile.len().max(1)) };
        let chunks: Vec<&[u8]> = profile.chunks(chunk_max.max(profile.len().div_ceil(255))).collect();
        let total = chunks.len();
        if total <= 255 {
            for (i, ch) in chunks.iter().enumerate() {
                let mut p = HEADER_ICC.to_vec();
                p.push(i as u8 + 1);
                p.push(total as u8);
                p.extend_from_slice(ch);
                icc_segs.push(Seg::App { marker: 0xe2, kind: AppKind::Icc, payload: p });
            }
            mcls.push('I');
            if total > 1 {
                mcls.push('+');
            }
        }
    } else if rng.chance(1, 30) {
        // an APP2 that looks like ICC but has inconsistent numbering: carried verbatim
        let mut p = HEADER_ICC.to_vec();
        p.extend_from_slice(&[2, 1]);
        p.extend(random_payload(rng, 40));
        meta.push(Seg::App { marker: 0xe2, kind: AppKind::Raw, payload: p });
    }
    let nrand = if rng.chance(1, 2) { 0 } else { rng.urange(1, 4) };
    for _ in 0..nrand {
        if rng.chance(1, 3) {
            let n = random_len(rng, weird);
            meta.push(Seg::Com(random_payload(rng, n)));
            if !mcls.contains('C') {
                mcls.push('C');
            }
        } else {
            let m = 0xe0 + rng.below(16) as u8;
            let n = random_len(rng, weird);
            let mut p = random_payload(rng, n);
            // do not accidentally look like a typed segment
            if (m == 0xe1 && (p.starts_with(HEADER_EXIF) || p.starts_with(HEADER_XMP))) || (m == 0xe2 && p.starts_with(HEADER_ICC)) {
                p[0] ^= 0x20;
            }
            if m == 0xee && rng.chance(1, 2) {
                p = b"Adobe\0d\0\0\0\0\x01".to_vec();
            }
            meta.push(Seg::App { marker: m, kind: AppKind::Raw, payload: p });
            if !mcls.contains('A') {
                mcls.push('A');
            }
        }
    }
    if rng.chance(1, 3) {
        rng.shuffle(&mut meta);
    }
    // ICC chunks keep their order; insert them as a run at a random place of the metadata
    let at = rng.below(meta.len() as u64 + 1) as usize;
    let mut m2: Vec<Seg> = meta.drain(..at).collect();
    m2.extend(icc_segs);
    m2.extend(meta);
    let meta = m2;
    // some metadata goes after the tables / between scans
    let mut late: Vec<Seg> = Vec::new();
    for s in meta {
        let is_typed = matches!(&s, Seg::App { kind, .. } if *kind != AppKind::Raw);
        if !is_typed && rng.chance(1, 6) {
            late.push(s);
        } else {
            head.push(s);
        }
    }
    // DQT groups
    let mut dqt_groups: Vec<Vec<usize>> = Vec::new();
    {
        let mut i = 0;
        while i < spec.quant.len() {
            let k = if rng.chance(1, 2) { spec.quant.len() - i } else { rng.urange(1, spec.quant.len() - i) };
            dqt_groups.push((i..i + k).collect());
            i += k;
        }
    }
    let group_dht = |rng: &mut Rng, idx: &[usize]| -> Vec<Vec<usize>> {
        let mut g = Vec::new();
        let mut i = 0;
        while i < idx.len() {
            let k = if rng.chance(1, 2) { idx.len() - i } else { rng.urange(1, (idx.len() - i).min(3)) };
            g.push(idx[i..i + k].to_vec());
            i += k;
        }
        g
    };
    let mut pre: Vec<Seg> = Vec::new(); // DQT / SOF / first DHTs / DRI in some order
    let dqt_after_sof = rng.chance(1, 6);
    let dht_before_sof = rng.chance(1, 6);
    let first_dht: Vec<Seg> = group_dht(rng, &dht_before[0]).into_iter().map(Seg::Dht).collect();
    if !dqt_after_sof {
        pre.extend(dqt_groups.iter().cloned().map(Seg::Dqt));
    }
    if dht_before_sof {
        pre.extend(first_dht.iter().cloned());
    }
    pre.push(Seg::Sof);
    if dqt_after_sof {
        pre.extend(dqt_groups.iter().cloned().map(Seg::Dqt));
    }
    if !dht_before_sof {
        pre.extend(first_dht.iter().cloned());
    }
    let mut segs: Vec<Seg> = Vec::new();
    segs.extend(head);
    segs.extend(pre);
    let mut gcls = false;
    for si in 0..nsc {
        if si > 0 {
            for g in group_dht(rng, &dht_before[si]) {
                segs.push(Seg::Dht(g));
            }
        }
        if has_dri && (si == dri_from || (si > dri_from && rng.chance(1, 10))) {
            // before or after this scan's tables
            segs.push(Seg::Dri);
        }
        if !late.is_empty() && rng.chance(1, 2) {
            segs.push(late.remove(0));
        }
        segs.push(Seg::Sos(si));
    }
    segs.extend(late);
    segs.push(Seg::Eoi);
    // DRI must precede the scan it applies to but may sit anywhere earlier after SOI: move the
    // first one to a random earlier place sometimes
    if has_dri && dri_from == 0 && rng.chance(1, 3) {
        if let Some(p) = segs.iter().position(|s| matches!(s, Seg::Dri)) {
            let s = segs.remove(p);
            let q = rng.below(p as u64 + 1) as usize;
            segs.insert(q, s);
        }
    }
    // garbage between segments
    if weird && rng.chance(1, 8) {
        let k = rng.urange(1, 3);
        for _ in 0..k {
            let p = rng.below(segs.len() as u64) as usize; // before segment p (never after EOI)
            // two adjacent runs could join into an accidental marker
            if matches!(segs[p], Seg::Garbage(_)) || (p > 0 && matches!(segs[p - 1], Seg::Garbage(_))) {
                continue;
            }
            let safe = o.libjpeg_safe || rng.chance(3, 4);
            segs.insert(p, Seg::Garbage(random_garbage(rng, safe)));
        }
        gcls = true;
    }
    spec.segments = segs;
    // ---- padding, tail
    spec.pad = if !weird {
        PadMode::Ones
    } else {
        match rng.below(20) {
            0..=11 => PadMode::Ones,
            12..=16 if o.allow_pad_random => PadMode::Random(rng.next_u64()),
            12..=16 => PadMode::Zeros,
            17 | 18 => PadMode::Zeros,
            _ => PadMode::OnesExplicit,
        }
    };
    let tcls;
    spec.tail = if weird && rng.chance(1, 5) {
        let n = match rng.below(12) {
            0 => rng.urange(257, 3000),
            1 => rng.urange(65793, 70000),
            2 => 256,
            3 => 257,
            _ => rng.urange(1, 40),
        };
        tcls = if n > 256 { "T" } else { "t" };
        random_payload(rng, n)
    } else {
        tcls = "";
        vec![]
    };
    spec.class = format!(
        "{}{}|{}|{}|{}|{}|q{}{}{}|h{}{}|m{}{}|p{}|{}{}",
        if o.eob_long { "EOB:" } else { "" },
        ckind,
        sclass,
        match sof {
            0xC0 => "b",
            0xC1 => "e",
            _ => "p",
        },
        script,
        if restart_interval > 0 { if dri_from > 0 { "riL" } else { "ri" } } else if has_dri { "ri0" } else { "" },
        nq,
        if p16 { "w" } else { "" },
        if qorder == "perm" { "P" } else { "" },
        if per_scan_tables { "S" } else { "G" },
        match table_style {
            0..=2 => "s",
            3..=6 => "o",
            _ => "r",
        },
        mcls,
        if gcls { "g" } else { "" },
        match spec.pad {
            PadMode::Ones => "1",
            PadMode::OnesExplicit => "1x",
            PadMode::Zeros => "0",
            PadMode::Random(_) => "r",
        },
        tcls,
        xcls
    );
    spec
}
