//! JPEG bitstream reconstruction data (`jbrd` box payload) writer.
//!
//! Layout (ISO/IEC 18181-2 JPEG reconstruction, as implemented by the reference encoder): a bit
//! packed header bundle (JXL field encodings, LSB first) followed, after zero padding to a byte, by
//! ONE Brotli stream holding, concatenated: the bytes of all APPn segments of type 0 (marker byte,
//! length bytes, payload), the bytes of all COM segments (length bytes + payload), all
//! inter-marker data, the tail data.  ICC / Exif / XMP payloads are not stored: the header only
//! records the segment lengths (types 1, 2, 3); the data lives in the codestream / `Exif` / `xml `
//! boxes.
//!
//! Conventions taken from the reference implementation (they are the definition of this format):
//! * marker list: 6 bits per marker (marker - 0xC0), SOI omitted, ends with EOI (0xD9); inter
//!   marker data appears as pseudo marker 0xFF;
//! * a component's quant index is the POSITION of its table in the quant table list (not Tq);
//! * every Huffman code carries one extra symbol 256 appended to the longest non-empty length;
//! * padding bits are stored one by one in file order.

use crate::bits::{BitWriter, D};
use crate::container::{brotli_stored, BrotliStored};
use crate::jpeg::*;

#[derive(Clone, Debug)]
pub struct JbrdOpts {
    pub brotli: BrotliStored,
    /// write the component's Tq instead of the list position (the two agree when tables are
    /// listed in id order)
    pub quant_idx_is_tq: bool,
}

impl Default for JbrdOpts {
    fn default() -> Self {
        Self { brotli: BrotliStored::simple(), quant_idx_is_tq: false }
    }
}

/// Header fields in a mutable form so hostile variants can be derived.
#[derive(Clone, Debug)]
pub struct JbrdHeader {
    pub is_gray: bool,
    pub markers: Vec<u8>,
    /// (type, stored length = 1 + segment length)
    pub app: Vec<(u32, u32)>,
    /// segment length (incl. the two length bytes)
    pub com: Vec<u32>,
    /// (precision, index, is_last)
    pub quant: Vec<(u8, u8, bool)>,
    /// 0 gray(id 1), 1 YCbCr(1,2,3), 2 RGB, 3 custom
    pub comp_type: u32,
    pub comp_ids: Vec<u8>,
    pub comp_q: Vec<u8>,
    pub huff: Vec<JbrdHuff>,
    pub scans: Vec<JbrdScan>,
    pub restart_interval: u32,
    pub intermarker: Vec<u32>,
    pub tail_len: u32,
    pub padding: Option<Vec<u8>>,
}

#[derive(Clone, Debug)]
pub struct JbrdHuff {
    pub is_ac: bool,
    pub id: u8,
    pub is_last: bool,
    /// counts[0..=16]
    pub counts: [u32; 17],
    /// symbols incl. the sentinel 256
    pub values: Vec<u32>,
}

#[derive(Clone, Debug)]
pub struct JbrdScan {
    pub ss: u8,
    pub se: u8,
    pub al: u8,
    pub ah: u8,
    /// (comp_idx, ac_tbl, dc_tbl)
    pub comps: Vec<(u8, u8, u8)>,
    pub last_needed_pass: u32,
    pub reset_points: Vec<u32>,
    pub extra_zero_runs: Vec<(u32, u32)>,
}

/// Header + data section described by a JpegSpec.
pub fn jbrd_from_spec(spec: &JpegSpec, padding_bits: &[u8], o: &JbrdOpts) -> (JbrdHeader, Vec<u8>) {
    let mut markers = Vec::new();
    let mut app = Vec::new();
    let mut com = Vec::new();
    let mut inter = Vec::new();
    let (mut d_app, mut d_com, mut d_inter) = (Vec::new(), Vec::new(), Vec::new());
    let mut has_dri = false;
    for s in &spec.segments {
        match s {
            Seg::App { marker, kind, payload } => {
                markers.push(*marker);
                let seglen = payload.len() as u32 + 2;
                let ty = match kind {
                    AppKind::Raw => 0,
                    AppKind::Icc => 1,
                    AppKind::Exif => 2,
                    AppKind::Xmp => 3,
                };
                app.push((ty, seglen + 1));
                if ty == 0 {
                    d_app.push(*marker);
                    d_app.extend_from_slice(&(seglen as u16).to_be_bytes());
                    d_app.extend_from_slice(payload);
                }
            }
            Seg::Com(p) => {
                markers.push(0xfe);
                let seglen = p.len() as u32 + 2;
                com.push(seglen);
                d_com.extend_from_slice(&(seglen as u16).to_be_bytes());
                d_com.extend_from_slice(p);
            }
            Seg::Dqt(_) => markers.push(0xdb),
            Seg::Dht(_) => markers.push(0xc4),
            Seg::Sof => markers.push(spec.sof),
            Seg::Dri => {
                markers.push(0xdd);
                has_dri = true;
            }
            Seg::Sos(_) => markers.push(0xda),
            Seg::Garbage(g) => {
                markers.push(0xff);
                inter.push(g.len() as u32);
                d_inter.extend_from_slice(g);
            }
            Seg::Eoi => markers.push(0xd9),
        }
    }
    let _ = has_dri;
    // quant tables in file order, is_last = last table of its DQT segment
    let mut quant: Vec<(u8, u8, bool)> = spec.quant.iter().map(|q| (q.precision, q.id, false)).collect();
    let mut huff: Vec<JbrdHuff> = spec
        .huff
        .iter()
        .map(|t| {
            let mut counts = [0u32; 17];
            for l in 1..=16 {
                counts[l] = t.counts[l] as u32;
            }
            // the sentinel joins the longest used length
            match (1..=16).rev().find(|&l| counts[l] != 0) {
                Some(l) => counts[l] += 1,
                None => counts[1] += 1,
            }
            let mut values: Vec<u32> = t.values.iter().map(|&v| v as u32).collect();
            values.push(256);
            JbrdHuff { is_ac: t.is_ac, id: t.id, is_last: false, counts, values }
        })
        .collect();
    for s in &spec.segments {
        match s {
            Seg::Dqt(idx) => {
                if let Some(&l) = idx.last() {
                    quant[l].2 = true;
                }
            }
            Seg::Dht(idx) => {
                if let Some(&l) = idx.last() {
                    huff[l].is_last = true;
                }
            }
            _ => {}
        }
    }
    let ids: Vec<u8> = spec.components.iter().map(|c| c.id).collect();
    let comp_type = if ids == [1] {
        0
    } else if ids == [1, 2, 3] {
        1
    } else if ids == [b'R', b'G', b'B'] {
        2
    } else {
        3
    };
    let comp_q: Vec<u8> = spec
        .components
        .iter()
        .map(|c| if o.quant_idx_is_tq { c.tq } else { spec.quant.iter().position(|q| q.id == c.tq).unwrap_or(0) as u8 })
        .collect();
    // scans in marker order
    let scans: Vec<JbrdScan> = spec
        .segments
        .iter()
        .filter_map(|s| if let Seg::Sos(i) = s { spec.scans.get(*i) } else { None })
        .map(|s| JbrdScan {
            ss: s.ss,
            se: s.se,
            al: s.al,
            ah: s.ah,
            comps: s.comps.iter().map(|c| (c.comp_idx as u8, c.ac_tbl, c.dc_tbl)).collect(),
            last_needed_pass: s.last_needed_pass as u32,
            reset_points: s.reset_points.clone(),
            extra_zero_runs: s.extra_zero_runs.clone(),
        })
        .collect();
    let padding = match spec.pad {
        PadMode::Ones => None,
        _ => Some(padding_bits.to_vec()),
    };
    let mut data = d_app;
    data.extend(d_com);
    data.extend(d_inter);
    data.extend_from_slice(&spec.tail);
    (
        JbrdHeader {
            is_gray: spec.components.len() == 1,
            markers,
            app,
            com,
            quant,
            comp_type,
            comp_ids: ids,
            comp_q,
            huff,
            scans,
            restart_interval: spec.restart_interval,
            intermarker: inter,
            tail_len: spec.tail.len() as u32,
            padding,
        },
        data,
    )
}

fn write_diffs(bw: &mut BitWriter, pts: impl Iterator<Item = (u32, Option<u32>)>) {
    // (block index, optional num_runs); indices strictly ascending
    let mut last: Option<u32> = None;
    for (b, nr) in pts {
        if let Some(n) = nr {
            bw.u32([D::C(1), D::B(2, 2), D::B(5, 4), D::B(20, 8)], n);
        }
        let d = match last {
            None => b,
            Some(l) => b.wrapping_sub(l).wrapping_sub(1),
        };
        bw.u32([D::C(0), D::B(1, 3), D::B(9, 5), D::B(41, 28)], d);
        last = Some(b);
    }
}

const COUNT_DS: [D; 4] = [D::C(0), D::C(1), D::B(2, 3), D::B(0, 8)];
const N_POINTS_DS: [D; 4] = [D::C(0), D::B(1, 2), D::B(4, 4), D::B(20, 16)];

impl JbrdHeader {
    /// Serialise the header bundle (not padded).
    pub fn write(&self, bw: &mut BitWriter) {
        bw.bool(self.is_gray);
        for &m in &self.markers {
            bw.write(6, m.wrapping_sub(0xc0) as u64);
        }
        for &(ty, len) in &self.app {
            bw.u32([D::C(0), D::C(1), D::B(2, 1), D::B(4, 2)], ty);
            bw.write(16, len.wrapping_sub(1) as u64);
        }
        for &l in &self.com {
            bw.write(16, l.wrapping_sub(1) as u64);
        }
        bw.write(2, (self.quant.len() as u64).wrapping_sub(1));
        for &(p, i, last) in &self.quant {
            bw.write(1, p as u64);
            bw.write(2, i as u64);
            bw.bool(last);
        }
        bw.write(2, self.comp_type as u64);
        if self.comp_type == 3 {
            bw.write(2, (self.comp_ids.len() as u64).wrapping_sub(1));
            for &id in &self.comp_ids {
                bw.write(8, id as u64);
            }
        }
        for &q in &self.comp_q {
            bw.write(2, q as u64);
        }
        bw.u32([D::C(4), D::B(2, 3), D::B(10, 4), D::B(26, 6)], self.huff.len() as u32);
        for h in &self.huff {
            bw.bool(h.is_ac);
            bw.write(2, h.id as u64);
            bw.bool(h.is_last);
            for &c in &h.counts {
                bw.u32(COUNT_DS, c);
            }
            for &v in &h.values {
                bw.u32([D::B(0, 2), D::B(4, 2), D::B(8, 4), D::B(1, 8)], v);
            }
        }
        for s in &self.scans {
            bw.write(2, (s.comps.len() as u64).wrapping_sub(1));
            bw.write(6, s.ss as u64);
            bw.write(6, s.se as u64);
            bw.write(4, s.al as u64);
            bw.write(4, s.ah as u64);
            for &(c, ac, dc) in &s.comps {
                bw.write(2, c as u64);
                bw.write(2, ac as u64);
                bw.write(2, dc as u64);
            }
            bw.u32([D::C(0), D::C(1), D::C(2), D::B(3, 3)], s.last_needed_pass);
        }
        if self.markers.contains(&0xdd) {
            bw.write(16, self.restart_interval as u64);
        }
        for s in &self.scans {
            bw.u32(N_POINTS_DS, s.reset_points.len() as u32);
            write_diffs(bw, s.reset_points.iter().map(|&b| (b, None)));
            bw.u32(N_POINTS_DS, s.extra_zero_runs.len() as u32);
            write_diffs(bw, s.extra_zero_runs.iter().map(|&(b, n)| (b, Some(n))));
        }
        for &l in &self.intermarker {
            bw.write(16, l as u64);
        }
        bw.u32([D::C(0), D::B(1, 8), D::B(257, 16), D::B(65793, 22)], self.tail_len);
        bw.bool(self.padding.is_some());
        if let Some(p) = &self.padding {
            bw.write(24, p.len() as u64);
            for &b in p {
                bw.write(1, b as u64);
            }
        }
    }

    /// Can every field be represented?
    pub fn representable(&self) -> bool {
        (1..=4).contains(&self.quant.len())
            && (self.huff.len() == 4 || (2..=89).contains(&self.huff.len()))
            && self.scans.iter().all(|s| (1..=4).contains(&s.comps.len()) && s.reset_points.len() < 65556 && s.extra_zero_runs.len() < 65556)
            && self.padding.as_ref().map_or(true, |p| p.len() < 1 << 24)
            && self.tail_len < 65793 + (1 << 22)
            && self.huff.iter().all(|h| h.counts.iter().all(|&c| c <= 255))
    }
}

/// Complete `jbrd` box payload.
pub fn write_jbrd_parts(h: &JbrdHeader, data: &[u8], o: &JbrdOpts, sel_rng: Option<crate::rng::Rng>) -> Vec<u8> {
    let mut bw = match sel_rng {
        Some(r) => BitWriter::with_random_selectors(r),
        None => BitWriter::new(),
    };
    h.write(&mut bw);
    let mut out = bw.finish();
    out.extend(brotli_stored(data, &o.brotli));
    out
}

pub fn write_jbrd(spec: &JpegSpec, padding_bits: &[u8], o: &JbrdOpts) -> Vec<u8> {
    let (h, data) = jbrd_from_spec(spec, padding_bits, o);
    write_jbrd_parts(&h, data.as_slice(), o, None)
}
