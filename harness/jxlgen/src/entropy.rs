//! Entropy *encoder* for JPEG XL: hybrid-uint configs, context clustering, prefix codes
//! (simple + complex headers), ANS histograms (all header forms) with rANS coding via the alias
//! table of the format definition, and LZ77.
//!
//! Nothing here calls decoder code. The structures keep the truth (values, bits written).

use crate::bits::{ceil_log2_plus1, floor_log2, BitWriter, D};
use crate::rng::Rng;

pub const ANS_TAB: u32 = 4096;

#[derive(Clone, Copy, Debug, PartialEq, Eq)]
pub struct UintCfg {
    pub split_exp: u32,
    pub msb: u32,
    pub lsb: u32,
}

impl UintCfg {
    pub fn new(split_exp: u32, msb: u32, lsb: u32) -> Self {
        Self { split_exp, msb, lsb }
    }

    /// (token, nbits, bits)
    pub fn encode(&self, v: u32) -> (u32, u32, u32) {
        let split = 1u32 << self.split_exp;
        if v < split {
            return (v, 0, 0);
        }
        let n = floor_log2(v);
        let m = v - (1u32 << n);
        let token = split
            + ((n - self.split_exp) << (self.msb + self.lsb))
            + ((m >> (n - self.msb)) << self.lsb)
            + (m & ((1u32 << self.lsb) - 1));
        let nbits = n - self.msb - self.lsb;
        let bits = (v >> self.lsb) & (((1u64 << nbits) - 1) as u32);
        (token, nbits, bits)
    }

    pub fn write(&self, bw: &mut BitWriter, log_alpha: u32) {
        bw.write(ceil_log2_plus1(log_alpha), self.split_exp as u64);
        if self.split_exp != log_alpha {
            bw.write(ceil_log2_plus1(self.split_exp), self.msb as u64);
            bw.write(ceil_log2_plus1(self.split_exp - self.msb), self.lsb as u64);
        }
    }

    pub fn all(log_alpha: u32) -> Vec<UintCfg> {
        let mut v = Vec::new();
        for se in 0..=log_alpha {
            if se == log_alpha {
                v.push(UintCfg::new(se, 0, 0));
                continue;
            }
            for msb in 0..=se {
                for lsb in 0..=(se - msb) {
                    v.push(UintCfg::new(se, msb, lsb));
                }
            }
        }
        v
    }

    /// Upper bound of the token of any value <= max_value (tokens are not monotone in the value
    /// because low bits of the value enter the token).
    pub fn max_token_bound(&self, max_value: u32) -> u32 {
        let split = 1u32 << self.split_exp;
        if max_value < split {
            return max_value;
        }
        let n = floor_log2(max_value);
        split + ((n - self.split_exp) << (self.msb + self.lsb)) + ((1u32 << (self.msb + self.lsb)) - 1)
    }

    /// Random config such that every value <= max_value has a token < token_limit.
    pub fn random_fitting(
        rng: &mut Rng,
        log_alpha: u32,
        max_value: u32,
        token_limit: u32,
    ) -> Option<UintCfg> {
        let all = Self::all(log_alpha);
        let ok: Vec<_> = all
            .into_iter()
            .filter(|c| c.max_token_bound(max_value) < token_limit)
            .collect();
        if ok.is_empty() {
            None
        } else {
            Some(*rng.pick(&ok))
        }
    }
}

#[derive(Clone, Debug)]
pub struct Lz77Params {
    pub min_symbol: u32,
    pub min_length: u32,
    pub len_cfg: UintCfg,
}

#[derive(Clone, Copy, Debug)]
pub struct Read {
    pub ctx: u32,
    pub value: u32,
}

#[derive(Clone, Copy, Debug)]
pub enum Item {
    Lit { ctx: u32, value: u32 },
    /// A copy command issued at a read with context `ctx`: `len` values are produced, the raw
    /// value `dist_value` is written on the distance context.
    Copy { ctx: u32, len: u32, dist_value: u32 },
}

#[derive(Clone, Copy, Debug, PartialEq, Eq)]
pub enum ClusterCoding {
    Simple { nbits: u32 },
    Coded { mtf: bool },
}

#[derive(Clone, Debug)]
pub enum PrefixForm {
    /// alphabet_size == 1: nothing written
    Implicit,
    /// simple header; `syms` in written order, `tree_select` for nsym==4
    Simple { syms: Vec<u32>, tree_select: bool },
    Complex { hskip: u32 },
}

#[derive(Clone, Debug)]
pub struct PrefixHist {
    pub alphabet_size: u32,
    /// code length per symbol (0 = unused), len == alphabet_size
    pub lengths: Vec<u8>,
    pub form: PrefixForm,
    /// canonical code (value, MSB-first) per symbol
    pub codes: Vec<u16>,
    /// at most one symbol has a code: symbols cost zero bits
    pub single: bool,
}

#[derive(Clone, Debug, PartialEq, Eq)]
pub enum AnsForm {
    Single,
    Binary { v0: u32, v1: u32 },
    Flat,
    General { shift: u32, rle: bool },
}

#[derive(Clone, Debug)]
pub struct AnsHist {
    pub log_alpha: u32,
    pub alphabet_size: u32,
    /// normalised distribution, len == 1 << log_alpha, sums to 4096
    pub dist: Vec<u16>,
    pub form: AnsForm,
    /// for General: written log-count codes per symbol (0..=12), len alphabet_size
    pub logcounts: Vec<u8>,
    pub omit_pos: usize,
    /// inverse alias: for symbol s, slot indices sorted by offset (len == dist[s])
    pub inv: Vec<Vec<u16>>,
}

#[derive(Clone, Debug)]
pub enum Hist {
    Prefix(PrefixHist),
    Ans(AnsHist),
}

#[derive(Clone, Debug)]
pub struct EntropyCode {
    pub num_dist: u32,
    pub lz77: Option<Lz77Params>,
    pub cluster_map: Vec<u8>,
    pub cluster_coding: ClusterCoding,
    pub nested: Option<Box<(EntropyCode, Vec<Item>)>>,
    pub use_prefix: bool,
    pub log_alpha: u32,
    pub cfgs: Vec<UintCfg>,
    pub hists: Vec<Hist>,
}

/// Knobs for the randomised builder. `None` = pick at random.
#[derive(Clone, Debug, Default)]
pub struct BuildOpts {
    pub use_prefix: Option<bool>,
    pub log_alpha: Option<u32>,
    pub lz77: Option<Lz77Params>,
    /// max number of clusters to use (1..=256); None = random
    pub max_clusters: Option<u32>,
    pub cluster_coding: Option<ClusterCoding>,
    /// explicit cluster map (must have num_dist (+1 if lz77) entries, no holes)
    pub cluster_map: Option<Vec<u8>>,
    /// force configs (per cluster) - must fit
    pub cfgs: Option<Vec<UintCfg>>,
    /// add symbols that are never used to histograms
    pub spurious: bool,
    /// choose header forms that are as plain as possible (for speed in big corpora)
    pub plain: bool,
    /// force a general-form ANS shift
    pub ans_shift: Option<u32>,
    /// force the histogram of one cluster to the single-symbol form with this symbol
    /// (all tokens of that cluster must equal it)
    pub force_single: Option<(u8, u32)>,
}

// ---------------------------------------------------------------------------------------------
// prefix codes

/// Length-limited Huffman lengths from counts (count 0 => length 0). At least 2 used symbols.
pub fn huffman_lengths(counts: &[u64], max_len: u32) -> Vec<u8> {
    let mut counts: Vec<u64> = counts.to_vec();
    loop {
        let lens = huffman_unlimited(&counts);
        if lens.iter().all(|&l| (l as u32) <= max_len) {
            return lens;
        }
        // flatten and retry
        for c in counts.iter_mut() {
            if *c > 0 {
                *c = (*c >> 1) + 1;
            }
        }
    }
}

fn huffman_unlimited(counts: &[u64]) -> Vec<u8> {
    #[derive(Clone)]
    struct Node {
        w: u64,
        l: i32,
        r: i32,
    }
    let mut nodes: Vec<Node> = Vec::new();
    let mut heap: std::collections::BinaryHeap<std::cmp::Reverse<(u64, usize)>> =
        std::collections::BinaryHeap::new();
    let mut leaf_of = vec![usize::MAX; counts.len()];
    for (i, &c) in counts.iter().enumerate() {
        if c > 0 {
            leaf_of[i] = nodes.len();
            heap.push(std::cmp::Reverse((c, nodes.len())));
            nodes.push(Node { w: c, l: -1, r: -1 });
        }
    }
    assert!(heap.len() >= 2);
    while heap.len() > 1 {
        let a = heap.pop().unwrap().0;
        let b = heap.pop().unwrap().0;
        let idx = nodes.len();
        nodes.push(Node {
            w: a.0 + b.0,
            l: a.1 as i32,
            r: b.1 as i32,
        });
        heap.push(std::cmp::Reverse((a.0 + b.0, idx)));
    }
    let root = heap.pop().unwrap().0 .1;
    let mut depth = vec![0u32; nodes.len()];
    let mut stack = vec![root];
    while let Some(n) = stack.pop() {
        let nd = nodes[n].clone();
        let _ = nd.w;
        if nd.l >= 0 {
            depth[nd.l as usize] = depth[n] + 1;
            depth[nd.r as usize] = depth[n] + 1;
            stack.push(nd.l as usize);
            stack.push(nd.r as usize);
        }
    }
    let mut lens = vec![0u8; counts.len()];
    for (i, &lf) in leaf_of.iter().enumerate() {
        if lf != usize::MAX {
            lens[i] = depth[lf].min(255) as u8;
        }
    }
    lens
}

/// Random Kraft-complete lengths for `n >= 2` symbols with lengths <= max_len.
pub fn random_complete_lengths(rng: &mut Rng, n: usize, max_len: u32) -> Vec<u8> {
    assert!(n >= 2 && (n as u64) <= (1u64 << max_len));
    // start from [1,1] and split random leaves that are not at max depth
    let mut lens: Vec<u8> = vec![1, 1];
    while lens.len() < n {
        // candidates: leaves with len < max_len
        let cands: Vec<usize> = (0..lens.len())
            .filter(|&i| (lens[i] as u32) < max_len)
            .collect();
        // must exist because n <= 2^max_len
        let style = rng.below(3);
        let i = match style {
            0 => *rng.pick(&cands),
            1 => *cands.iter().max_by_key(|&&i| lens[i]).unwrap(), // skewed deep
            _ => *cands.iter().min_by_key(|&&i| lens[i]).unwrap(), // balanced
        };
        lens[i] += 1;
        let l = lens[i];
        lens.push(l);
    }
    rng.shuffle(&mut lens);
    lens
}

/// canonical codes: ordered by (length, symbol)
pub fn canonical_codes(lengths: &[u8]) -> Vec<u16> {
    let mut codes = vec![0u16; lengths.len()];
    let mut code: u32 = 0;
    for len in 1..=15u8 {
        for (s, &l) in lengths.iter().enumerate() {
            if l == len {
                codes[s] = code as u16;
                code += 1;
            }
        }
        code <<= 1;
    }
    codes
}

fn write_code(bw: &mut BitWriter, code: u16, len: u8) {
    // code is MSB-first; stream is LSB-first => write reversed
    let mut rev = 0u64;
    for i in 0..len {
        if code & (1 << i) != 0 {
            rev |= 1 << (len - 1 - i);
        }
    }
    bw.write(len as u32, rev);
}

fn kraft_ok(lengths: &[u8], max_len: u32) -> bool {
    let mut acc: u64 = 0;
    for &l in lengths {
        if l > 0 {
            if l as u32 > max_len {
                return false;
            }
            acc += 1u64 << (max_len - l as u32);
        }
    }
    acc == 1u64 << max_len
}

impl PrefixHist {
    /// Build from final lengths (len == alphabet_size). Chooses a header form.
    pub fn from_lengths(rng: &mut Rng, lengths: Vec<u8>, plain: bool) -> Self {
        let alphabet_size = lengths.len() as u32;
        let used: Vec<u32> = (0..alphabet_size).filter(|&s| lengths[s as usize] > 0).collect();
        let codes = canonical_codes(&lengths);
        if alphabet_size == 1 {
            return Self {
                alphabet_size,
                lengths,
                form: PrefixForm::Implicit,
                codes,
                single: true,
            };
        }
        // Simple form possible?
        let mut simple: Option<PrefixForm> = None;
        match used.len() {
            1 => {
                simple = Some(PrefixForm::Simple {
                    syms: used.clone(),
                    tree_select: false,
                })
            }
            2 => {
                let mut s = used.clone();
                if rng.bool() {
                    s.swap(0, 1);
                }
                simple = Some(PrefixForm::Simple {
                    syms: s,
                    tree_select: false,
                });
            }
            3 => {
                let one: Vec<u32> = used
                    .iter()
                    .copied()
                    .filter(|&s| lengths[s as usize] == 1)
                    .collect();
                if one.len() == 1 {
                    let mut rest: Vec<u32> =
                        used.iter().copied().filter(|&s| s != one[0]).collect();
                    if rng.bool() {
                        rest.swap(0, 1);
                    }
                    simple = Some(PrefixForm::Simple {
                        syms: vec![one[0], rest[0], rest[1]],
                        tree_select: false,
                    });
                }
            }
            4 => {
                if used.iter().all(|&s| lengths[s as usize] == 2) {
                    let mut s = used.clone();
                    rng.shuffle(&mut s);
                    simple = Some(PrefixForm::Simple {
                        syms: s,
                        tree_select: false,
                    });
                } else {
                    let l1: Vec<u32> = used
                        .iter()
                        .copied()
                        .filter(|&s| lengths[s as usize] == 1)
                        .collect();
                    let l2: Vec<u32> = used
                        .iter()
                        .copied()
                        .filter(|&s| lengths[s as usize] == 2)
                        .collect();
                    let mut l3: Vec<u32> = used
                        .iter()
                        .copied()
                        .filter(|&s| lengths[s as usize] == 3)
                        .collect();
                    if l1.len() == 1 && l2.len() == 1 && l3.len() == 2 {
                        if rng.bool() {
                            l3.swap(0, 1);
                        }
                        simple = Some(PrefixForm::Simple {
                            syms: vec![l1[0], l2[0], l3[0], l3[1]],
                            tree_select: true,
                        });
                    }
                }
            }
            _ => {}
        }
        let complex_possible = used.len() >= 2;
        let form = match (simple, complex_possible) {
            (Some(s), false) => s,
            (Some(s), true) => {
                if plain || rng.chance(2, 3) {
                    s
                } else {
                    PrefixForm::Complex { hskip: 0 }
                }
            }
            (None, true) => PrefixForm::Complex { hskip: 0 },
            (None, false) => panic!("no representable prefix header"),
        };
        debug_assert!(used.len() < 2 || kraft_ok(&lengths, 15));
        Self {
            alphabet_size,
            lengths,
            form,
            codes,
            single: used.len() <= 1,
        }
    }

    pub fn write_header(&self, bw: &mut BitWriter, rng: &mut Rng) {
        match &self.form {
            PrefixForm::Implicit => {}
            PrefixForm::Simple { syms, tree_select } => {
                bw.write(2, 1);
                bw.write(2, syms.len() as u64 - 1);
                let abits = ceil_log2_plus1(self.alphabet_size - 1);
                for &s in syms {
                    bw.write(abits, s as u64);
                }
                if syms.len() == 4 {
                    bw.bool(*tree_select);
                }
            }
            PrefixForm::Complex { .. } => self.write_complex(bw, rng),
        }
    }

    fn write_complex(&self, bw: &mut BitWriter, rng: &mut Rng) {
        // 1. turn the length sequence into code-length-code symbols
        #[derive(Clone, Copy)]
        struct Cl {
            sym: u8,
            extra: u8,
        }
        let mut seq: Vec<Cl> = Vec::new();
        // trailing zeros are not coded (decoder stops when the code is complete)
        let mut end = self.lengths.len();
        while end > 0 && self.lengths[end - 1] == 0 {
            end -= 1;
        }
        let use_rep = !rng.chance(1, 8);
        let mut last_nonzero = 8u8;
        let mut i = 0;
        while i < end {
            let l = self.lengths[i];
            let mut run = 1;
            while i + run < end && self.lengths[i + run] == l {
                run += 1;
            }
            if l == 0 {
                if use_rep && run >= 3 && rng.chance(9, 10) {
                    // code 17 chain. A chain cannot directly follow another 17 chain (it would
                    // extend it) - runs of zeros are maximal so the previous symbol is not 17.
                    for e in chain_extras(run, 8) {
                        seq.push(Cl { sym: 17, extra: e });
                    }
                } else {
                    for _ in 0..run {
                        seq.push(Cl { sym: 0, extra: 0 });
                    }
                }
                i += run;
            } else {
                // nonzero run
                let mut remaining = run;
                if l != last_nonzero {
                    seq.push(Cl { sym: l, extra: 0 });
                    last_nonzero = l;
                    remaining -= 1;
                }
                // previous symbol might be a 16 (only if we just emitted a 16-chain for the same
                // value, impossible since runs are maximal) so chaining is safe.
                if use_rep && remaining >= 3 && rng.chance(9, 10) {
                    for e in chain_extras(remaining, 4) {
                        seq.push(Cl { sym: 16, extra: e });
                    }
                } else {
                    for _ in 0..remaining {
                        seq.push(Cl { sym: l, extra: 0 });
                    }
                }
                i += run;
            }
        }
        // 2. histogram of code-length symbols -> lengths <= 5
        let mut cnt = [0u64; 18];
        for c in &seq {
            cnt[c.sym as usize] += 1;
        }
        let used: Vec<usize> = (0..18).filter(|&s| cnt[s] > 0).collect();
        let mut cl_lens = [0u8; 18];
        if used.len() == 1 {
            // single symbol: zero bits per code-length symbol. Any nonzero length 1..5 may be
            // written for it.
            cl_lens[used[0]] = [1u8, 2, 3, 4, 5][rng.below(5) as usize];
        } else {
            let l = if rng.chance(1, 4) && used.len() <= 18 {
                // random complete code over used symbols
                let r = random_complete_lengths(rng, used.len(), 5);
                let mut v = vec![0u8; 18];
                for (k, &s) in used.iter().enumerate() {
                    v[s] = r[k];
                }
                v
            } else {
                huffman_lengths(&cnt, 5)
            };
            cl_lens.copy_from_slice(&l);
        }
        let cl_codes = canonical_codes(&cl_lens);
        // 3. hskip: 0, 2 or 3 when the first entries in order [1,2,3,...] are zero
        const ORDER: [usize; 18] = [1, 2, 3, 4, 0, 5, 17, 6, 16, 7, 8, 9, 10, 11, 12, 13, 14, 15];
        let mut max_skip = 0;
        if cl_lens[1] == 0 && cl_lens[2] == 0 {
            max_skip = 2;
            if cl_lens[3] == 0 {
                max_skip = 3;
            }
        }
        let hskip = match max_skip {
            0 => 0,
            2 => *rng.pick(&[0u32, 2]),
            _ => *rng.pick(&[0u32, 2, 3]),
        };
        bw.write(2, hskip as u64);
        let mut bitacc = 0u32;
        let single = used.len() == 1;
        for &idx in ORDER.iter().skip(hskip as usize) {
            let len = cl_lens[idx];
            // variable length code of the code length code lengths
            match len {
                0 => bw.write(2, 0),
                4 => bw.write(2, 1),
                3 => bw.write(2, 2),
                2 => {
                    bw.write(2, 3);
                    bw.write(1, 0);
                }
                1 => {
                    bw.write(2, 3);
                    bw.write(2, 0b01);
                }
                5 => {
                    bw.write(2, 3);
                    bw.write(2, 0b11);
                }
                _ => unreachable!(),
            }
            if len != 0 {
                bitacc += 32 >> len;
                if bitacc == 32 {
                    break;
                }
            }
        }
        debug_assert!(single || bitacc == 32);
        // 4. the code lengths
        for c in &seq {
            if !single {
                write_code(bw, cl_codes[c.sym as usize], cl_lens[c.sym as usize]);
            }
            match c.sym {
                16 => bw.write(2, c.extra as u64),
                17 => bw.write(3, c.extra as u64),
                _ => {}
            }
        }
    }

    pub fn write_symbol(&self, bw: &mut BitWriter, sym: u32) {
        let l = self.lengths[sym as usize];
        if self.single {
            return;
        }
        assert!(l > 0, "symbol {sym} has no code");
        write_code(bw, self.codes[sym as usize], l);
    }
}

/// Extra-bit values of a chain of repeat codes producing a total run of `n >= 3`.
/// `base` = 4 for code 16 (2 extra bits), 8 for code 17 (3 extra bits).
fn chain_extras(n: usize, base: usize) -> Vec<u8> {
    // T1 = e + 3 ; T' = (T - 2) * base + e + 3
    let maxe = base - 1;
    if n <= 3 + maxe {
        return vec![(n - 3) as u8];
    }
    // n = (T-2)*base + e + 3  => e = (n - 3 + 2*base) mod base
    let e = (n - 3 + 2 * base) % base;
    let t = (n - 3 - e) / base + 2;
    debug_assert!(t >= 3);
    let mut v = chain_extras(t, base);
    v.push(e as u8);
    v
}

// ---------------------------------------------------------------------------------------------
// ANS

fn write_u8(bw: &mut BitWriter, v: u32) {
    debug_assert!(v < 256);
    if v == 0 {
        bw.bool(false);
    } else {
        bw.bool(true);
        let n = floor_log2(v);
        bw.write(3, n as u64);
        bw.write(n, (v - (1 << n)) as u64);
    }
}

/// prefix code of the log-counts (value -> (nbits, bits LSB-first))
fn write_logcount(bw: &mut BitWriter, v: u8) {
    // 3-bit primary, then unary-ish tails, as the format's fixed table
    match v {
        10 => bw.write(3, 0),
        7 => bw.write(3, 2),
        6 => bw.write(3, 4),
        8 => bw.write(3, 5),
        9 => bw.write(3, 6),
        3 => {
            bw.write(3, 3);
            bw.write(1, 0)
        }
        1 => {
            bw.write(3, 3);
            bw.write(1, 1)
        }
        5 => {
            bw.write(3, 7);
            bw.write(1, 0)
        }
        2 => {
            bw.write(3, 7);
            bw.write(1, 1)
        }
        4 => {
            bw.write(3, 1);
            bw.write(1, 1)
        }
        0 => {
            bw.write(3, 1);
            bw.write(2, 0b10)
        }
        11 => {
            bw.write(3, 1);
            bw.write(3, 0b100)
        }
        13 => {
            bw.write(3, 1);
            bw.write(4, 0b1000)
        }
        12 => {
            bw.write(3, 1);
            bw.write(4, 0b0000)
        }
        _ => unreachable!(),
    }
}

fn general_bitcount(shift: u32, zeros: u32) -> u32 {
    let v = shift as i32 - ((12 - zeros as i32) >> 1);
    v.clamp(0, zeros as i32) as u32
}

/// Largest representable value <= t (t >= 1) under `shift`.
fn quantize_down(t: u32, shift: u32) -> u32 {
    let z = floor_log2(t);
    if z == 0 {
        return 1;
    }
    let bc = general_bitcount(shift, z);
    let drop = z - bc;
    (t >> drop) << drop
}

impl AnsHist {
    /// Build the alias tables for a normalised distribution (format definition).
    fn finish(
        log_alpha: u32,
        alphabet_size: u32,
        dist: Vec<u16>,
        form: AnsForm,
        logcounts: Vec<u8>,
        omit_pos: usize,
    ) -> Self {
        let table_size = 1usize << log_alpha;
        assert_eq!(dist.len(), table_size);
        assert_eq!(dist.iter().map(|&d| d as u32).sum::<u32>(), ANS_TAB);
        let log_bucket = 12 - log_alpha;
        let bucket_size = 1u32 << log_bucket;
        let mut symbols = vec![0u32; table_size];
        let mut offsets = vec![0u32; table_size];
        let mut cutoffs = vec![0u32; table_size];
        if let Some(s) = dist.iter().position(|&d| d as u32 == ANS_TAB) {
            for i in 0..table_size {
                symbols[i] = s as u32;
                offsets[i] = bucket_size * i as u32;
                cutoffs[i] = 0;
            }
        } else {
            let mut underfull = Vec::new();
            let mut overfull = Vec::new();
            for i in 0..table_size {
                cutoffs[i] = dist[i] as u32;
                if (i as u32) < alphabet_size {
                    symbols[i] = i as u32;
                }
                if cutoffs[i] > bucket_size {
                    overfull.push(i);
                } else if cutoffs[i] < bucket_size {
                    underfull.push(i);
                }
            }
            while let Some(o) = overfull.pop() {
                let u = underfull.pop().expect("alias: underfull empty");
                let by = bucket_size - cutoffs[u];
                cutoffs[o] -= by;
                symbols[u] = o as u32;
                offsets[u] = cutoffs[o];
                if cutoffs[o] < bucket_size {
                    underfull.push(o);
                } else if cutoffs[o] > bucket_size {
                    overfull.push(o);
                }
            }
            for i in 0..table_size {
                if cutoffs[i] == bucket_size {
                    symbols[i] = i as u32;
                    offsets[i] = 0;
                    cutoffs[i] = 0;
                } else {
                    offsets[i] = offsets[i].wrapping_sub(cutoffs[i]);
                }
            }
        }
        let mut inv: Vec<Vec<u16>> = dist.iter().map(|&d| vec![0u16; d as usize]).collect();
        let mut seen: Vec<Vec<bool>> = dist.iter().map(|&d| vec![false; d as usize]).collect();
        for idx in 0..ANS_TAB {
            let i = (idx >> log_bucket) as usize;
            let pos = idx & (bucket_size - 1);
            let (sym, off) = if pos >= cutoffs[i] {
                (symbols[i] as usize, offsets[i].wrapping_add(pos))
            } else {
                (i, pos)
            };
            assert!(
                (off as usize) < inv[sym].len(),
                "alias table inconsistent: sym {sym} off {off} dist {}",
                dist[sym]
            );
            assert!(!seen[sym][off as usize]);
            seen[sym][off as usize] = true;
            inv[sym][off as usize] = idx as u16;
        }
        Self {
            log_alpha,
            alphabet_size,
            dist,
            form,
            logcounts,
            omit_pos,
            inv,
        }
    }

    /// Build a histogram covering all symbols with nonzero count.
    pub fn build(rng: &mut Rng, counts: &[u64], log_alpha: u32, opts: &BuildOpts) -> Self {
        let table_size = 1usize << log_alpha;
        assert!(counts.len() <= table_size);
        let used: Vec<usize> = (0..counts.len()).filter(|&s| counts[s] > 0).collect();
        let max_used = used.last().copied().unwrap_or(0);
        let mut dist = vec![0u16; table_size];

        // candidate forms
        let mut forms: Vec<u32> = Vec::new();
        if used.len() <= 1 {
            forms.push(0);
        }
        if used.len() <= 2 && table_size >= 2 {
            forms.push(1);
        }
        forms.push(2); // flat always possible
        if table_size >= 3 {
            forms.push(3);
            forms.push(3);
            forms.push(3);
        }
        let form = if opts.plain {
            if used.len() <= 1 {
                0
            } else {
                3
            }
        } else {
            *rng.pick(&forms)
        };
        match form {
            0 => {
                let s = if used.is_empty() {
                    rng.below(table_size as u64) as usize
                } else {
                    used[0]
                };
                dist[s] = ANS_TAB as u16;
                Self::finish(log_alpha, s as u32 + 1, dist, AnsForm::Single, vec![], 0)
            }
            1 => {
                // two distinct symbols covering `used`
                let mut a = used.first().copied();
                let mut b = used.get(1).copied();
                while a.is_none() || b.is_none() || a == b {
                    let r = rng.below(table_size as u64) as usize;
                    if a.is_none() {
                        a = Some(r);
                    } else if Some(r) != a {
                        b = Some(r);
                    }
                }
                let (mut v0, mut v1) = (a.unwrap(), b.unwrap());
                if rng.bool() {
                    std::mem::swap(&mut v0, &mut v1);
                }
                // prob for v0 in 1..=4095 (0 allowed only if v0 unused)
                let c0 = counts.get(v0).copied().unwrap_or(0);
                let c1 = counts.get(v1).copied().unwrap_or(0);
                let p = if c0 + c1 == 0 || rng.chance(1, 4) {
                    rng.range(1, 4095) as u32
                } else {
                    ((c0 as f64 / (c0 + c1) as f64) * 4096.0).round().clamp(1.0, 4095.0) as u32
                };
                let p = if c0 == 0 && rng.chance(1, 6) { 0 } else { p };
                dist[v0] = p as u16;
                dist[v1] = (ANS_TAB - p) as u16;
                Self::finish(
                    log_alpha,
                    v0.max(v1) as u32 + 1,
                    dist,
                    AnsForm::Binary {
                        v0: v0 as u32,
                        v1: v1 as u32,
                    },
                    vec![],
                    0,
                )
            }
            2 => {
                let n = if rng.bool() {
                    max_used + 1
                } else {
                    rng.urange(max_used + 1, table_size)
                };
                let base = ANS_TAB as usize / n;
                let left = ANS_TAB as usize % n;
                for (i, d) in dist.iter_mut().enumerate().take(n) {
                    *d = (base + (i < left) as usize) as u16;
                }
                Self::finish(log_alpha, n as u32, dist, AnsForm::Flat, vec![], 0)
            }
            _ => Self::build_general(rng, counts, log_alpha, opts),
        }
    }

    fn build_general(rng: &mut Rng, counts: &[u64], log_alpha: u32, opts: &BuildOpts) -> Self {
        let table_size = 1usize << log_alpha;
        let used: Vec<usize> = (0..counts.len()).filter(|&s| counts[s] > 0).collect();
        let max_used = used.last().copied().unwrap_or(0);
        let shift = opts.ans_shift.unwrap_or_else(|| {
            if rng.chance(1, 3) {
                13
            } else {
                rng.below(14) as u32
            }
        });
        // alphabet size 3..=min(table_size, 258)
        let min_alpha = (max_used + 1).max(3);
        let max_alpha = table_size.min(258);
        let alphabet_size = if opts.plain || rng.chance(2, 3) {
            min_alpha
        } else {
            rng.urange(min_alpha, max_alpha)
        };
        // weights: counts plus optional spurious symbols
        let mut w: Vec<f64> = (0..alphabet_size)
            .map(|s| counts.get(s).copied().unwrap_or(0) as f64)
            .collect();
        if opts.spurious || used.is_empty() || rng.chance(1, 5) {
            let total: f64 = w.iter().sum::<f64>().max(1.0);
            for x in w.iter_mut() {
                if *x == 0.0 && rng.chance(1, 3) {
                    *x = total * rng.f64() * rng.f64() / alphabet_size as f64 + 1e-3;
                }
            }
        }
        if w.iter().all(|&x| x == 0.0) {
            w[0] = 1.0;
        }
        // occasionally perturb weights heavily (distribution need not match the data)
        if !opts.plain && rng.chance(1, 6) {
            for x in w.iter_mut() {
                if *x > 0.0 {
                    *x *= (rng.gauss() * 1.5).exp();
                }
            }
        }
        let nz: Vec<usize> = (0..alphabet_size).filter(|&s| w[s] > 0.0).collect();
        // a general histogram with a single nonzero symbol would have dist 4096 = "single" -
        // still legal. Keep it possible but make sure >= 1 symbol.
        // targets: >= 1 each, sum 4096
        let total: f64 = nz.iter().map(|&s| w[s]).sum();
        let mut t: Vec<u32> = vec![0; alphabet_size];
        let mut sum = 0u32;
        for &s in &nz {
            let v = ((w[s] / total) * ANS_TAB as f64).floor().max(1.0) as u32;
            t[s] = v;
            sum += v;
        }
        // fix the sum by adjusting the largest entries
        while sum != ANS_TAB {
            if sum < ANS_TAB {
                let s = *nz.iter().max_by(|&&a, &&b| w[a].partial_cmp(&w[b]).unwrap()).unwrap();
                t[s] += ANS_TAB - sum;
                sum = ANS_TAB;
            } else {
                // take from the largest target
                let s = *nz.iter().max_by_key(|&&a| t[a]).unwrap();
                let take = (sum - ANS_TAB).min(t[s] - 1);
                assert!(take > 0, "cannot normalise");
                t[s] -= take;
                sum -= take;
            }
        }
        // quantise all but the omitted symbol; the omitted one is the first symbol with the
        // largest log-count.
        let mut q: Vec<u32> = t.iter().map(|&v| if v == 0 { 0 } else { quantize_down(v.min(4095), shift) }).collect();
        let logc = |v: u32| -> u8 {
            if v == 0 {
                0
            } else {
                floor_log2(v) as u8 + 1
            }
        };
        let mut logcounts: Vec<u8> = q.iter().map(|&v| logc(v)).collect();
        let maxlog = *logcounts.iter().max().unwrap();
        let omit_pos = logcounts.iter().position(|&l| l == maxlog).unwrap();
        // maxlog can be 13 only if some q == 4096, excluded by min(4095) unless single symbol
        if maxlog > 12 {
            logcounts[omit_pos] = 12;
        }
        let others: u32 = q
            .iter()
            .enumerate()
            .filter(|&(i, _)| i != omit_pos)
            .map(|(_, &v)| v)
            .sum();
        assert!(others < ANS_TAB);
        q[omit_pos] = ANS_TAB - others;
        // Optionally inflate the written log-count of the omitted symbol (any value that keeps
        // it the first maximum is legal).
        if !opts.plain && rng.chance(1, 8) {
            let lo = logcounts[omit_pos];
            logcounts[omit_pos] = rng.range(lo as i64, 12) as u8;
        }
        let mut dist = vec![0u16; table_size];
        for (i, &v) in q.iter().enumerate() {
            dist[i] = v as u16;
        }
        let rle = !opts.plain && rng.chance(3, 4);
        Self::finish(
            log_alpha,
            alphabet_size as u32,
            dist,
            AnsForm::General { shift, rle },
            logcounts,
            omit_pos,
        )
    }

    pub fn write_header(&self, bw: &mut BitWriter, rng: &mut Rng) {
        match &self.form {
            AnsForm::Single => {
                bw.bool(true);
                bw.bool(false);
                write_u8(bw, self.alphabet_size - 1);
            }
            AnsForm::Binary { v0, v1 } => {
                bw.bool(true);
                bw.bool(true);
                write_u8(bw, *v0);
                write_u8(bw, *v1);
                bw.write(12, self.dist[*v0 as usize] as u64);
            }
            AnsForm::Flat => {
                bw.bool(false);
                bw.bool(true);
                write_u8(bw, self.alphabet_size - 1);
            }
            AnsForm::General { shift, rle } => {
                bw.bool(false);
                bw.bool(false);
                // shift: unary length (max 3) then `len` bits: shift = bits + (1<<len) - 1
                let s1 = shift + 1;
                let len = floor_log2(s1).min(3);
                for _ in 0..len {
                    bw.bool(true);
                }
                if len < 3 {
                    bw.bool(false);
                }
                bw.write(len, (s1 - (1 << len)) as u64);
                write_u8(bw, self.alphabet_size - 3);
                // log-count codes with optional RLE
                let n = self.alphabet_size as usize;
                let mut written: Vec<Option<u8>> = Vec::with_capacity(n); // None = covered by RLE
                let mut i = 0;
                let mut prev_dist: u32 = 0; // dist value a RLE would copy
                while i < n {
                    // possible RLE at i: symbols i..i+k all have dist == prev_dist, k >= 4, and
                    // none of them is the omitted one, and i-1 is not the omitted one
                    let mut k = 0;
                    while i + k < n
                        && i + k != self.omit_pos
                        && self.dist[i + k] as u32 == prev_dist
                        && k < 259
                    {
                        k += 1;
                    }
                    let after_omit = i > 0 && i - 1 == self.omit_pos;
                    if *rle && k >= 4 && !after_omit && rng.chance(7, 8) {
                        let k = if rng.chance(1, 4) { rng.urange(4, k) } else { k };
                        write_logcount(bw, 13);
                        write_u8(bw, (k - 4) as u32);
                        for _ in 0..k {
                            written.push(None);
                        }
                        i += k;
                        // prev_dist unchanged
                        continue;
                    }
                    let lc = self.logcounts[i];
                    write_logcount(bw, lc);
                    written.push(Some(lc));
                    prev_dist = if i == self.omit_pos || lc == 0 {
                        0
                    } else {
                        self.dist[i] as u32
                    };
                    i += 1;
                }
                // precision bits
                for i in 0..n {
                    if let Some(lc) = written[i] {
                        if i == self.omit_pos || lc <= 1 {
                            continue;
                        }
                        let zeros = lc as u32 - 1;
                        let bc = general_bitcount(*shift, zeros);
                        let v = self.dist[i] as u32;
                        debug_assert_eq!(floor_log2(v), zeros);
                        let frac = (v - (1 << zeros)) >> (zeros - bc);
                        debug_assert_eq!((1 << zeros) + (frac << (zeros - bc)), v);
                        bw.write(bc, frac as u64);
                    }
                }
            }
        }
    }
}

// ---------------------------------------------------------------------------------------------
// whole code

/// One coded unit in stream order.
#[derive(Clone, Copy, Debug)]
struct Atom {
    cluster: u8,
    sym: u32,
    nbits: u32,
    bits: u32,
}

fn mtf_encode(map: &[u8]) -> Vec<u8> {
    let mut l: Vec<u8> = (0..=255).collect();
    let mut out = Vec::with_capacity(map.len());
    for &c in map {
        let idx = l.iter().position(|&x| x == c).unwrap();
        out.push(idx as u8);
        l.remove(idx);
        l.insert(0, c);
    }
    out
}

/// Random cluster map for `n` contexts using at most `maxc` clusters, no holes.
pub fn random_cluster_map(rng: &mut Rng, n: usize, maxc: usize) -> Vec<u8> {
    let k = rng.urange(1, maxc.min(n).min(256).max(1));
    let mut m: Vec<u8> = (0..n).map(|_| rng.below(k as u64) as u8).collect();
    // make sure every id < k appears: assign first k positions (shuffled) to distinct ids
    let mut pos: Vec<usize> = (0..n).collect();
    rng.shuffle(&mut pos);
    for (id, &p) in pos.iter().take(k).enumerate() {
        m[p] = id as u8;
    }
    m
}

impl EntropyCode {
    fn tokenize(&self, items: &[Item]) -> Vec<Atom> {
        let mut atoms = Vec::with_capacity(items.len());
        for it in items {
            match *it {
                Item::Lit { ctx, value } => {
                    let c = self.cluster_map[ctx as usize];
                    let (t, nb, b) = self.cfgs[c as usize].encode(value);
                    atoms.push(Atom {
                        cluster: c,
                        sym: t,
                        nbits: nb,
                        bits: b,
                    });
                }
                Item::Copy {
                    ctx,
                    len,
                    dist_value,
                } => {
                    let lz = self.lz77.as_ref().expect("copy without lz77");
                    let c = self.cluster_map[ctx as usize];
                    let (t, nb, b) = lz.len_cfg.encode(len - lz.min_length);
                    atoms.push(Atom {
                        cluster: c,
                        sym: lz.min_symbol + t,
                        nbits: nb,
                        bits: b,
                    });
                    let dc = *self.cluster_map.last().unwrap();
                    let (t, nb, b) = self.cfgs[dc as usize].encode(dist_value);
                    atoms.push(Atom {
                        cluster: dc,
                        sym: t,
                        nbits: nb,
                        bits: b,
                    });
                }
            }
        }
        atoms
    }

    /// Build a code able to encode `items` for `num_dist` contexts.
    pub fn build(rng: &mut Rng, num_dist: u32, items: &[Item], opts: &BuildOpts) -> Self {
        Self::try_build(rng, num_dist, items, opts).expect("cannot fit tokens into alphabet")
    }

    /// `None` when the requested parameters cannot represent the items (e.g. literal tokens
    /// would reach `min_symbol`).
    pub fn try_build(
        rng: &mut Rng,
        num_dist: u32,
        items: &[Item],
        opts: &BuildOpts,
    ) -> Option<Self> {
        let lz77 = opts.lz77.clone();
        let has_copy = items.iter().any(|i| matches!(i, Item::Copy { .. }));
        assert!(!has_copy || lz77.is_some());
        let nctx = num_dist as usize + lz77.is_some() as usize;

        let use_prefix = opts.use_prefix.unwrap_or_else(|| rng.bool());
        let mut log_alpha = if use_prefix {
            15
        } else {
            opts.log_alpha.unwrap_or_else(|| rng.u32range(5, 8))
        };

        // cluster map
        let cluster_map = match &opts.cluster_map {
            Some(m) => {
                assert_eq!(m.len(), nctx);
                m.clone()
            }
            None => {
                let maxc = opts.max_clusters.unwrap_or_else(|| {
                    if rng.chance(1, 3) {
                        1
                    } else if rng.chance(1, 2) {
                        rng.u32range(1, 8)
                    } else {
                        256
                    }
                }) as usize;
                random_cluster_map(rng, nctx, maxc)
            }
        };
        let num_clusters = *cluster_map.iter().max().unwrap() as usize + 1;

        // per cluster maxima
        let mut max_lit = vec![0u32; num_clusters];
        let mut has_lit = vec![false; num_clusters];
        let mut max_len_tok = vec![None::<u32>; num_clusters];
        let dist_cluster = *cluster_map.last().unwrap() as usize;
        for it in items {
            match *it {
                Item::Lit { ctx, value } => {
                    let c = cluster_map[ctx as usize] as usize;
                    max_lit[c] = max_lit[c].max(value);
                    has_lit[c] = true;
                }
                Item::Copy {
                    ctx,
                    len,
                    dist_value,
                } => {
                    let lz = lz77.as_ref().unwrap();
                    let c = cluster_map[ctx as usize] as usize;
                    let t = lz.len_cfg.encode(len - lz.min_length).0;
                    max_len_tok[c] = Some(max_len_tok[c].map_or(t, |x: u32| x.max(t)));
                    max_lit[dist_cluster] = max_lit[dist_cluster].max(dist_value);
                    has_lit[dist_cluster] = true;
                }
            }
        }

        // configs; bump log_alpha (ANS) until all fit
        let cfgs = loop {
            let alpha_max: u32 = 1 << log_alpha;
            let mut cfgs = Vec::with_capacity(num_clusters);
            let mut ok = true;
            for c in 0..num_clusters {
                // literal tokens must stay below min_symbol when lz77 is on; exception: the
                // distance context is read *after* a copy token and is not compared with
                // min_symbol there, but the same cluster may also serve ordinary contexts.
                let only_dist = lz77.is_some()
                    && cluster_map[..nctx - 1].iter().all(|&m| m as usize != c);
                let lit_limit = match (&lz77, only_dist) {
                    (Some(lz), false) => lz.min_symbol.min(alpha_max),
                    _ => alpha_max,
                };
                if let Some(t) = max_len_tok[c] {
                    let lz = lz77.as_ref().unwrap();
                    if lz.min_symbol + t >= alpha_max {
                        ok = false;
                        break;
                    }
                }
                if let Some(forced) = &opts.cfgs {
                    let f = forced[c];
                    if f.max_token_bound(max_lit[c]) >= lit_limit || f.split_exp > log_alpha {
                        ok = false;
                        break;
                    }
                    cfgs.push(f);
                    continue;
                }
                match UintCfg::random_fitting(rng, log_alpha, max_lit[c], lit_limit) {
                    Some(cfg) => cfgs.push(cfg),
                    None => {
                        ok = false;
                        break;
                    }
                }
            }
            if ok {
                break cfgs;
            }
            if use_prefix || log_alpha >= 8 || opts.log_alpha.is_some() {
                return None;
            }
            log_alpha += 1;
        };

        let mut code = EntropyCode {
            num_dist,
            lz77,
            cluster_map,
            cluster_coding: ClusterCoding::Simple { nbits: 0 },
            nested: None,
            use_prefix,
            log_alpha,
            cfgs,
            hists: Vec::new(),
        };

        // token counts
        let atoms = code.tokenize(items);
        let alpha_max = 1usize << log_alpha;
        let mut counts: Vec<Vec<u64>> = vec![Vec::new(); num_clusters];
        for a in &atoms {
            let v = &mut counts[a.cluster as usize];
            if v.len() <= a.sym as usize {
                v.resize(a.sym as usize + 1, 0);
            }
            v[a.sym as usize] += 1;
        }

        // histograms
        for c in 0..num_clusters {
            if let Some((fc, sym)) = opts.force_single {
                if fc as usize == c {
                    let v = &mut counts[c];
                    assert!(v.iter().enumerate().all(|(s, &n)| n == 0 || s as u32 == sym));
                    if v.len() <= sym as usize {
                        v.resize(sym as usize + 1, 0);
                    }
                    v[sym as usize] = v[sym as usize].max(1);
                    if use_prefix {
                        let mut l = vec![0u8; v.len()];
                        l[sym as usize] = 1;
                        code.hists.push(Hist::Prefix(PrefixHist::from_lengths(rng, l, true)));
                    } else {
                        let mut dist = vec![0u16; 1 << log_alpha];
                        dist[sym as usize] = ANS_TAB as u16;
                        code.hists.push(Hist::Ans(AnsHist::finish(
                            log_alpha,
                            sym + 1,
                            dist,
                            AnsForm::Single,
                            vec![],
                            0,
                        )));
                    }
                    continue;
                }
            }
            let cnt = &counts[c];
            if use_prefix {
                let used: Vec<usize> = (0..cnt.len()).filter(|&s| cnt[s] > 0).collect();
                let min_alpha = cnt.len().max(1);
                let alphabet_size = if opts.plain || rng.chance(3, 4) {
                    min_alpha
                } else if rng.chance(1, 10) {
                    alpha_max
                } else {
                    rng.urange(min_alpha, (min_alpha * 2 + 4).min(alpha_max))
                };
                let mut cnt2: Vec<u64> = cnt.clone();
                cnt2.resize(alphabet_size, 0);
                if alphabet_size >= 2 && (opts.spurious || (!opts.plain && rng.chance(1, 5))) {
                    let k = rng.urange(0, (alphabet_size - used.len()).min(12));
                    for _ in 0..k {
                        let s = rng.below(alphabet_size as u64) as usize;
                        if cnt2[s] == 0 {
                            cnt2[s] = 1 + rng.below(3);
                        }
                    }
                }
                let used2: Vec<usize> = (0..cnt2.len()).filter(|&s| cnt2[s] > 0).collect();
                let lengths: Vec<u8> = if alphabet_size == 1 {
                    vec![0]
                } else if used2.len() <= 1 {
                    // single symbol code: simple form nsym=1 (any symbol if none used)
                    let s = used2.first().copied().unwrap_or_else(|| rng.below(alphabet_size as u64) as usize);
                    let mut l = vec![0u8; alphabet_size];
                    l[s] = 1; // marker: length irrelevant for single symbol
                    l
                } else if !opts.plain && rng.chance(1, 4) {
                    let r = random_complete_lengths(rng, used2.len(), 15);
                    let mut l = vec![0u8; alphabet_size];
                    for (k, &s) in used2.iter().enumerate() {
                        l[s] = r[k];
                    }
                    l
                } else {
                    huffman_lengths(&cnt2, 15)
                };
                code.hists
                    .push(Hist::Prefix(PrefixHist::from_lengths(rng, lengths, opts.plain)));
            } else {
                code.hists
                    .push(Hist::Ans(AnsHist::build(rng, cnt, log_alpha, opts)));
            }
        }

        // cluster map coding
        if nctx > 1 {
            let simple_ok = num_clusters <= 8;
            let coding = match opts.cluster_coding {
                Some(c) => c,
                None => {
                    if simple_ok && (opts.plain || rng.chance(1, 2)) {
                        let minbits = ceil_log2_plus1(num_clusters as u32 - 1);
                        let nbits = if opts.plain { minbits } else { rng.u32range(minbits, 3) };
                        ClusterCoding::Simple { nbits }
                    } else {
                        ClusterCoding::Coded { mtf: rng.bool() }
                    }
                }
            };
            let coding = match coding {
                ClusterCoding::Simple { .. } if !simple_ok => ClusterCoding::Coded { mtf: false },
                c => c,
            };
            code.cluster_coding = coding;
            if let ClusterCoding::Coded { mtf } = coding {
                let seq: Vec<u8> = if mtf {
                    mtf_encode(&code.cluster_map)
                } else {
                    code.cluster_map.clone()
                };
                let reads: Vec<Read> = seq
                    .iter()
                    .map(|&v| Read {
                        ctx: 0,
                        value: v as u32,
                    })
                    .collect();
                let nested_prefix = rng.bool();
                let mut nopts = BuildOpts {
                    plain: opts.plain,
                    use_prefix: Some(nested_prefix),
                    ..Default::default()
                };
                // nested lz77 only allowed when nctx > 2
                let plain_items: Vec<Item> = lits(&reads);
                let mut found = None;
                if nctx > 2 && !opts.plain && rng.chance(1, 3) {
                    for _ in 0..4 {
                        let lz = random_lz77_params(rng, nested_prefix, 255);
                        let it = plan_lz77(
                            rng,
                            &reads,
                            &lz,
                            0,
                            60,
                            if nested_prefix { 1 << 15 } else { 256 },
                        );
                        nopts.lz77 = Some(lz);
                        if let Some(c) = EntropyCode::try_build(rng, 1, &it, &nopts) {
                            found = Some((c, it));
                            break;
                        }
                    }
                }
                let (nested, items) = match found {
                    Some(x) => x,
                    None => {
                        nopts.lz77 = None;
                        (EntropyCode::build(rng, 1, &plain_items, &nopts), plain_items)
                    }
                };
                code.nested = Some(Box::new((nested, items)));
            }
        }
        Some(code)
    }

    pub fn write_header(&self, bw: &mut BitWriter, rng: &mut Rng) {
        // lz77
        match &self.lz77 {
            None => bw.bool(false),
            Some(lz) => {
                bw.bool(true);
                bw.u32([D::C(224), D::C(512), D::C(4096), D::B(8, 15)], lz.min_symbol);
                bw.u32([D::C(3), D::C(4), D::B(5, 2), D::B(9, 8)], lz.min_length);
                lz.len_cfg.write(bw, 8);
            }
        }
        let nctx = self.cluster_map.len();
        if nctx > 1 {
            match self.cluster_coding {
                ClusterCoding::Simple { nbits } => {
                    bw.bool(true);
                    bw.write(2, nbits as u64);
                    for &c in &self.cluster_map {
                        bw.write(nbits, c as u64);
                    }
                }
                ClusterCoding::Coded { mtf } => {
                    bw.bool(false);
                    bw.bool(mtf);
                    let (nested, items) = &**self.nested.as_ref().unwrap();
                    nested.write_header(bw, rng);
                    nested.write_items(bw, items);
                }
            }
        }
        bw.bool(self.use_prefix);
        if !self.use_prefix {
            bw.write(2, (self.log_alpha - 5) as u64);
        }
        for c in &self.cfgs {
            c.write(bw, self.log_alpha);
        }
        if self.use_prefix {
            for h in &self.hists {
                let Hist::Prefix(p) = h else { unreachable!() };
                if p.alphabet_size == 1 {
                    bw.bool(false);
                } else {
                    bw.bool(true);
                    let n = floor_log2(p.alphabet_size - 1);
                    bw.write(4, n as u64);
                    bw.write(n, (p.alphabet_size - 1 - (1 << n)) as u64);
                }
            }
            for h in &self.hists {
                let Hist::Prefix(p) = h else { unreachable!() };
                p.write_header(bw, rng);
            }
        } else {
            for h in &self.hists {
                let Hist::Ans(a) = h else { unreachable!() };
                a.write_header(bw, rng);
            }
        }
    }

    /// Write the symbol stream (ANS: including the 32-bit initial state).
    pub fn write_items(&self, bw: &mut BitWriter, items: &[Item]) {
        self.write_items_final_state(bw, items, 0x130000);
    }

    /// `final_state` other than 0x130000 produces a stream whose final-state check must fail.
    pub fn write_items_final_state(&self, bw: &mut BitWriter, items: &[Item], final_state: u32) {
        let atoms = self.tokenize(items);
        if self.use_prefix {
            for a in &atoms {
                let Hist::Prefix(p) = &self.hists[a.cluster as usize] else {
                    unreachable!()
                };
                p.write_symbol(bw, a.sym);
                bw.write(a.nbits, a.bits as u64);
            }
            return;
        }
        // rANS, reverse pass
        let mut state: u32 = final_state;
        let mut refill: Vec<Option<u16>> = vec![None; atoms.len()];
        for (i, a) in atoms.iter().enumerate().rev() {
            let Hist::Ans(h) = &self.hists[a.cluster as usize] else {
                unreachable!()
            };
            let f = h.dist[a.sym as usize] as u32;
            assert!(f > 0, "symbol {} has zero probability", a.sym);
            if (state >> 20) >= f {
                refill[i] = Some(state as u16);
                state >>= 16;
            }
            let slot = h.inv[a.sym as usize][(state % f) as usize] as u32;
            state = ((state / f) << 12) + slot;
        }
        bw.write(32, state as u64);
        for (i, a) in atoms.iter().enumerate() {
            if let Some(w) = refill[i] {
                bw.write(16, w as u64);
            }
            bw.write(a.nbits, a.bits as u64);
        }
    }

    /// Number of ANS state bits that will be read even for an empty stream by `begin()`.
    pub fn is_ans(&self) -> bool {
        !self.use_prefix
    }
}

// ---------------------------------------------------------------------------------------------
// LZ77 planning

pub const SPECIAL_DISTANCES: [[i8; 2]; 120] = special_distances();

const fn special_distances() -> [[i8; 2]; 120] {
    // The table of the format definition, in order.
    [
        [0, 1], [1, 0], [1, 1], [-1, 1], [0, 2], [2, 0], [1, 2], [-1, 2], [2, 1], [-2, 1],
        [2, 2], [-2, 2], [0, 3], [3, 0], [1, 3], [-1, 3], [3, 1], [-3, 1], [2, 3], [-2, 3],
        [3, 2], [-3, 2], [0, 4], [4, 0], [1, 4], [-1, 4], [4, 1], [-4, 1], [3, 3], [-3, 3],
        [2, 4], [-2, 4], [4, 2], [-4, 2], [0, 5], [3, 4], [-3, 4], [4, 3], [-4, 3], [5, 0],
        [1, 5], [-1, 5], [5, 1], [-5, 1], [2, 5], [-2, 5], [5, 2], [-5, 2], [4, 4], [-4, 4],
        [3, 5], [-3, 5], [5, 3], [-5, 3], [0, 6], [6, 0], [1, 6], [-1, 6], [6, 1], [-6, 1],
        [2, 6], [-2, 6], [6, 2], [-6, 2], [4, 5], [-4, 5], [5, 4], [-5, 4], [3, 6], [-3, 6],
        [6, 3], [-6, 3], [0, 7], [7, 0], [1, 7], [-1, 7], [5, 5], [-5, 5], [7, 1], [-7, 1],
        [4, 6], [-4, 6], [6, 4], [-6, 4], [2, 7], [-2, 7], [7, 2], [-7, 2], [3, 7], [-3, 7],
        [7, 3], [-7, 3], [5, 6], [-5, 6], [6, 5], [-6, 5], [8, 0], [4, 7], [-4, 7], [7, 4],
        [-7, 4], [8, 1], [8, 2], [6, 6], [-6, 6], [8, 3], [5, 7], [-5, 7], [7, 5], [-7, 5],
        [8, 4], [6, 7], [-6, 7], [7, 6], [-7, 6], [8, 5], [7, 7], [-7, 7], [8, 6], [8, 7],
    ]
}

/// Effective distance (1-based) for a written distance value at position `pos` (number of
/// values decoded so far), per the format definition.
pub fn lz77_effective_distance(dist_value: u32, multiplier: u32, pos: u32) -> u32 {
    let d = if multiplier == 0 {
        dist_value
    } else if dist_value < 120 {
        let [off, dy] = SPECIAL_DISTANCES[dist_value as usize];
        let d = off as i64 + multiplier as i64 * dy as i64;
        (d - 1).max(0) as u32
    } else {
        dist_value - 120
    };
    (d.min((1 << 20) - 1) + 1).min(pos)
}

/// Random LZ77 parameters under which literals up to `max_literal` stay encodable
/// (some hybrid-uint config keeps their tokens below `min_symbol`) and at least a few length
/// tokens fit into the alphabet.
pub fn random_lz77_params(rng: &mut Rng, use_prefix: bool, max_literal: u32) -> Lz77Params {
    // smallest possible token count for literals: config (0,0,0) gives token 1+floor_log2(v)
    let need = if max_literal == 0 { 1 } else { 2 + floor_log2(max_literal) };
    let alpha: u32 = if use_prefix { 1 << 15 } else { 256 };
    let min_symbol = loop {
        let m = match rng.below(7) {
            0 | 1 => 224,
            2 => 512,
            3 => 4096,
            4 => 8 + rng.below(64) as u32,
            _ => 8 + rng.below(1 << 15) as u32,
        };
        if m >= need && m + 2 <= alpha {
            break m;
        }
    };
    let min_length = match rng.below(5) {
        0 | 1 => 3,
        2 => 4,
        3 => 5 + rng.below(4) as u32,
        _ => 9 + rng.below(256) as u32,
    };
    let all = UintCfg::all(8);
    let len_cfg = *rng.pick(&all);
    Lz77Params {
        min_symbol,
        min_length,
        len_cfg,
    }
}

/// Turn a value sequence into literals and copies. `percent`: chance (0..100) of trying a copy
/// at each position. Copies are validated against the window semantics of the format (array
/// index `p - D`, overlapping allowed, D <= 2^20).
pub fn plan_lz77(
    rng: &mut Rng,
    reads: &[Read],
    lz: &Lz77Params,
    multiplier: u32,
    percent: u32,
    alphabet_limit: u32,
) -> Vec<Item> {
    let n = reads.len();
    let mut items = Vec::new();
    // index of previous occurrence per value (for finding matches quickly)
    let mut last_pos: std::collections::HashMap<u32, Vec<usize>> = std::collections::HashMap::new();
    let mut p = 0usize;
    let push_pos = |m: &mut std::collections::HashMap<u32, Vec<usize>>, v: u32, p: usize| {
        let e = m.entry(v).or_default();
        e.push(p);
        if e.len() > 8 {
            e.remove(0);
        }
    };
    while p < n {
        let mut done = false;
        if p > 0 && rng.below(100) < percent as u64 {
            // candidate written distance values
            let mut cands: Vec<u32> = Vec::new();
            let basev = if multiplier == 0 { 0 } else { 120 };
            if let Some(ps) = last_pos.get(&reads[p].value) {
                for &q in ps.iter().rev().take(3) {
                    let d = (p - q) as u32;
                    if d <= 1 << 20 {
                        cands.push(basev + d - 1);
                    }
                }
            }
            cands.push(basev); // distance 1
            if multiplier != 0 {
                cands.push(rng.below(120) as u32);
                cands.push(rng.below(120) as u32);
                cands.push(0); // [0,1] => one row up
            }
            if rng.chance(1, 8) {
                // over-long distance, clamped to `pos`
                cands.push(basev + p as u32 + rng.below(1000) as u32);
            }
            if rng.chance(1, 20) {
                cands.push(u32::MAX - rng.below(4) as u32);
            }
            rng.shuffle(&mut cands);
            for dv in cands {
                let d = lz77_effective_distance(dv, multiplier, p as u32) as usize;
                if d == 0 || d > p {
                    continue;
                }
                let mut m = 0usize;
                while p + m < n && reads[p + m].value == reads[p + m - d].value {
                    m += 1;
                }
                if m as u32 >= lz.min_length {
                    let mut len = if rng.chance(1, 3) {
                        rng.urange(lz.min_length as usize, m)
                    } else {
                        m
                    };
                    // the length token must fit into the alphabet above min_symbol
                    while lz.min_symbol + lz.len_cfg.encode(len as u32 - lz.min_length).0
                        >= alphabet_limit
                        && len > lz.min_length as usize
                    {
                        len = (lz.min_length as usize).max(len / 2);
                    }
                    if lz.min_symbol + lz.len_cfg.encode(len as u32 - lz.min_length).0
                        >= alphabet_limit
                    {
                        continue;
                    }
                    // the length token must be encodable: token < alphabet - min_symbol is
                    // checked by the code builder; keep lengths moderate when min_symbol is
                    // large relative to small ANS alphabets (builder bumps log_alpha / fails).
                    items.push(Item::Copy {
                        ctx: reads[p].ctx,
                        len: len as u32,
                        dist_value: dv,
                    });
                    for k in 0..len {
                        push_pos(&mut last_pos, reads[p + k].value, p + k);
                    }
                    p += len;
                    done = true;
                    break;
                }
            }
        }
        if !done {
            items.push(Item::Lit {
                ctx: reads[p].ctx,
                value: reads[p].value,
            });
            push_pos(&mut last_pos, reads[p].value, p);
            p += 1;
        }
    }
    items
}

pub fn lits(reads: &[Read]) -> Vec<Item> {
    reads
        .iter()
        .map(|r| Item::Lit {
            ctx: r.ctx,
            value: r.value,
        })
        .collect()
}
