//! LSB-first bit writer and the JPEG XL field encodings (u(n), U32, U64, F16, Enum, Bool).

use crate::rng::Rng;

/// One distribution of a U32 field.
#[derive(Clone, Copy, Debug)]
pub enum D {
    /// constant
    C(u32),
    /// offset + u(n)
    B(u32, u32),
}

#[derive(Clone, Debug, Default)]
pub struct BitWriter {
    pub bytes: Vec<u8>,
    acc: u64,
    nacc: u32,
    total_bits: usize,
    /// When set, selector choices (U32/U64) are randomised among all forms that can represent
    /// the value, so non-minimal encodings are reachable.
    pub sel_rng: Option<Rng>,
}

impl BitWriter {
    pub fn new() -> Self {
        Self::default()
    }

    pub fn with_random_selectors(rng: Rng) -> Self {
        Self {
            sel_rng: Some(rng),
            ..Default::default()
        }
    }

    pub fn bits_written(&self) -> usize {
        self.total_bits
    }

    pub fn write(&mut self, n: u32, v: u64) {
        debug_assert!(n <= 64);
        if n == 0 {
            return;
        }
        let v = if n == 64 { v } else { v & ((1u64 << n) - 1) };
        let mut n = n;
        let mut v = v;
        while n > 0 {
            let room = 64 - self.nacc;
            let take = n.min(room);
            let part = if take == 64 { v } else { v & ((1u64 << take) - 1) };
            self.acc |= part << self.nacc;
            self.nacc += take;
            self.total_bits += take as usize;
            v = if take == 64 { 0 } else { v >> take };
            n -= take;
            while self.nacc >= 8 {
                self.bytes.push(self.acc as u8);
                self.acc >>= 8;
                self.nacc -= 8;
            }
        }
    }

    pub fn bool(&mut self, b: bool) {
        self.write(1, b as u64);
    }

    pub fn zero_pad_to_byte(&mut self) {
        let r = self.total_bits % 8;
        if r != 0 {
            self.write(8 - r as u32, 0);
        }
    }

    /// Pad with arbitrary bits (for hostile use).
    pub fn pad_to_byte_with(&mut self, v: u64) {
        let r = self.total_bits % 8;
        if r != 0 {
            self.write(8 - r as u32, v);
        }
    }

    pub fn is_byte_aligned(&self) -> bool {
        self.total_bits % 8 == 0
    }

    pub fn append_bytes(&mut self, b: &[u8]) {
        assert!(self.is_byte_aligned());
        self.bytes.extend_from_slice(b);
        self.total_bits += b.len() * 8;
    }

    /// Append the bits of another writer (bit-exact, no alignment).
    pub fn append_bits(&mut self, other: &BitWriter) {
        let full = other.total_bits / 8;
        for &b in &other.bytes[..full.min(other.bytes.len())] {
            self.write(8, b as u64);
        }
        let rem = other.total_bits % 8;
        if rem != 0 {
            // remaining bits are in other.acc (not yet flushed) or last byte
            let v = if full < other.bytes.len() {
                other.bytes[full] as u64
            } else {
                other.acc
            };
            self.write(rem as u32, v);
        }
    }

    /// Finish: pads to byte with zeros and returns the bytes.
    pub fn finish(mut self) -> Vec<u8> {
        self.zero_pad_to_byte();
        debug_assert_eq!(self.nacc, 0);
        self.bytes
    }

    pub fn selector_fits(d: D, v: u32) -> bool {
        match d {
            D::C(c) => c == v,
            D::B(off, n) => {
                let x = v.wrapping_sub(off);
                // the decoder computes read_bits(n).wrapping_add(off)
                n >= 32 || (x as u64) < (1u64 << n)
            }
        }
    }

    pub fn u32_with_selector(&mut self, ds: [D; 4], sel: usize, v: u32) {
        debug_assert!(Self::selector_fits(ds[sel], v), "{ds:?} {sel} {v}");
        self.write(2, sel as u64);
        if let D::B(off, n) = ds[sel] {
            self.write(n, v.wrapping_sub(off) as u64);
        }
    }

    pub fn u32(&mut self, ds: [D; 4], v: u32) {
        let mut cands = [0usize; 4];
        let mut nc = 0;
        for (i, d) in ds.iter().enumerate() {
            if Self::selector_fits(*d, v) {
                cands[nc] = i;
                nc += 1;
            }
        }
        assert!(nc > 0, "value {v} not representable by {ds:?}");
        let sel = match &mut self.sel_rng {
            Some(r) => cands[r.below(nc as u64) as usize],
            None => cands[0],
        };
        self.u32_with_selector(ds, sel, v);
    }

    /// U64 in the given form: 0,1,2 = short forms, 3 = 12-bit + continuation groups,
    /// `extra_groups`: number of additional all-zero continuation groups beyond the minimum.
    pub fn u64_form(&mut self, v: u64, form: u32, extra_groups: u32) {
        match form {
            0 => {
                assert_eq!(v, 0);
                self.write(2, 0);
            }
            1 => {
                assert!((1..=16).contains(&v));
                self.write(2, 1);
                self.write(4, v - 1);
            }
            2 => {
                assert!((17..=272).contains(&v));
                self.write(2, 2);
                self.write(8, v - 17);
            }
            3 => {
                self.write(2, 3);
                self.write(12, v & 0xfff);
                let mut shift = 12u32;
                let mut rest = v >> 12;
                let mut extra = extra_groups;
                loop {
                    if rest == 0 {
                        if extra == 0 {
                            self.write(1, 0);
                            break;
                        }
                        extra -= 1;
                    }
                    self.write(1, 1);
                    if shift == 60 {
                        self.write(4, rest & 0xf);
                        break;
                    }
                    self.write(8, rest & 0xff);
                    rest >>= 8;
                    shift += 8;
                }
            }
            _ => unreachable!(),
        }
    }

    pub fn u64(&mut self, v: u64) {
        let minimal = if v == 0 {
            0
        } else if v <= 16 {
            1
        } else if v <= 272 {
            2
        } else {
            3
        };
        match &mut self.sel_rng {
            Some(r) => {
                let (form, extra) = if r.chance(1, 3) {
                    (3, if r.chance(1, 2) { r.below(4) as u32 } else { 0 })
                } else {
                    (minimal, 0)
                };
                self.u64_form(v, form, extra);
            }
            None => self.u64_form(v, minimal, 0),
        }
    }

    pub fn f16_bits(&mut self, bits: u16) {
        self.write(16, bits as u64);
    }

    pub fn enum_(&mut self, v: u32) {
        self.u32([D::C(0), D::C(1), D::B(2, 4), D::B(18, 6)], v);
    }
}

/// Independent F16 -> f32 conversion (by value, through f64 arithmetic).
pub fn f16_to_f32(bits: u16) -> f32 {
    let sign = if bits & 0x8000 != 0 { -1.0f64 } else { 1.0 };
    let e = ((bits >> 10) & 0x1f) as i32;
    let m = (bits & 0x3ff) as f64;
    let v = if e == 0 {
        m * (2.0f64).powi(-24)
    } else if e == 31 {
        f64::NAN
    } else {
        (1.0 + m / 1024.0) * (2.0f64).powi(e - 15)
    };
    (sign * v) as f32
}

/// Nearest finite f16 bit pattern for `x` (round-to-nearest by search; used by generators only).
pub fn f32_to_f16_bits(x: f32) -> u16 {
    if x == 0.0 {
        return if x.is_sign_negative() { 0x8000 } else { 0 };
    }
    let sign = if x < 0.0 { 0x8000u16 } else { 0 };
    let a = x.abs() as f64;
    // binary search over positive finite patterns 0..0x7bff (monotone)
    let (mut lo, mut hi) = (0u16, 0x7bffu16);
    while lo < hi {
        let mid = (lo + hi) / 2;
        if (f16_to_f32(mid) as f64) < a {
            lo = mid + 1;
        } else {
            hi = mid;
        }
    }
    let cand_hi = lo;
    let cand_lo = lo.saturating_sub(1);
    let dh = (f16_to_f32(cand_hi) as f64 - a).abs();
    let dl = (f16_to_f32(cand_lo) as f64 - a).abs();
    sign | if dl < dh { cand_lo } else { cand_hi }
}

pub fn ceil_log2_plus1(x: u32) -> u32 {
    // number of bits needed to write values 0..=x: ceil(log2(x+1))
    let mut n = 0;
    while (1u64 << n) < x as u64 + 1 {
        n += 1;
    }
    n
}

pub fn floor_log2(x: u32) -> u32 {
    debug_assert!(x > 0);
    31 - x.leading_zeros()
}

pub fn pack_signed(v: i32) -> u32 {
    if v >= 0 {
        (v as u32) << 1
    } else {
        (((-(v as i64)) as u32) << 1).wrapping_sub(1)
    }
}
